"""C14 - one spectrum: every access path and output option reports the same phonons.

Specification: spec/AccessPaths.tla (requirement + step machine of the buffers of
QpointsPhonon._run, Mesh._set_phonon, IterMesh.__next__, BandStructure._solve_dm_on_path,
Phonopy.init_mesh), spec/AccessPathsTrace.tla (conformance), spec/BandConnection.tla
(estimate_band_connection).  See DESIGN.md section 5/C14.

Steps
 1. TLC model-checks the step machine in its repaired form against the requirement over the
    whole product of paths x flags x builds x NAC classes x q-lists, and emits that product.
 2. spec -> code: harness/c14_driver.py drives the real API along every emitted configuration,
    once per build (OpenMP / serial extension, two sub-processes), and projects every reported
    array to specification tokens.
 3. code -> spec: TLC evaluates the requirement on the logged observations (Impl*) and reports
    under which code variant the machine reproduces each observation; the variant this tree
    implements is then model-checked against the requirement.
 4. BandConnection: TLC explores the greedy matching over exactly representable unitary
    overlap matrices; its table is replayed on the real estimate_band_connection.
"""
from __future__ import annotations

import itertools
import json
import os
import subprocess
import sys
from concurrent.futures import ThreadPoolExecutor

import numpy as np

from harness import tlc as tlcmod
from harness import tla_values

VERIF = tlcmod.VERIF
SITES = ["dmCopy", "iterInit", "gcPrivate", "closedDir", "ompRound", "iterFactor", "qCopy"]
SITE_DEFECT = dict(dmCopy="D1", iterInit="D13", gcPrivate="D14", closedDir="D18", ompRound="D19", iterFactor="IterMesh drops factor", qCopy="solver reads non-contiguous q-points")
RELEVANT = dict(qpoints={"dmCopy", "ompRound", "qCopy"}, mesh={"ompRound"}, itermesh={"iterInit", "gcPrivate", "iterFactor"},
                band={"closedDir", "qCopy"}, direct={"qCopy"})
INV = ["TypeOK", "UndefinedVariableFree", "InvNoError", "InvFreq", "InvEigvec", "InvDynmat", "InvGV",
       "InvGrid", "InvDiag", "InvSameOrder", "InvNoGarbage", "InvPositionIndependent"]
IMPL = ["ImplNoError", "ImplFreq", "ImplEigvec", "ImplDynmat", "ImplGV", "ImplGrid", "ImplDiag",
        "ImplSameOrder", "ImplDiagNumeric", "ImplIterSame", "ImplPermutation", "ImplFiles", "ImplBulk"]
ENTRIES_QUICK = ["tetab", "tric", "cscl", "tric~neg"]
ENTRIES_THOROUGH = ["tetab", "tric", "cscl", "wz", "tric~neg"]


# ---------------------------------------------------------------------------------------
class TSet(list):
    """a list printed as a TLA+ set"""


def tla(v):
    if isinstance(v, bool):
        return "TRUE" if v else "FALSE"
    if isinstance(v, int):
        return str(v)
    if isinstance(v, str):
        return '"%s"' % v
    if isinstance(v, TSet):
        return "{" + ", ".join(tla(x) for x in v) + "}"
    if isinstance(v, (list, tuple)):
        return "<<" + ", ".join(tla(x) for x in v) + ">>"
    if isinstance(v, dict):
        return "[" + ", ".join("%s |-> %s" % (k, tla(x)) for k, x in v.items()) + "]"
    raise TypeError(type(v))


CFG_FIELDS = ["path", "kind", "omp", "nac", "dec", "wev", "wgv", "wdm", "conn", "dir", "shape", "meshlen", "gc", "qs", "fac", "lay"]


def event_json(e):
    o = e["out"]
    return json.dumps(dict(
        id=e["id"], cfg={k: e["cfg"][k] for k in CFG_FIELDS},
        out=dict({k: o[k] for k in ("err", "freq", "eigvec", "dm", "gv", "gc", "diag", "iter", "permok")}, bulk=o.get("bulk", "na")),
        files=e["files"]))


def printed(stdout, tag):
    """values printed with PrintT(ToString(<<tag, ...>>)): one per line, as a quoted string"""
    out = []
    head = '"<<\\"%s\\"' % tag
    for line in stdout.splitlines():
        if line.startswith(head):
            out.append(tla_values.parse_value(json.loads(line)))
    return out


def account(ctx, module, res, note):
    ctx.states += res.distinct
    ctx.transitions += res.generated
    ctx.tlc_runs.append(dict(module=module, cfg=note, **res.summary(),
                             coverage={k: v[1] for k, v in res.coverage.items()} or None))


def code_tla(true_sites):
    return "[s \\in CodeSites |-> s \\in {%s}]" % ", ".join('"%s"' % s for s in sorted(true_sites))


def mc_access(codes_expr, emit=False):
    mc = ("---- MODULE MC_AccessPaths ----\nEXTENDS AccessPaths\nMCCfgs == AllCfgs\nMCCodes == %s\n"
          "EmitCfg == pc = \"choose\" => PrintT(ToString(<<\"CFG\", cfg>>))\n====\n" % codes_expr)
    cfg = ("INIT Init\nNEXT Next\nCONSTANTS\n Cfgs <- MCCfgs\n Codes <- MCCodes\nCHECK_DEADLOCK FALSE\n"
           + "".join("INVARIANT %s\n" % i for i in INV + (["EmitCfg"] if emit else [])))
    return mc, cfg


# ---------------------------------------------------------------------------------------
LAYS = ["list", "tuple", "farray", "tview", "strided", "colslice", "f32", "int", "readonly"]


def make_plan(ctx, cfgs):
    entries = ENTRIES_QUICK if ctx.quick else ENTRIES_THOROUGH
    cases = []
    base = {}
    for c in cfgs:
        base.setdefault(json.dumps({k: v for k, v in c.items() if k not in ("fac", "lay")}, sort_keys=True), {})[(c["fac"], c["lay"])] = c
    facs = ["vasp", "cm", "x37"]
    nlay = 0
    for k, key in enumerate(sorted(base)):
        variants = base[key]
        # quick: one unit conversion factor per configuration, rotating; where the default factor falls on a route that takes
        # q-points from the caller, one of the other presentations of the q-point argument, rotating.  thorough: the default
        # and one other factor, and every presentation.
        if ctx.quick:
            f = facs[(k + ctx.seed) % 3]
            lays = [l for (ff, l) in variants if ff == "vasp" and l != "carray"]
            if f == "vasp" and lays:
                nlay += 1
                lay = LAYS[(nlay + ctx.seed) % len(LAYS)]
                if lay == "int" and json.loads(key)["nac"] != "none":
                    lay = "f32"      # integer q-points are zone centres: with NAC they are Gamma-like, outside the token model
                pick = [("vasp", lay)]
            else:
                pick = [(f, "carray")]
        else:
            pick = [("vasp", "carray"), (facs[1 + (k + ctx.seed) % 2], "carray")] + [(ff, l) for (ff, l) in sorted(variants) if l != "carray" and not (l == "int" and json.loads(key)["nac"] != "none")]
        for c in (variants[p] for p in pick):
            can_file = c["path"] in ("qpoints", "mesh", "band")
            if ctx.quick or c["lay"] != "carray":
                combos = [(entries[(k + ctx.seed) % len(entries)], bool((k // 3 + ctx.seed) % 2))]
            else:
                combos = [(en, cm) for en in entries for cm in (False, True)]
            for n, (en, cm) in enumerate(combos):
                if c["nac"] != "none" and en in ("hcp", "bcc"):  # one species: no charges
                    en = "wz"
                files = can_file and ((k + n) % (4 if ctx.quick else 3) == 0)
                cases.append(dict(cfg=c, entry=en, comm=cm, files=files))
    return cases


def start_drivers(ctx, cases, rundir):
    plan = os.path.join(rundir, "plan.json")
    procs = []
    for n, var in enumerate(("omp", "serial")):
        with open(plan + "." + var, "w") as f:
            json.dump(dict(seed=ctx.seed, id_base=n * 1000000, cases=cases), f)
        out = os.path.join(rundir, "events_%s.json" % var)
        env = dict(os.environ, VERIF_EXT_VARIANT=var, OMP_NUM_THREADS="2", OMP_WAIT_POLICY="PASSIVE", PYTHONWARNINGS="ignore",
                   PYTHONDONTWRITEBYTECODE="1")
        p = subprocess.Popen([sys.executable, "-m", "harness.c14_driver", plan + "." + var, out], cwd=VERIF, env=env,
                             stdout=subprocess.PIPE, stderr=subprocess.STDOUT)
        procs.append((var, p, out))
    return procs


def start_bulk(ctx, rundir):
    """large batched calls, both builds (harness/c14_bulk.py); the OpenMP build with 4 threads"""
    bdir = os.path.join(rundir, "bulk")
    os.makedirs(bdir, exist_ok=True)
    plan = os.path.join(bdir, "plan.json")
    with open(plan, "w") as f:
        json.dump(dict(seed=ctx.seed, entry="tetab", nq=4000 if ctx.quick else 12000, mesh=[12, 12, 12] if ctx.quick else [16, 16, 16],
                       repeats=3 if ctx.quick else 6, sample=8, id_base=5000000), f)
    procs = []
    for var in ("omp", "serial"):
        env = dict(os.environ, VERIF_EXT_VARIANT=var, OMP_NUM_THREADS="4", PYTHONWARNINGS="ignore", PYTHONDONTWRITEBYTECODE="1")
        env.pop("OMP_WAIT_POLICY", None)
        p = subprocess.Popen([sys.executable, "-m", "harness.c14_bulk", plan, bdir], cwd=VERIF, env=env,
                             stdout=subprocess.PIPE, stderr=subprocess.STDOUT)
        procs.append((var, p, bdir))
    return procs


def collect_bulk(ctx, procs):
    data = {}
    for var, p, bdir in procs:
        so, _ = p.communicate(timeout=3000)
        if p.returncode != 0:
            raise tlcmod.MachineryError("c14 bulk driver (%s build) failed:\n%s" % (var, so.decode(errors="replace")[-3000:]))
        with open(os.path.join(bdir, "bulk_%s.json" % var)) as f:
            data[var] = json.load(f)
        if data[var]["omp"] != (var == "omp"):
            raise tlcmod.MachineryError("c14 bulk driver: build %s reports use_openmp()=%s" % (var, data[var]["omp"]))
    bdir = procs[0][2]
    events = []
    worst = 0.0
    for var in ("omp", "serial"):
        for e in data[var]["events"]:
            if var == "serial":
                e["id"] += 100000
            c, rep = e["cfg"], e["args"]["repeat"]
            name = ("D" if c["path"] == "qpoints" else "F") + "_%s_" + c["nac"] + "_%d.npy"
            a = np.load(os.path.join(bdir, name % (var, rep)))
            b = np.load(os.path.join(bdir, name % ("serial" if var == "omp" else "omp", rep)))
            d = float(np.abs(a - b).max() / max(1.0, np.abs(b).max())) if a.shape == b.shape else 1.0
            if var == "omp":                   # the serial batch is the reference of this comparison
                e["bulk_facts"]["vs_serial_build"] = d
                if d > 1e-9:
                    e["out"]["bulk"] = "bad"
            if e["out"]["bulk"] == "ok":
                worst = max([worst] + list(e["bulk_facts"].values()))
            e["args"]["bulk_facts"] = e["bulk_facts"]
            events.append(e)
    ctx.extra["bulk"] = dict(events=len(events), worst_agreement_error_over_tolerance=worst / 1e-9,
                             wall_s={v: round(data[v]["wall"], 1) for v in data},
                             flagged=[dict(build="omp" if e["cfg"]["omp"] else "serial", path=e["cfg"]["path"], nac=e["cfg"]["nac"],
                                           repeat=e["args"]["repeat"], facts=e["bulk_facts"]) for e in events if e["out"]["bulk"] == "bad"][:12])
    if worst / 1e-9 > 1e-3:
        ctx.extra.setdefault("margin_exhausted", []).append("bulk agreement %g" % worst)
    return events


def collect_drivers(procs):
    events = []
    info = {}
    for var, p, out in procs:
        so, _ = p.communicate(timeout=3000)
        if p.returncode != 0:
            raise tlcmod.MachineryError("c14 driver (%s build) failed:\n%s" % (var, so.decode(errors="replace")[-3000:]))
        with open(out) as f:
            d = json.load(f)
        if d["omp"] != (var == "omp"):
            raise tlcmod.MachineryError("c14 driver: build %s reports use_openmp()=%s" % (var, d["omp"]))
        info[var] = dict(events=len(d["events"]), wall_s=round(d["wall"], 1), oracle_check=d["oracle_check"])
        for en, x in d["oracle_check"].items():
            if x > 1e-10:
                raise tlcmod.MachineryError("c14: oracle Fourier sum differs from phonopy's matrix for %s: %g" % (en, x))
        events += d["events"]
    return events, info


# ---------------------------------------------------------------------------------------
TRACE_CFG = ("INIT TInit\nNEXT TNext\nCONSTANTS\n Cfgs <- MCCfgs\n Codes <- MCCodes\n EventFile <- MCEventFile\n"
             "CHECK_DEADLOCK FALSE\nINVARIANT ReportReq\nINVARIANT Report\n"   # reports first: TLC stops at the first violated invariant of a state
             + "".join("INVARIANT %s\n" % i for i in IMPL))


def validate_batch(batch, nworkers):
    rundir = tlcmod.new_rundir("MC_AccessPathsTrace")
    path = os.path.join(rundir, "events.ndjson")
    with open(path, "w") as f:
        for e in batch:
            f.write(event_json(e) + "\n")
    mc = ("---- MODULE MC_AccessPathsTrace ----\nEXTENDS AccessPathsTrace\nMCCfgs == {}\nMCCodes == {}\n"
          "MCEventFile == \"%s\"\n====\n" % path)
    res = tlcmod.run("MC_AccessPathsTrace", cfg_text=TRACE_CFG, extra_files={"MC_AccessPathsTrace.tla": mc},
                     extra_args=("-continue",), workers=nworkers, rundir=rundir, keep=True)
    tlcmod.cleanup(res)
    return res


def class_tag(c):
    """the failing class a violation key names (what known_findings.json matches on)"""
    tag = [c["path"]]
    if c["path"] in ("qpoints", "mesh"):
        tag.append("omp" if c["omp"] else "serial")
        if c["dec"] and c["omp"]:
            tag.append("decimals")
    if c["path"] == "band" and c["shape"] == "closed" and c["nac"] != "none":
        tag.append("closed-path+nac")
    if c.get("fac", "vasp") != "vasp":
        tag.append("non-default-factor")
    if c.get("lay", "carray") not in ("carray", "list", "tuple"):
        tag.append("q-argument:" + ("non-contiguous" if c["lay"] in ("farray", "tview", "strided", "colslice") else c["lay"]))
    return "/".join(tag)


def class_tag_ev(e):
    return class_tag(e["cfg"]) + ("/bulk-batch" if e["out"].get("bulk", "na") != "na" else "")


def detect_variant(events, conf):
    """conf[id] = {frozenset(true sites restricted to the relevant ones): bool}."""
    allv = [frozenset(s) for r in range(len(SITES) + 1) for s in itertools.combinations(SITES, r)]
    ok = []
    for v in allv:
        good = True
        for e in events:
            rel = RELEVANT[e["cfg"]["path"]]
            if not conf[e["id"]].get(frozenset(v & rel), False):
                good = False
                break
        if good:
            ok.append(v)
    distinguished = set()
    for e in events:
        rel = RELEVANT[e["cfg"]["path"]]
        acc = conf[e["id"]]
        for s in rel:
            for v, a in acc.items():
                w = frozenset(v ^ {s})
                if w in acc and acc[w] != a:
                    distinguished.add(s)
    return ok, distinguished


# ---------------------------------------------------------------------------------------
def band_connection(ctx):
    """TLC table of estimate_band_connection over unitary overlap matrices, replayed on the real function."""
    from phonopy.phonon.band_structure import estimate_band_connection

    fams = [dict(dim=3, re="-2..2", im="{0}", prev=[[1, 2, 3], [3, 1, 2]]),
            dict(dim=4, re="-1..1", im="{0}", prev=[[1, 2, 3, 4], [2, 4, 1, 3]])]
    if not ctx.quick:
        fams += [dict(dim=3, re="-1..1", im="-1..1", prev=[[1, 2, 3], [2, 3, 1], [3, 2, 1]])]
        # (dim 4, entries -2..2: 735 650 states, no further class of counterexample; left out for time)

    def mc_text(f, maxvals, invs):
        mc = ("---- MODULE MC_BandConnection ----\nEXTENDS BandConnection\nMCRe == %s\nMCIm == %s\nMCPrev == %s\n"
              "MCMv == %s\n====\n" % (f["re"], f["im"], "{" + ", ".join(tla(p) for p in f["prev"]) + "}", maxvals))
        cfg = ("INIT Init\nNEXT Next\nCONSTANTS\n Dim = %d\n ReRange <- MCRe\n ImRange <- MCIm\n Mode = \"unitary\"\n"
               " PrevOrders <- MCPrev\n InitMaxvals <- MCMv\nCHECK_DEADLOCK FALSE\n" % f["dim"]
               + "".join("INVARIANT %s\n" % i for i in invs))
        return mc, cfg

    consistent = {0, -1}
    nrep = 0
    witness = None
    counter = {}   # initial maxval -> first TLC counterexample of ConnectionIsPermutation
    for f in fams:
        mc, cfg = mc_text(f, "{0, -1}", ["Emit", "UndefinedVariableFree", "GreedyChoice", "PermPinned", "PermRepaired"])
        res = tlcmod.run("MC_BandConnection", cfg_text=cfg, extra_files={"MC_BandConnection.tla": mc},
                         extra_args=("-continue",), workers=6)
        account(ctx, "MC_BandConnection", res, "(generated) dim=%d re=%s im=%s" % (f["dim"], f["re"], f["im"]))
        for name, tr in res.violations:
            st = tr[-1][1] if tr else {}
            if name in ("UndefinedVariableFree", "GreedyChoice"):
                ctx.violation("tlc:BandConnection:" + name, "TLC: %s violated in BandConnection" % name, dict(state=st))
            else:
                counter.setdefault(st.get("mv0"), dict(overlap_matrix_times_sqrtK=st.get("M"), connection_order_1based=st.get("conn")))
        table = {}
        for _, mv0, M, prev, result, err in printed(res.stdout, "BC"):
            key = (json.dumps(M), tuple(prev))
            table.setdefault(key, {})[mv0] = list(result)
        tlcmod.cleanup(res)
        if not table:
            raise tlcmod.MachineryError("c14: BandConnection emitted no table")
        n = f["dim"]
        perm = np.roll(np.arange(n), 1)
        P = np.zeros((n, n), dtype=complex)
        for a_, b_ in enumerate(perm):
            P[a_, b_] = -1.0 if a_ % 2 else 1.0
        for (Mj, prev), byv in table.items():
            M = np.array(json.loads(Mj))
            Mc = (M[:, :, 0] + 1j * M[:, :, 1]).astype(complex)
            # prev_eigvecs = a signed permutation matrix P, eigvecs = P M: metric = |P^H P M| = |M| exactly
            for pe, ee in ((np.eye(n, dtype=complex), Mc), (P, P @ Mc)):
                try:
                    got = [int(x) + 1 for x in estimate_band_connection(pe, ee, [p - 1 for p in prev])]
                except Exception as ex:  # noqa: BLE001
                    got = ["raised", type(ex).__name__]
                nrep += 1
                ctx.count(("bc", Mj, prev))
                match = {mv for mv, r in byv.items() if r == got}
                if not match:
                    ctx.violation("bandconnection:replay",
                                  "estimate_band_connection differs from the step machine of BandConnection.tla",
                                  dict(prev_eigvecs=pe, eigvecs=ee, prev_band_order=[p - 1 for p in prev],
                                       expected_1based=byv, got_1based=got))
                else:
                    consistent &= match
                if sorted(map(str, got)) != [str(x) for x in range(1, n + 1)] and witness is None:
                    witness = dict(prev_eigvecs="identity" if pe is not P else "signed permutation",
                                   eigvecs_times_sqrtK=M[:, :, 0].tolist() if not M[:, :, 1].any() else M.tolist(),
                                   prev_band_order=[p - 1 for p in prev], returned_0based=[g - 1 for g in got])
    ctx.traces += nrep
    ctx.extra["band_connection"] = dict(replayed_calls=nrep, conforms_to_initial_maxval=sorted(consistent),
                                        model_counterexample_for_initial_maxval={str(k): v for k, v in counter.items()},
                                        families=[dict(dim=f["dim"], re=f["re"], im=f["im"]) for f in fams])
    if len(consistent) != 1:
        if not ctx.violations:
            raise tlcmod.MachineryError("c14: estimate_band_connection conforms to variants %s of the model" % sorted(consistent))
        return
    mv = next(iter(consistent))
    # the requirement on the variant the code implements
    if mv in counter:
        ctx.violation("bandconnection:ConnectionIsPermutation",
                      "estimate_band_connection returns a non-permutation for a unitary overlap matrix (D17): TLC "
                      "counterexample on the variant of BandConnection.tla the code conforms to, reproduced on the real function",
                      dict(tlc_counterexample=counter[mv], real_function_witness=witness))
    if 0 not in counter:
        raise tlcmod.MachineryError("c14: the pinned greedy matching has no counterexample in the explored family - model insensitive")
    # sensitivity: without unitarity the greedy matching fails in the model (recorded, not a verdict)
    if not ctx.quick:
        mc = ("---- MODULE MC_BandConnection ----\nEXTENDS BandConnection\nMCRe == 0..2\nMCIm == {0}\nMCPrev == {<<1,2,3>>}\n"
              "MCMv == {-1, 0}\n====\n")
        cfg = ("INIT Init\nNEXT Next\nCONSTANTS\n Dim = 3\n ReRange <- MCRe\n ImRange <- MCIm\n Mode = \"free\"\n"
               " PrevOrders <- MCPrev\n InitMaxvals <- MCMv\nCHECK_DEADLOCK FALSE\nINVARIANT PermPinned\nINVARIANT PermRepaired\n")
        res = ctx.tlc("MC_BandConnection", cfg_text=cfg, extra_files={"MC_BandConnection.tla": mc}, requirement=False,
                      extra_args=("-continue",), workers=4)
        ctx.extra["band_connection"]["free_overlap_tables_violate"] = sorted(set(n for n, _ in res.violations))


# ---------------------------------------------------------------------------------------
# ---------------------------------------------------------------------------------------
# query histories (spec/QueryHistory.tla)
HIST_INV = ["TypeOK", "HistoryIndependent", "HoldersIntact"]
HIST_TRACE_CFG = ("INIT TInit\nNEXT TNext\nCONSTANTS\n Histories <- MCH\n NacClasses <- MCN\n Codes <- MCC\n EventFile <- MCEventFile\n"
                  "CHECK_DEADLOCK FALSE\nINVARIANT ReportReq\nINVARIANT Report\nINVARIANT ImplHistoryIndependent\nINVARIANT ImplHoldersIntact\n")


def mc_history(codes, emit=False):
    mc = ("---- MODULE MC_QueryHistory ----\nEXTENDS QueryHistory\nMCH == HistoriesUpTo(3)\n"
          "MCN == {\"none\", \"wang\", \"gl\"}\nMCC == %s\n====\n" % codes)
    cfg = ("INIT Init\nNEXT Next\nCONSTANTS\n Histories <- MCH\n NacClasses <- MCN\n Codes <- MCC\nCHECK_DEADLOCK FALSE\n"
           + "".join("INVARIANT %s\n" % i for i in (["Emit"] if emit else []) + HIST_INV))
    return mc, cfg


def history_model(ctx):
    """TLC: every history of <= 3 queries answers as a fresh object (repaired machine); the histories themselves."""
    mc, cfg = mc_history("{[gvReset |-> TRUE]}", emit=True)
    res = ctx.tlc("MC_QueryHistory", cfg_text=cfg, extra_files={"MC_QueryHistory.tla": mc}, requirement=True,
                  coverage=True, workers=4, what="query-history machine (repaired variant) violates history independence")
    hists = []
    seen = set()
    for _, h in printed(res.stdout, "H"):
        key = json.dumps(h, sort_keys=True)
        if key not in seen:
            seen.add(key)
            hists.append([dict(kind=q["kind"], dir=bool(q["dir"]), gv=bool(q["gv"])) for q in h])
    unc = [a for a, n in res.coverage.items() if n[1] == 0]
    if len(hists) != 1110 or unc:
        raise tlcmod.MachineryError("c14: %d histories emitted (1110 expected), uncovered actions %s" % (len(hists), unc))
    # sensitivity: a GroupVelocity.run that keeps the direction must violate history independence in the model
    mc, cfg = mc_history("{[gvReset |-> FALSE]}")
    stale = tlcmod.run("MC_QueryHistory", cfg_text=cfg, extra_files={"MC_QueryHistory.tla": mc}, workers=2)
    account(ctx, "MC_QueryHistory", stale, "(generated) Codes={gvReset=FALSE}")
    tlcmod.cleanup(stale)
    if stale.violated != "HistoryIndependent":
        raise tlcmod.MachineryError("c14: the history machine without the reset satisfies the requirement - model insensitive")
    ctx.extra["history_model_without_reset_violates"] = dict(
        invariant=stale.violated, history=stale.trace[-1][1].get("hist") if stale.trace else None)
    return hists, stale


def start_history_drivers(ctx, hists, rundir):
    hists = sorted(hists, key=lambda h: (len(h), json.dumps(h, sort_keys=True)))
    short = [h for h in hists if len(h) <= 2]
    long3 = [h for h in hists if len(h) == 3]
    if ctx.quick:
        rng = __import__("random").Random(ctx.seed * 7919 + 14)
        long3 = rng.sample(long3, 40)
    facs = ["vasp", "cm", "x37"]     # the unit conversion factor: fixed per object, rotating over the histories
    cases = [dict(entry="cscl", nac=n, hist=h, fac=facs[(i + j + ctx.seed) % 3])
             for j, n in enumerate(("none", "wang", "gl")) for i, h in enumerate(short + long3)]
    procs = []
    for n, var in enumerate(("omp", "serial")):
        plan = os.path.join(rundir, "hplan_%s.json" % var)
        with open(plan, "w") as f:
            json.dump(dict(seed=ctx.seed, id_base=n * 1000000, cases=cases), f)
        out = os.path.join(rundir, "hevents_%s.json" % var)
        env = dict(os.environ, VERIF_EXT_VARIANT=var, OMP_NUM_THREADS="2", OMP_WAIT_POLICY="PASSIVE", PYTHONWARNINGS="ignore",
                   PYTHONDONTWRITEBYTECODE="1")
        p = subprocess.Popen([sys.executable, "-m", "harness.c14_history", plan, out], cwd=VERIF, env=env,
                             stdout=subprocess.PIPE, stderr=subprocess.STDOUT)
        procs.append((var, p, out))
    return procs


def history_validate(ctx, procs, stale):
    events = []
    info = {}
    for var, p, out in procs:
        so, _ = p.communicate(timeout=3000)
        if p.returncode != 0:
            raise tlcmod.MachineryError("c14 history driver (%s build) failed:\n%s" % (var, so.decode(errors="replace")[-3000:]))
        with open(out) as f:
            d = json.load(f)
        if d["omp"] != (var == "omp"):
            raise tlcmod.MachineryError("c14 history driver: build %s reports use_openmp()=%s" % (var, d["omp"]))
        for e in d["events"]:
            e["omp"] = d["omp"]
        info[var] = dict(histories=len(d["events"]), wall_s=round(d["wall"], 1))
        events += d["events"]
    ctx.extra["history_drivers"] = info
    ctx.traces += len(events)
    for e in events:
        ctx.count(("hist", e["nac"], e["fac"], e["omp"], json.dumps(e["hist"], sort_keys=True)))
    rundir = tlcmod.new_rundir("MC_QueryHistoryTrace")
    path = os.path.join(rundir, "events.ndjson")
    with open(path, "w") as f:
        for e in events:
            f.write(json.dumps(dict(id=e["id"], nac=e["nac"], fac=e["fac"], hist=e["hist"], reread=e["reread"],
                                    obs=[dict(gvp=o["gvp"], fdir=o["fdir"], fresh=o["fresh"]) for o in e["obs"]])) + "\n")
    mc = ("---- MODULE MC_QueryHistoryTrace ----\nEXTENDS QueryHistoryTrace\nMCH == {}\nMCN == {}\nMCC == {}\n"
          "MCEventFile == \"%s\"\n====\n" % path)
    res = tlcmod.run("MC_QueryHistoryTrace", cfg_text=HIST_TRACE_CFG, extra_files={"MC_QueryHistoryTrace.tla": mc},
                     extra_args=("-continue",), workers=4, rundir=rundir, keep=True)
    tlcmod.cleanup(res)
    account(ctx, "MC_QueryHistoryTrace", res, "(generated, %d histories)" % len(events))
    byid = {e["id"]: e for e in events}
    conf = {}
    verdict = {}
    for _, eid, reset, ok in printed(res.stdout, "R"):
        conf.setdefault(eid, {})[bool(reset)] = bool(ok)
    for _, eid, badq, holders in printed(res.stdout, "Q"):
        verdict[eid] = (sorted(badq), bool(holders))
    if set(verdict) != set(byid) or set(conf) != set(byid):
        raise tlcmod.MachineryError("c14: TLC reported on %d/%d of %d histories" % (len(verdict), len(conf), len(events)))
    tlc_names = set(n for n, _ in res.violations)
    mine = set()
    groups = {}
    for eid, (badq, holders) in verdict.items():
        e = byid[eid]
        for j in badq:
            mine.add("ImplHistoryIndependent")
            prev = e["hist"][j - 2]["kind"] if j > 1 else "nothing"
            groups.setdefault("history:Independent:%s" % e["hist"][j - 1]["kind"], []).append((eid, j, prev))
        if not holders:
            mine.add("ImplHoldersIntact")
            groups.setdefault("history:HoldersIntact", []).append((eid, 0, ""))
    if mine != set(n for n in tlc_names if n.startswith("Impl")):
        raise tlcmod.MachineryError("c14: history invariant verdicts %s differ from the per-event report %s" % (sorted(tlc_names), sorted(mine)))
    for key, items in sorted(groups.items()):
        wit = []
        for eid, j, prev in items[:3]:
            e = byid[eid]
            wit.append(dict(crystal=e["entry"], nac=e["nac"], openmp_build=e["omp"], history=e["hist"], failing_query=j,
                            observed=e["obs"], reread=e["reread"],
                            how="replay the history on one Phonopy object (harness/c14_history.py: QLIST, MESH, PATH, DIRS) and compare query j with the same query on a fresh object"))
        ctx.violation(key, "query %s of a history does not answer as on a fresh Phonopy object (%d histories; requirement HistoryIndependent of QueryHistory.tla on the logged arrays)"
                      % (key.split(":")[-1], len(set(i[0] for i in items))), dict(histories=len(set(i[0] for i in items)), witnesses=wit))
    ctx.extra["histories_replayed"] = len(events)
    ctx.extra["histories_violating"] = len([1 for v in verdict.values() if v[0] or not v[1]])
    ctx.sample(dict(history_event=events[len(events) // 2]))
    # which variant of the history machine is this tree
    okv = [v for v in (True, False) if all(conf[i].get(v, False) for i in conf)]
    distinguished = any(conf[i].get(True) != conf[i].get(False) for i in conf)
    ctx.extra["history_conforms_to_gvReset"] = okv
    if not distinguished and not ctx.violations:
        raise tlcmod.MachineryError("c14: no history distinguishes a GroupVelocity that keeps its direction from one that resets it")
    if okv == [False]:
        ctx.violation("tlc:QueryHistory:HistoryIndependent",
                      "TLC: the variant of the history machine this tree conforms to (GroupVelocity.run keeps a stale direction) violates HistoryIndependent",
                      dict(counterexample_history=stale.trace[-1][1].get("hist") if stale.trace else None,
                           reported=stale.trace[-1][1].get("res") if stale.trace else None))
    elif not okv:
        drift = [i for i in conf if not any(conf[i].values())]
        ctx.extra["HISTORY-SPEC-DRIFT"] = dict(histories_conforming_to_no_variant=len(drift),
                                               sample=[dict(hist=byid[i]["hist"], obs=byid[i]["obs"], reread=byid[i]["reread"]) for i in drift[:3]])
        print("SPEC-DRIFT C14: %d histories conform to no variant of QueryHistory.tla" % len(drift))
        if not ctx.violations:
            ctx.violation("conformance:history-no-variant", "the real object's answers are not those of any variant of the history machine",
                          ctx.extra["HISTORY-SPEC-DRIFT"])


def run(ctx):
    run_inner(ctx)
    # a near miss of a tolerance is a machinery failure only when nothing was found: a defect produces near misses too
    if ctx.extra.get("margin_exhausted") and not ctx.violations:
        raise tlcmod.MachineryError("c14: margin exhausted: %s" % ctx.extra["margin_exhausted"])


def run_inner(ctx):
    ctx.rule = ("one case = one call of the real API for one configuration (path, output flags, band-connection, "
                "NAC class, decimals, direction, q-list shape, mesh spec, build) on one catalogue crystal; the "
                "configurations are all those reachable in AccessPaths.tla (AllCfgs); distinct = distinct "
                "(configuration, crystal, q realisation class); plus one case per (overlap matrix, previous order) "
                "replayed on estimate_band_connection; plus one case per (history of <= 3 queries, NAC class, build) "
                "replayed on one fresh Phonopy object")
    ctx.assumptions += [
        "with NAC the matrix named by a token is DynamicalMatrixNAC.run(q, q_direction) of a separate reference Phonopy object "
        "(C08 owns its correctness); without NAC it is the exact lattice Fourier sum of the TLC-computed spring model",
        "group-velocity tokens are interpreted by a fresh GroupVelocity object on the same dynamical-matrix object (C12 owns gv correctness)",
        "eigenvalues / eigenvectors are interpreted by numpy.linalg on the reference matrices",
        "primitive cell = unit cell (primitive_matrix = identity)",
    ]
    # 1. the design, repaired: Impl => Spec over the whole product; and the product itself
    mc, cfg = mc_access("{Repaired}", emit=True)
    res = ctx.tlc("MC_AccessPaths", cfg_text=cfg, extra_files={"MC_AccessPaths.tla": mc}, requirement=True,
                  coverage=True, workers=6, what="step machine (repaired variant) violates the requirement")
    cfgs = [v[1] for v in printed(res.stdout, "CFG")]
    uncovered = [a for a, n in res.coverage.items() if n[1] == 0 and a not in ("Init",)]
    ctx.extra["actions_never_fired"] = uncovered
    if not cfgs or uncovered:
        raise tlcmod.MachineryError("c14: configurations %d, uncovered actions %s" % (len(cfgs), uncovered))
    ctx.extra["configurations"] = len(cfgs)

    # 2. spec -> code
    rundir = tlcmod.new_rundir("c14drv")
    cases = make_plan(ctx, cfgs)
    procs = start_drivers(ctx, cases, rundir)
    bprocs = start_bulk(ctx, rundir)
    hists, stale = history_model(ctx)
    hprocs = start_history_drivers(ctx, hists, rundir)
    pool = ThreadPoolExecutor(max_workers=3)
    mcp, cfgp = mc_access("{Pinned}")
    # (no -continue: with thousands of violating states TLC spends minutes rebuilding one trace per violation)
    fut_pinned = pool.submit(tlcmod.run, "MC_AccessPaths", cfg_text=cfgp, extra_files={"MC_AccessPaths.tla": mcp}, workers=3)
    try:
        from harness import bootstrap  # noqa: F401  (real estimate_band_connection for the replay below)
        band_connection(ctx)
        events, info = collect_drivers(procs)
        events += collect_bulk(ctx, bprocs)
        history_validate(ctx, hprocs, stale)
    finally:
        for _, p, _ in procs + hprocs + bprocs:
            if p.poll() is None:
                p.kill()
    ctx.extra["drivers"] = info
    import shutil
    shutil.rmtree(rundir, ignore_errors=True)
    # margins of the numeric projection
    worst = {}
    for e in events:
        for k, v in e.get("maxerr", {}).items():
            worst[k] = max(worst.get(k, 0.0), v)
    tol = dict(D=1e-9, L=1e-9, E=1e-9, GV=1e-6)
    ctx.extra["projection_error_over_tolerance"] = {k: worst.get(k, 0.0) / tol[k] for k in tol}
    if any(worst.get(k, 0.0) / tol[k] > 1e-3 for k in tol):
        ctx.extra.setdefault("margin_exhausted", []).append("projection %s" % worst)
    for e in events:
        c = e["cfg"]
        ctx.count((e["entry"], json.dumps({k: c[k] for k in CFG_FIELDS if k != "qs"}, sort_keys=True), len(c["qs"])))
    ctx.traces += len(events)
    ctx.extra["events"] = len(events)
    ctx.extra["events_with_files"] = sum(1 for e in events if e["files"])

    # 3. code -> spec
    bsz = 1300
    batches = [events[k:k + bsz] for k in range(0, len(events), bsz)]
    with ThreadPoolExecutor(max_workers=2) as ex:
        results = list(ex.map(lambda b: validate_batch(b, 4), batches))
    conf = {}
    failed = {}
    tlc_names = set()
    for b, r in zip(batches, results):
        account(ctx, "MC_AccessPathsTrace", r, "(generated, %d events)" % len(b))
        tlc_names |= set(n for n, _ in r.violations)
        for _, eid, sites, ok in printed(r.stdout, "R"):
            conf.setdefault(eid, {})[frozenset(sites)] = bool(ok)
        for _, eid, names in printed(r.stdout, "Q"):
            failed[eid] = sorted(names)
    if set(failed) != set(e["id"] for e in events) or set(conf) != set(failed):
        raise tlcmod.MachineryError("c14: TLC reported on %d/%d of %d events" % (len(failed), len(conf), len(events)))
    from_q = set("Impl" + n for names in failed.values() for n in names)
    if from_q != set(n for n in tlc_names if n.startswith("Impl")):
        raise tlcmod.MachineryError("c14: invariant verdicts %s differ from the per-event report %s" % (sorted(tlc_names), sorted(from_q)))
    byid = {e["id"]: e for e in events}
    groups = {}
    for eid, names in failed.items():
        for n in names:
            groups.setdefault((n, class_tag_ev(byid[eid])), []).append(eid)
    for (n, tag), ids in sorted(groups.items()):
        wit = [dict(entry=byid[i]["entry"], cfg=byid[i]["cfg"], args=byid[i].get("args"), exc=byid[i].get("exc"),
                    observed={k: byid[i]["out"][k] for k in ("err", "freq", "eigvec", "dm", "gv", "gc", "diag", "iter", "permok")},
                    files=[f for f in byid[i]["files"] if f["milli"] > 0 or not f["present"]]) for i in ids[:2]]
        ctx.violation("impl:%s:%s" % (n, tag),
                      "requirement Req%s of AccessPaths.tla fails on what the real code reported (%s, %d events)" % (n, tag, len(ids)),
                      dict(requirement=n, cls=tag, events=len(ids), witnesses=wit))
    ctx.extra["events_violating_requirement"] = len([1 for v in failed.values() if v])
    for e in events[:: max(1, len(events) // 4)][:4]:
        ctx.sample(dict(entry=e["entry"], cfg=e["cfg"], args=e.get("args"), out=e["out"], files=e["files"][:3]))

    # which variant of the model is this tree?
    res_pinned = fut_pinned.result()
    account(ctx, "MC_AccessPaths", res_pinned, "(generated) Codes={Pinned}")
    # sensitivity of the model (recorded): the pinned machine must violate the requirement
    ctx.extra["pinned_machine_violates"] = sorted(set(n for n, _ in res_pinned.violations))
    tlcmod.cleanup(res_pinned)
    if not res_pinned.violations:
        raise tlcmod.MachineryError("c14: the pinned step machine satisfies every invariant - the model is insensitive")
    ok, distinguished = detect_variant(events, conf)
    ctx.extra["sites_distinguished_by_events"] = sorted(distinguished)
    ctx.extra["conforming_variants"] = [sorted(v) for v in ok]
    if set(SITES) - distinguished and not ctx.violations:
        raise tlcmod.MachineryError("c14: no event distinguishes the variants at %s" % sorted(set(SITES) - distinguished))
    if len(ok) != 1:
        drift = [i for i, a in conf.items() if not any(a.values())]
        ctx.extra["SPEC-DRIFT"] = dict(events_conforming_to_no_variant=len(drift),
                                       sample=[dict(cfg=byid[i]["cfg"], out=byid[i]["out"]) for i in drift[:3]])
        print("SPEC-DRIFT C14: %d events conform to no variant of the step machine (requirement verdicts above stand)" % len(drift))
        if not ctx.violations:
            ctx.violation("conformance:no-variant", "the real code's observations are not those of any variant of the step machine",
                          ctx.extra["SPEC-DRIFT"])
        return
    variant = ok[0]
    ctx.extra["tree_is_variant"] = dict(repaired_sites=sorted(variant),
                                        pinned_sites={s: SITE_DEFECT[s] for s in SITES if s not in variant})
    if variant != frozenset(SITES):
        if variant == frozenset():
            res = res_pinned
        else:
            mc, cfg = mc_access("{%s}" % code_tla(variant))
            res = ctx.tlc("MC_AccessPaths", cfg_text=cfg, extra_files={"MC_AccessPaths.tla": mc}, requirement=False, workers=6)
        seen = set()
        for n, tr in res.violations:
            c = tr[-1][1].get("cfg", {}) if tr else {}
            key = (n, c.get("path"))
            if key in seen:
                continue
            seen.add(key)
            ctx.violation("tlc:AccessPaths:%s:%s" % (n, c.get("path")),
                          "TLC: the variant of the step machine this tree conforms to violates %s (%s)" % (n, c.get("path")),
                          dict(variant_repaired_sites=sorted(variant), cfg=c, final_state=tr[-1][1].get("out") if tr else None))
