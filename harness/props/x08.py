"""X08 (extra) - electronic free energy for QHA (phonopy/qha/electron.py).

Specification: spec/ElectronFE.tla (definition by levels in exact rationals at rational thermodynamic points
y = exp(u/kT), z = exp(mu/kT); the array loops of the class as a step machine; ground state by the variational
definition; invariances) and spec/ElectronFETrace.tla (requirement on what real runs reported).

 (a) TLC, exhaustive over small systems x points: loops = definition, 0 < f < 1, f decreasing in the level and
     increasing in mu (unique root), invariance of count/energy under rigid shift, weight scaling, k-point split,
     band / k / spin permutation, spin doubling; E(T) >= ground state energy of the same count; the filling is the
     variational ground state.
 (b) spec -> code: every emitted point is replayed on ElectronFreeEnergy (T = u/(k ln y), N = the exact count):
     mu = u ln z / ln y, the occupations and the energy are TLC's exact rationals, T S from ln at TLC's f.
 (c) code -> spec: temperature series (get_free_energy_at_T and the class) on TLC's ground-state cases
     (insulator-like and metal-like fillings, gaps >> and ~ kT, T = 0, clamp regime) and transformed systems;
     the harness evaluates the named primitives at the logged mu; TLC judges every event.
"""
from __future__ import annotations

import json
import os
import time

from harness import tlc as tlcmod
from harness import tla_values

SYSTEMS = {
    # one spin channel (g = 2), two k-points, two bands
    "k2b2": "{[e |-> ee, w |-> ww] : ee \\in [1..1 -> [1..2 -> [1..2 -> 0..2]]], ww \\in [1..2 -> 1..2]}",
    # two spin channels (g = 1), one k-point, two bands
    "s2b2": "{[e |-> ee, w |-> <<1>>] : ee \\in [1..2 -> [1..1 -> [1..2 -> 0..2]]]}",
    # two spin channels, two k-points, one band, unequal weights
    "s2k2": "{[e |-> ee, w |-> ww] : ee \\in [1..2 -> [1..2 -> [1..1 -> 0..2]]], ww \\in {<<1, 3>>, <<2, 1>>}}",
    # three bands, wider spectrum, degenerate levels shared between k-points
    "b3": "{[e |-> <<<<<<0, a, 3>>, <<0, b, c>>>>>>, w |-> <<1, 2>>] : a \\in 0..1, b \\in 0..3, c \\in 2..3}",
}
ZS = "{<<1, 1>>, <<3, 2>>, <<2, 1>>, <<5, 2>>, <<7, 2>>, <<1, 3>>, <<40, 1>>}"
PT_INV = ["MachineIsDefinition", "OccBounds", "OccMonotoneLevel", "OccMonotoneMu", "Invariances",
          "EnergyAboveGround", "GroundVariational"]
GRIDS = [(0, 600, 300), (100, 2100, 1000), (0, 50, 25), (300, 300, 100), (0, 9000, 4500)]
IV_T = [0, 300, 2500]
US = [1.0, 0.05]


def unfreeze(x):
    if isinstance(x, tuple) and x and all(isinstance(p, tuple) and len(p) == 2 and isinstance(p[0], str) for p in x):
        return {k: unfreeze(v) for k, v in x}          # a record inside a set (frozen by tla_values)
    if isinstance(x, dict):
        return {k: unfreeze(v) for k, v in x.items()}
    if isinstance(x, (list, tuple)):
        return [unfreeze(v) for v in x]
    if isinstance(x, (set, frozenset)):
        return [unfreeze(v) for v in sorted(x, key=repr)]
    return x


def printed(stdout, tag):
    out = []
    head = '"<<\\"%s\\"' % tag
    for line in stdout.splitlines():
        if line.startswith(head):
            out.append(unfreeze(tla_values.parse_value(json.loads(line))))
    return out


def mc_model(systems, ys, zs, emit):
    mc = "---- MODULE MC_ElectronFE ----\nEXTENDS ElectronFE\nMCSys == %s\nMCZ == %s\n====\n" % (systems, zs)
    head = "CONSTANTS\n Systems <- MCSys\n Ys = %s\n Zs <- MCZ\n Emitting = %s\nCHECK_DEADLOCK FALSE\n" % (ys, "TRUE" if emit else "FALSE")
    pt = "INIT Init\nNEXT Next\n" + head + "".join("INVARIANT %s\n" % i for i in PT_INV) + "INVARIANT Emit\n"
    gs = "INIT GInit\nNEXT GNext\n" + head + "INVARIANT Invariances\nINVARIANT GroundVariational\nINVARIANT GEmit\n"
    return mc, pt, gs


def account(ctx, module, res, note):
    ctx.states += res.distinct
    ctx.transitions += res.generated
    ctx.tlc_runs.append(dict(module=module, cfg=note, **res.summary(), coverage=None))


def model(ctx):
    """TLC: the theorems (exhaustive over the system families x points), and the cases for the replay."""
    from concurrent.futures import ThreadPoolExecutor

    def one(task):
        name, kind = task
        ys = "{2, 3}" if name != "b3" else "{2}"
        mc, pt, gs = mc_model(SYSTEMS[name], ys, ZS, True)
        res = tlcmod.run("MC_ElectronFE", cfg_text=pt if kind == "pt" else gs, extra_files={"MC_ElectronFE.tla": mc}, workers=4,
                         coverage=(name == "b3"))
        tlcmod.cleanup(res)
        return name, kind, res

    pts, gss = [], []
    cov = {}
    tasks = [(n, k) for n in SYSTEMS for k in ("pt", "gs")]
    with ThreadPoolExecutor(max_workers=4) as ex:
        for name, kind, res in ex.map(one, tasks):
            account(ctx, "MC_ElectronFE", res, "(generated) systems=%s %s" % (name, "points" if kind == "pt" else "ground states"))
            if res.violated:
                st = res.trace[-1][1] if res.trace else {}
                ctx.violation("tlc:ElectronFE:%s" % res.violated,
                              "ElectronFE.tla: %s fails (the array loops differ from the definition by levels, or a consequence "
                              "of the definition fails)" % res.violated, dict(systems=name, case=unfreeze(st.get("cs"))))
            rows = printed(res.stdout, "PT" if kind == "pt" else "GS")
            for r in rows:
                r.append(name)
            (pts if kind == "pt" else gss).extend(rows)
            if name == "b3":
                for k, v in res.coverage.items():
                    cov[k] = cov.get(k, 0) + v[1]
    ctx.extra["actions_fired(b3)"] = cov
    for a in ("Row", "Dot", "Judge", "GJudge"):
        if cov and not cov.get(a):
            raise tlcmod.MachineryError("x08: action %s never fired (%s)" % (a, cov))
    if len(pts) < 1000 or len(gss) < 300:
        raise tlcmod.MachineryError("x08: TLC emitted %d points, %d ground-state cases" % (len(pts), len(gss)))
    return pts, gss


def negative_model(ctx):
    """The theorems are not vacuous: wrong variants of the machine / the definition are rejected by TLC."""
    demos = []
    base = open(os.path.join(tlcmod.SPEC, "ElectronFE.tla")).read()
    variants = [
        ("loop forgets g", "outN' = RDivI(RScale(G(cs.sy), QSum(", "outN' = RDivI(RScale(1, QSum(", "MachineIsDefinition"),
        ("row mixes k-points (reshape without swapaxes)", "s.e[((i - 1) \\div NB(s)) + 1][ik][((i - 1) % NB(s)) + 1]",
         "s.e[((((ik - 1) * NS(s) * NB(s) + i - 1) \\div NB(s)) \\div NK(s)) + 1][((((ik - 1) * NS(s) * NB(s) + i - 1) \\div NB(s)) % NK(s)) + 1][((i - 1) % NB(s)) + 1]",
         "MachineIsDefinition"),
        ("hole occupation 1 - f", "Occ(y, z, x) == IF x >= 0 THEN Norm(<<z[1], z[1] + z[2] * Pow(y, x)>>)",
         "Occ(y, z, x) == IF x >= 0 THEN Norm(<<z[2] * Pow(y, x), z[1] + z[2] * Pow(y, x)>>)", "OccMonotoneLevel"),
    ]
    from concurrent.futures import ThreadPoolExecutor

    def one(v):
        what, old, new, expect = v
        if old not in base:
            raise tlcmod.MachineryError("x08: negative variant anchor missing: " + what)
        tag = "ElectronFEBad%d" % variants.index(v)
        mod = base.replace(old, new).replace("MODULE ElectronFE", "MODULE " + tag)
        mc, pt, _ = mc_model("(%s) \\cup {[e |-> ee, w |-> <<1, 2>>] : ee \\in [1..1 -> [1..2 -> [1..2 -> 0..1]]]}" % SYSTEMS["s2k2"],
                             "{2}", "{<<1, 1>>, <<3, 1>>}", False)
        mc = mc.replace("MC_ElectronFE", "MC_" + tag).replace("EXTENDS ElectronFE", "EXTENDS " + tag)
        res = tlcmod.run("MC_" + tag, cfg_text=pt, extra_files={"MC_%s.tla" % tag: mc, tag + ".tla": mod},
                         workers=2, extra_args=("-continue",))
        tlcmod.cleanup(res)
        return what, expect, sorted(set(n for n, _ in res.violations))

    with ThreadPoolExecutor(max_workers=3) as ex:
        for what, expect, got in ex.map(one, variants):
            demos.append(dict(variant=what, rejected_by=got))
            if expect not in got:
                raise tlcmod.MachineryError("x08: wrong variant '%s' is accepted by TLC (violated: %s)" % (what, got))
    ctx.extra["wrong_variants_rejected_by_TLC"] = demos


def pick(rows, k, seed, salt):
    """A seed-dependent slice of the emitted cases, every system family represented."""
    rows = sorted(rows, key=lambda r: json.dumps(r, sort_keys=True))
    return [r for i, r in enumerate(rows) if (i * 7 + seed * 3 + salt) % k == 0]


def drive(ctx, pts, gss):
    from harness import bootstrap  # noqa: F401
    import phonopy.units
    from harness import x08_efe as drv

    Kb = float(phonopy.units.Kb)
    if abs(Kb / 8.617333262e-5 - 1.0) > 1e-5:
        ctx.violation("efe:boltzmann-constant", "phonopy.units.Kb is not the Boltzmann constant in eV/K", dict(Kb=Kb))
    evs = dict(pt=[], sr=[], iv=[], sc=[])
    raws = {}
    eid = 0
    kp, kg = (12, 16) if ctx.quick else (3, 5)

    def guarded(kind, what, fn):
        try:
            ev, raw = fn()
        except Exception as ex:  # an exception from the class where the specification expects a result
            import traceback
            tb = traceback.extract_tb(ex.__traceback__)
            if not tb or "/phonopy/" not in tb[-1].filename:
                raise                # raised by the harness itself: machinery failure, not a finding
            ctx.violation("efe:exception:" + kind, "ElectronFreeEnergy raised where the specification defines a result",
                          dict(case=what, error=repr(ex), tb=traceback.format_exc()[-1500:]))
            return
        evs[kind].append(ev)
        raws[ev["xid"]] = dict(kind=kind, case=what, observed=raw)

    for i, row in enumerate(pick(pts, kp, ctx.seed, 0)):
        eid += 1
        u = US[(i + ctx.seed) % 2]
        guarded("pt", dict(case=row[1], u=u), lambda: drv.pt_event(eid, row, u, Kb))
        ctx.count(("pt", json.dumps(row[1], sort_keys=True), u))
    for i, gs in enumerate(pick(gss, kg, ctx.seed, 1)):
        u = US[(i // 2 + ctx.seed) % 2]
        grid = GRIDS[(i + ctx.seed) % len(GRIDS)]
        eid += 1
        guarded("sr", dict(case=gs[1], u=u, grid=grid), lambda: drv.sr_event(eid, gs, u, grid, Kb))
        ctx.count(("sr", json.dumps(gs[1], sort_keys=True), u, grid))
        trs = sorted(gs[5], key=lambda t: json.dumps(t, sort_keys=True))
        for j, tr in enumerate(trs):
            if ctx.quick and (i + j + ctx.seed) % 3:
                continue
            T = IV_T[(i + j) % len(IV_T)]
            eid += 1
            guarded("iv", dict(case=gs[1], transform=tr, u=u, T=T), lambda: drv.iv_event(eid, gs, tr, u, T, Kb))
            ctx.count(("iv", json.dumps(gs[1], sort_keys=True), tr["kd"], tr["d"], u, T))
    # phonopy-vasp-efe's table builder on pairs of cases ("volumes")
    sel = pick(gss, kg * 4, ctx.seed, 2)
    for i in range(0, len(sel) - 1, 2):
        u = US[(i // 2 + ctx.seed) % 2]
        grid = GRIDS[(i // 2 + ctx.seed) % len(GRIDS)]
        eid += 1
        pair = [sel[i], sel[i + 1]]
        guarded("sc", dict(cases=[g[1] for g in pair], u=u, grid=grid), lambda: drv.sc_event(eid, pair, u, grid, Kb))
        ctx.count(("sc", json.dumps([g[1] for g in pair], sort_keys=True), u, grid))
    ctx.traces += sum(len(v) for v in evs.values())
    return evs, raws


TR_INV = dict(
    pt=["ConformsExpected", "ImplConservation", "ImplOutsideBand", "ImplEnergy", "ImplMu", "ImplEntropy", "ImplFreeEnergy",
        "ImplOccupation", "ImplOccShape"],
    sc=["ImplGrid", "ImplScriptRows", "ImplScriptReference", "ImplScriptVolumes"],
    sr=["ConformsGround", "ConformsBandFlag", "ImplGrid", "ImplConservation", "ImplOutsideBand", "ImplEnergy", "ImplEntropy", "ImplMu",
        "ImplFreeEnergy", "ImplApi", "ImplEntropyNonneg", "ImplBelowGround", "ImplEnergyAboveGround", "ImplDerivative",
        "ImplDecreasing", "ImplZeroT"],
    iv=["ConformsTransform", "ImplInvariance"])
WHAT = dict(
    ImplConservation="the reported chemical potential does not conserve the number of electrons",
    ImplOutsideBand="the chemical potential that conserves the electron number lies outside [min, max] of the eigenvalues: "
                    "the class silently returns a state with a different number of electrons",
    ImplEnergy="the reported energy is not sum_i w_i f_i e_i of the definition",
    ImplMu="the reported chemical potential is not the root of the conservation equation",
    ImplEntropy="the reported T S is not -kT sum_i w_i [f ln f + (1-f) ln(1-f)]",
    ImplFreeEnergy="free_energy is not energy - T S",
    ImplOccupation="the occupations are not the Fermi-Dirac occupations of the definition",
    ImplOccShape="the occupations are not in [0,1] / not monotone in the level",
    ImplGrid="get_free_energy_at_T does not report the temperatures tmin, tmin + tstep, ... <= tmax",
    ImplApi="get_free_energy_at_T differs from ElectronFreeEnergy.run at the same temperature",
    ImplEntropyNonneg="negative entropy",
    ImplBelowGround="free energy above the ground-state energy",
    ImplEnergyAboveGround="energy below the ground-state energy of the same electron count",
    ImplDerivative="dF/dT is not -S",
    ImplDecreasing="the free energy increases with temperature",
    ImplZeroT="at T = 0 the chemical potential is not between HOMO and LUMO / not at the partially filled level",
    ImplScriptRows="phonopy-vasp-efe: a table entry is not energy(sigma->0) - F_el(T=0) + F_el(T)",
    ImplScriptReference="phonopy-vasp-efe with tmin > 0: the table is referred to F_el(tmin) instead of F_el(T=0) "
                        "(documented formula: energy(sigma->0) - energy(T=0) + energy(T) - entropy(T) T)",
    ImplScriptVolumes="phonopy-vasp-efe: volumes / sigma->0 energies of e-v.dat or of the fe-v.dat header are not the parsed ones",
    ImplInvariance="the result changes under a transformation that leaves the physics unchanged")


def validate(ctx, kind, events, raws):
    if not events:
        raise tlcmod.MachineryError("x08: no %s events" % kind)
    fails = {}
    seen = set()
    for lo in range(0, len(events), 1500):
        chunk = events[lo:lo + 1500]
        mc = ("---- MODULE MC_ElectronFETrace ----\nEXTENDS ElectronFETrace\nMCSys == {}\nMCZ == {}\nMCEvents == {\n%s\n}\n====\n"
              % ",\n".join(tla_values.to_tla(e) for e in chunk))
        cfg = ("INIT TInit\nNEXT TNext\nCONSTANTS\n Systems <- MCSys\n Ys = {}\n Zs <- MCZ\n Emitting = FALSE\n Events <- MCEvents\n"
               " EventKind = \"%s\"\nCHECK_DEADLOCK FALSE\nINVARIANT Report\n" % kind)
        res = ctx.tlc("MC_ElectronFETrace", cfg_text=cfg, extra_files={"MC_ElectronFETrace.tla": mc}, requirement=False, workers=4)
        if res.violated:
            raise tlcmod.MachineryError("x08: trace run reports %s" % res.violated)
        for _, xid, names in printed(res.stdout, "Q"):
            seen.add(xid)
            for n in names:
                if n not in TR_INV[kind]:
                    raise tlcmod.MachineryError("x08: judgement %s reported for kind %s" % (n, kind))
                fails.setdefault(n, []).append(xid)
    if seen != set(e["xid"] for e in events):
        raise tlcmod.MachineryError("x08: TLC judged %d of %d %s events" % (len(seen), len(events), kind))
    for n, ids in sorted(fails.items()):
        wit = [raws[i] for i in ids[:3]]
        if n.startswith("Conforms"):
            raise tlcmod.MachineryError("x08: harness expectation differs from the definition in ElectronFE.tla (%s): %s"
                                        % (n, json.dumps(wit, default=str)[:1500]))
        ctx.violation("efe:%s" % n, "ElectronFETrace.tla, %s: %s (%d of %d %s events)" % (n, WHAT[n], len(ids), len(events), kind),
                      dict(events=len(ids), witnesses=wit))
    return {n: len(v) for n, v in fails.items()}


def binding_demo(ctx, events):
    """A corrupted event must be rejected by the judgement that owns the corrupted field."""
    import copy
    demos = []
    cand = [next(iter(events["pt"]), None),
            next((e for e in events["sr"] if e["xg"][0] == 0 and e["rows"] and e["rows"][0][0]), None),
            next((e for e in events["sr"] if len(e["xts"]) > 1), None)]
    if any(c is None for c in cand):
        if ctx.violations:
            return          # the implementation under test already left the specification; nothing to demonstrate on
        raise tlcmod.MachineryError("x08: no event to build the binding demonstrations on")
    ev, ev2, ev3 = (copy.deepcopy(c) for c in cand)
    ev["xE"] = [ev["xE"][0] + 1, ev["xE"][1]]
    ev2["muq"] += 3000000
    ev3["xts"] = ev3["xts"][:-1]
    ev3["rows"] = ev3["rows"][:-1]
    for kind, e, expect in (("pt", ev, "ConformsExpected"), ("sr", ev2, "ImplZeroT"), ("sr", ev3, "ImplGrid")):
        mc = ("---- MODULE MC_ElectronFETrace ----\nEXTENDS ElectronFETrace\nMCSys == {}\nMCZ == {}\nMCEvents == {%s}\n====\n"
              % tla_values.to_tla(e))
        cfg = ("INIT TInit\nNEXT TNext\nCONSTANTS\n Systems <- MCSys\n Ys = {}\n Zs <- MCZ\n Emitting = FALSE\n Events <- MCEvents\n"
               " EventKind = \"%s\"\nCHECK_DEADLOCK FALSE\nINVARIANT Report\nINVARIANT %s\n" % (kind, expect))
        res = tlcmod.run("MC_ElectronFETrace", cfg_text=cfg, extra_files={"MC_ElectronFETrace.tla": mc}, workers=1)
        tlcmod.cleanup(res)
        demos.append(dict(corrupted=expect, rejected=res.violated))
        if res.violated != expect:
            raise tlcmod.MachineryError("x08: corrupted %s event accepted (expected %s, got %s)" % (kind, expect, res.violated))
    ctx.extra["binding_demos"] = demos


def run(ctx):
    ctx.rule = ("one case = one real ElectronFreeEnergy run (or get_free_energy_at_T series) on a TLC-enumerated system: "
                "a rational thermodynamic point (system, y, z, energy unit), a ground-state case x temperature grid, "
                "or a transformed system x temperature")
    ctx.assumptions += [
        "exp and ln are named in ElectronFE.tla and evaluated by the harness (math.exp/log/log1p on binary64), never by phonopy code",
        "phonopy.units.Kb is taken as the Boltzmann constant (checked against CODATA to 1e-5; units are C17's)",
        "T = 0 is judged against the exact ground state with the resolution bound of the class's surrogate kT = 1e-10 eV "
        "(an occupation is resolved to ulp(mu)/(4 kT) only): tolerance 8 D ulp(|e|max)/1e-10 on the count",
        "whether the conserving mu lies inside [min, max] of the eigenvalues is decided exactly by TLC at rational points and "
        "at T = 0, and by the harness-evaluated count at the band edges for the other temperatures",
        "phonopy-vasp-efe is driven through get_fe_ev_lines with parse_vasprunxml replaced by a stand-in object (fractional k-weights as VASP writes them); reading vasprun.xml / fe-v.dat and the phonopy-qha fit are not part of X08 (C17, C20)",
    ]
    t0 = time.time()
    pts, gss = model(ctx)
    negative_model(ctx)
    ctx.extra["model_wall_s"] = round(time.time() - t0, 1)
    dbg = os.environ.get("X08_DEBUG")
    if dbg:
        print("model", ctx.extra["model_wall_s"], [(r["module"], r.get("wall_s"), r.get("distinct")) for r in ctx.tlc_runs], flush=True)
    t0 = time.time()
    events, raws = drive(ctx, pts, gss)
    ctx.extra["drive_wall_s"] = round(time.time() - t0, 1)
    ctx.extra["events"] = {k: len(v) for k, v in events.items()}
    if dbg:
        print("drive", ctx.extra["drive_wall_s"], ctx.extra["events"], flush=True)
    summary = {}
    for kind in ("pt", "sr", "iv", "sc"):
        t0 = time.time()
        summary[kind] = validate(ctx, kind, events[kind], raws)
        if dbg:
            print("validate", kind, round(time.time() - t0, 1), summary[kind], flush=True)
    ctx.extra["failed_judgements"] = summary
    binding_demo(ctx, events)
    worst = {}
    for kind, col in (("pt", None),):
        for e in events[kind]:
            if e["dv"][0] > 1000:
                continue            # mu outside the eigenvalue range: judged under ImplOutsideBand only
            for j, d in enumerate(e["dv"]):
                if d < 10 ** 9:
                    worst[j] = max(worst.get(j, 0), d)
    ctx.extra["pt_worst_deviation_in_milli_tolerance(cons,en,mu,ts,fe,occ)"] = [worst.get(j, 0) for j in range(6)]
    rows = [(e, i, r) for e in events["sr"] for i, r in enumerate(e["rows"])]
    ctx.extra["series_rows"] = dict(
        total=len(rows), in_band=sum(1 for _, _, r in rows if r[0]), at_T0=sum(1 for e, i, _ in rows if e["xts"][i] == 0),
        at_T0_in_band=sum(1 for e, i, r in rows if e["xts"][i] == 0 and r[0]),
        two_level_closed_form_mu=sum(1 for _, _, r in rows if r[0] and r[11] >= 0),
        worst_T0_count_error_in_milli_tolerance=max([r[1] for e, i, r in rows if e["xts"][i] == 0 and r[0]] + [0]))
    ctx.extra["pt_points"] = dict(total=len(events["pt"]), mu_inside_eigenvalue_range=sum(1 for e in events["pt"] if e["dv"][0] <= 1000))
    if events["pt"]:
        ctx.sample(dict(point=raws[events["pt"][0]["xid"]]))
    if events["sr"]:
        ctx.sample(dict(series=raws[events["sr"][0]["xid"]]))
    ctx.exhaustive = False
