"""C17 - calculator interfaces preserve the crystal and the physical units.

Specs: spec/Calculators.tla (+ CalculatorsTrace.tla) - structure files, displaced
supercells, pairing of forces; spec/Units.tla (+ UnitsTrace.tla) - unit sets as
monomials over the code's base constants.  Binding: harness/c17_io.py (adapters,
own emitters/parsers, projection), harness/c17_units.py (projection of floats to
monomials, one physical crystal in every unit system).  DESIGN.md section 5/C17.
"""
from __future__ import annotations

import os

import numpy as np

from harness import bootstrap  # noqa: F401
from harness import c17_io as cio
from harness import c17_units as cu
from harness import tla_values
from harness import tlc as tlcmod
from harness.tla_values import to_tla

from phonopy import Phonopy
from phonopy.interface.calculator import (
    write_crystal_structure,
    write_supercells_with_displacements,
)
from phonopy.structure.atoms import PhonopyAtoms

SPMAP = {s: i + 1 for i, s in enumerate(cio.SYMBOLS)}

# ---------------------------------------------------------------------------
# 1. the structure model
# ---------------------------------------------------------------------------
MODEL_INVS = ["TypeOK", "InvOrderIsPermutation", "InvSameCrystal", "InvSameMoments", "InvOrder",
              "InvGroupingIsTrait", "InvIdempotent", "InvForcesPaired", "InvNotRefused", "InvRefusedIffReordered",
              "InvForcesPairedSameOrder", "InvMispairedOnlyUnchecked", "InvSymPaired", "InvConvertCrystal",
              "InvConvertible", "InvZeroRef", "InvFixedRange", "InvRowOrderIrrelevant"]

CFG_MODEL = """INIT Init
NEXT Next
CONSTANTS
 Calcs <- MCCalcs
 MaxLen = %d
 NSpecies = 3
 WithMoments = TRUE
 Tasks <- MCTasks
 Unpermutes <- MCUnpermutes
CHECK_DEADLOCK FALSE
%s
""" + "\n".join("INVARIANT " + i for i in MODEL_INVS) + "\n"

MC_MODEL = """---- MODULE MC_Calculators ----
EXTENDS Calculators
MCCalcs == AllCalcs
MCTasks == {"pipeline"}
MCUnpermutes == {}
PerfectOnly == phase = "perfect"
====
"""
MC_MODEL_CONVERT = MC_MODEL.replace('{"pipeline"}', '{"convert"}')


def run_structure_model(ctx):
    maxlen = 4 if ctx.quick else 6
    res = ctx.tlc("MC_Calculators", cfg_text=CFG_MODEL % (maxlen, ""), extra_files={"MC_Calculators.tla": MC_MODEL},
                  coverage=True, workers=4, timeout=1500,
                  what="C17: the structure model itself violates the requirement")
    cov = {k: v[1] for k, v in res.coverage.items()}
    ctx.extra["structure_model"] = dict(max_len=maxlen, states=res.distinct, coverage=cov,
                                        every_action_fired=all(cov.get(a, 0) > 0 for a in
                                                               ("Choose", "Order", "Write", "Read", "Displace",
                                                                "Collect", "ZeroRef", "Agree")))
    # convert_crystal_structure: every ordered pair of interfaces, species sequences <= 4 (<= 5 thorough)
    cl = 4 if ctx.quick else 5
    res = ctx.tlc("MC_Calculators", cfg_text=CFG_MODEL % (cl, ""), extra_files={"MC_Calculators.tla": MC_MODEL_CONVERT},
                  coverage=True, workers=4, timeout=1500,
                  what="C17: the conversion model itself violates the requirement")
    covc = {k: v[1] for k, v in res.coverage.items()}
    ctx.extra["convert_model"] = dict(max_len=cl, states=res.distinct, pairs=256,
                                      every_action_fired=all(covc.get(a, 0) > 0 for a in
                                                             ("ChooseConvert", "Order", "Write", "Read", "Convert")))
    ctx.exhaustive = True


def dump_round_trip_space(ctx, maxlen):
    """TLC enumerates (calculator, cell) and computes the expected read-back."""
    res = ctx.tlc("MC_Calculators", cfg_text=CFG_MODEL % (maxlen, "CONSTRAINT PerfectOnly"),
                  extra_files={"MC_Calculators.tla": MC_MODEL}, dump=True, keep=True, workers=4, timeout=900)
    try:
        states = tla_values.parse_dump(res.dump_path)
    finally:
        tlcmod.cleanup(res)
    out = []
    for st in states:
        if st["pc"] == "displace" and st["phase"] == "perfect":
            out.append((st["calc"], [dict(a) for a in st["cell"]], [dict(a) for a in st["back"]]))
    out.sort(key=lambda t: (t[0], [(a["sp"], a["mom"]) for a in t[1]]))
    return out


# ---------------------------------------------------------------------------
# 2. realisation and real round trips
# ---------------------------------------------------------------------------
def realise(abs_cell, nprng, offsets=True, edge=False, ncl=False, scale=5.0):
    """abstract cell [sp,id,mom] -> triclinic PhonopyAtoms with pairwise distinct
    positions, partly outside [0,1)."""
    n = len(abs_cell)
    L = np.eye(3) * scale + nprng.uniform(-0.9, 0.9, size=(3, 3))
    if np.linalg.det(L) < 0:
        L[2] = -L[2]
    i = np.arange(n)
    pos = np.stack([(0.131 + 0.618034 * i) % 1, (0.287 + 0.414214 * i) % 1, (0.073 + 0.732051 * i) % 1], axis=1)
    pos = 0.04 + 0.92 * pos + nprng.uniform(-0.01, 0.01, size=(n, 3))
    if edge:      # an atom just inside the cell boundary: a +x/+y/+z displacement carries it across 1
        pos[0] = [0.9996, 0.9997, 0.9998]
    if offsets:
        for k in range(n):
            if k % 3 == 1:
                pos[k, 0] += 1.0
            elif k % 3 == 2:
                pos[k, 1] -= 1.0
    moms = [a["mom"] for a in abs_cell]
    mags = None
    if any(moms):
        mags = [cio.ncl_vector(m) for m in moms] if ncl else [float(m) for m in moms]
    return PhonopyAtoms(symbols=[cio.SYMBOLS[a["sp"] - 1] for a in abs_cell], cell=L, scaled_positions=pos,
                        magnetic_moments=mags)


ERR = dict(status="error", atoms=[], latticeOK=False, frameOK=False)
NOFS = dict(status="none", forces=[], dispOK=False)
NOREF = dict(kind="own", p=[], e=0)
NOMODE = dict(dtype=1, fz=False, sym=False)


def abs_atoms(rows):
    return [dict(sp=r[0], id=r[1], mom=r[2]) for r in rows]


def rt_result(calc, orig, back, idmap=None):
    p = cio.project(calc, orig, back, SPMAP)
    atoms = p["atoms"]
    if idmap:
        atoms = [[a[0], idmap.get(a[1], a[1]), a[2]] for a in atoms]
    return dict(status="ok", atoms=abs_atoms(atoms), latticeOK=p["latticeOK"], frameOK=p["frameOK"]), p["margin"]


def event(kind, calc, abs_cell, result, fs=None, tag="", route="api", ocalc="", ncl=False, mode=None, orbit=None,
          zref=None, rows=None):
    return dict(rows=list(rows or []), kind=kind, calc=calc, cell=[dict(sp=a["sp"], id=a["id"], mom=a["mom"]) for a in abs_cell],
                result=result, fs=fs or NOFS, tag=tag, route=route, ocalc=ocalc, ncl=bool(ncl),
                mode=dict(mode or NOMODE), orbit=list(orbit or []), zref=dict(zref or NOREF))


def ev_to_tla(d):
    """event -> TLA+ record of CalculatorsTrace"""
    return to_tla(dict(n=d["n"], kind=d["kind"], route=d["route"], ecalc=d["calc"], ocalc=d["ocalc"], ecell=d["cell"],
                       ncl=d["ncl"], emode=d["mode"], eorbit=d["orbit"], ezref=d["zref"], erows=d["rows"], eres=d["result"], fs=d["fs"]))


def MOM_OF(i):      # MomOf of Calculators.tla
    return (-1 - (i % 3)) if i % 2 == 0 else (1 + (i % 3))


def api_round_trips(ctx, space, nprng, offsets=True, scale=5.0):
    """spec -> code replay of the enumerated (calculator, cell) space through
    write_crystal_structure / read_crystal_structure; also records the events."""
    events, margins = [], {}
    for calc, abs_cell, expected in space:
        cell = realise(abs_cell, nprng, offsets=offsets, scale=scale)
        mags = cell.magnetic_moments
        ev_list = []
        with cio.workdir():
            # (a) reader on an input file of the format -> genuine optional_structure_info
            try:
                c0, info = cio.unit_input(calc, cell, "unit.in", mags=None if mags is None else list(mags))
                if calc in ("crystal", "fleur", "cp2k"):      # own emitter: a pure read event
                    r, m = rt_result(calc, cell, c0)
                    ev_list.append(event("read", calc, abs_cell, r, tag="reader on emitted input"))
                    margins[calc] = max(margins.get(calc, 0.0), m)
            except Exception as e:  # noqa: BLE001
                info = cio.handmade_info(calc, cell, "unit.in")
                ev_list.append(event("read", calc, abs_cell, dict(ERR), tag="unit input: %s: %s" % (type(e).__name__, e)))
            # (b) write_crystal_structure with that info, read back
            try:
                with cio.quiet():
                    write_crystal_structure("out.in", cell, interface_mode=calc, optional_structure_info=info)
                cio.post_write(calc, "out.in", info)
                back = cio.read_back(calc, "out.in")
                r, m = rt_result(calc, cell, back)
                margins[calc] = max(margins.get(calc, 0.0), m)
                ev_list.append(event("rt", calc, abs_cell, r, tag="write_crystal_structure"))
                if mags is not None and calc in NCL_CALCS:       # the same cell with non-collinear moments
                    celln = realise(abs_cell, nprng, offsets=offsets, ncl=True)
                    with cio.quiet():
                        write_crystal_structure("outn.in", celln, interface_mode=calc, optional_structure_info=info)
                    cio.post_write(calc, "outn.in", info)
                    r, m = rt_result(calc, celln, cio.read_back(calc, "outn.in"))
                    ev_list.append(event("rt", calc, abs_cell, r, ncl=True, tag="write_crystal_structure (non-collinear)"))
            except Exception as e:  # noqa: BLE001
                ev_list.append(event("rt", calc, abs_cell, dict(ERR),
                                     tag="write_crystal_structure: %s: %s" % (type(e).__name__, e)))
                if calc == "fleur":   # the dispatch fails before the writer runs: exercise the writer directly
                    try:
                        from phonopy.interface.fleur import write_fleur
                        with cio.quiet():
                            write_fleur("out2.in", cell, info[1], 1, info[2])
                        back = cio.read_back(calc, "out2.in")
                        r, m = rt_result(calc, cell, back)
                        ev_list.append(event("rt", calc, abs_cell, r, tag="fleur.write_fleur (direct)"))
                    except Exception as e2:  # noqa: BLE001
                        ev_list.append(event("rt", calc, abs_cell, dict(ERR), tag="write_fleur: %s" % e2))
        # replay comparison with the behaviour TLC computed
        for e in ev_list:
            ctx.count((e["kind"], calc, tuple((a["sp"], a["mom"]) for a in abs_cell), offsets))
            if e["kind"] == "rt" and expected is not None:
                obs = [(a["sp"], a["id"], a["mom"]) for a in e["result"]["atoms"]]
                exp = [(a["sp"], a["id"], a["mom"]) for a in expected]
                if e["result"]["status"] != "ok" or obs != exp:
                    ctx.violation("replay:structure:%s" % calc,
                                  "C17 replay: %s read-back differs from the specification's next state" % calc,
                                  dict(calc=calc, cell=abs_cell, expected=exp, observed=obs, how=e["tag"],
                                       status=e["result"]["status"],
                                       lattice=np.asarray(cell.cell).tolist(),
                                       scaled_positions=np.asarray(cell.scaled_positions).tolist(),
                                       symbols=list(cell.symbols)))
        events += ev_list
    return events, margins


FORCE_TOL = 1e-6     # FORCE_SETS is written with 10 decimals; outputs are emitted with >= 10 digits

SC_FILES = {
    "vasp": ("SPOSCAR", "POSCAR-%03d"), "abinit": ("supercell.in", "supercell-%03d.in"),
    "qe": ("supercell.in", "supercell-%03d.in"), "pwmat": ("supercell.config", "supercell-%03d.config"),
    "wien2k": ("unit.inS", "unit.inS-%03d.in"), "elk": ("supercell.in", "supercell-%03d.in"),
    "siesta": ("supercell.fdf", "supercell-%03d.fdf"), "cp2k": ("unit-supercell.in", "unit-supercell-%03d.in"),
    "crystal": ("supercell", "supercell-%03d"), "dftbp": ("geo.genS", "geo.genS-%03d"),
    "turbomole": ("supercell", "supercell-%03d"), "aims": ("geometry.in.supercell", "geometry.in-%03d"),
    "castep": ("supercell.cell", "supercell-%03d.cell"), "fleur": ("supercell.in", "supercell-%03d.in"),
    "abacus": ("STRU.in", "STRU-%03d"), "lammps": ("supercell", "supercell-%03d"),
}


def parse_poscar(path):
    """Own reading of a VASP-5 POSCAR: what VASP itself sees (atoms in file order)."""
    with open(path) as f:
        ln = f.read().splitlines()
    scale = float(ln[1])
    lat = np.array([[float(x) for x in ln[i].split()] for i in (2, 3, 4)]) * scale
    syms = ln[5].split()
    counts = [int(x) for x in ln[6].split()]
    assert ln[7].strip().lower().startswith("d")
    n = sum(counts)
    pos = [[float(x) for x in ln[8 + i].split()[:3]] for i in range(n)]
    symbols = [s for s, c in zip(syms, counts) for _ in range(c)]
    return PhonopyAtoms(symbols=symbols, cell=lat, scaled_positions=pos)


def emit_vasprun(path, cell, forces):
    def varray(name, rows, ind):
        s = ind + '<varray name="%s" >\n' % name
        for r in rows:
            s += ind + " <v> %20.12f %20.12f %20.12f </v>\n" % tuple(r)
        return s + ind + "</varray>\n"
    t = '<?xml version="1.0" encoding="ISO-8859-1"?>\n<modeling>\n <generator>\n'
    t += '  <i name="program" type="string">vasp </i>\n  <i name="version" type="string">6.3.0  </i>\n </generator>\n'
    t += " <calculation>\n  <structure>\n   <crystal>\n" + varray("basis", cell.cell, "    ")
    t += '    <i name="volume">  %.8f </i>\n   </crystal>\n' % cell.volume
    t += varray("positions", cell.scaled_positions, "   ") + "  </structure>\n"
    t += varray("forces", forces, "  ")
    t += '  <energy>\n   <i name="e_fr_energy">  -10.0 </i>\n   <i name="e_wo_entrp">  -10.0 </i>\n'
    t += '   <i name="e_0_energy">  -10.0 </i>\n  </energy>\n </calculation>\n</modeling>\n'
    with open(path, "w") as f:
        f.write(t)


NCL_CALCS = ("abacus", "vasp", "qe")          # Trait[c].ncl of Calculators.tla
NOMODE = dict(dtype=1, fz=False, sym=False)


def attach_magmom_file(calc, back, ncl):
    """vasp/qe: write_supercells_with_displacements puts the moments into ./MAGMOM in the
    order of the structure file; attach them to the read-back cell."""
    if calc not in ("vasp", "qe") or not os.path.exists("MAGMOM"):
        return back
    with open("MAGMOM") as f:
        txt = f.read()
    vals = [float(x) for x in txt.split("=", 1)[1].split()]
    arr = np.array(vals).reshape(-1, 3) if ncl else np.array(vals)
    if len(arr) == len(back):
        back.magnetic_moments = arr
    return back


def force_tokens(rows, table, tol=None, own=None):
    """FORCE_SETS rows -> tokens: the id whose vector the row equals (the atom's own id first:
    symmetry-related atoms can carry identical vectors)."""
    tol = tol or FORCE_TOL
    keys = [k_ for k_ in table if k_ != 0]
    toks, worst = [], 0.0
    for i, f in enumerate(np.asarray(rows)):
        dd = [float(np.abs(table[k_] - f).max()) for k_ in keys]
        j = int(np.argmin(dd))
        if own is not None and i < len(own) and own[i] in table and float(np.abs(table[own[i]] - f).max()) < tol:
            j = keys.index(own[i])
        toks.append(keys[j] if dd[j] < tol else 0)
        if dd[j] < tol:
            worst = max(worst, dd[j] / tol)
    return toks, worst


def row_order(n, k, nprng):
    """row orders of an output: identity, reversed, cyclic shift (not an involution for n >= 3), random"""
    idn = list(range(n))
    return [idn, idn[::-1], idn[1:] + idn[:1], [int(x) for x in nprng.permutation(n)]][k % 4]


def reference_variants(n, own, nprng):
    """foreign perfect-supercell reference files: permutations fixing k of n atoms for every possible k
    (line j lists atom p[j]), one atom displaced, all displaced"""
    out = []
    seen = {tuple(own)}
    for k in range(0, n - 1):
        fixed = set(int(x) for x in nprng.choice(n, size=k, replace=False)) if k else set()
        rest = [i for i in range(n) if i not in fixed]
        p = list(range(n))
        for i, j in zip(rest, rest[1:] + rest[:1]):      # a cycle on the others: none of them stays
            p[i] = j
        p = [x + 1 for x in p]
        if tuple(p) not in seen:
            seen.add(tuple(p))
            out.append(dict(kind="perm", p=p, e=0))
    ident = list(range(1, n + 1))
    if tuple(ident) not in seen:                          # own order is a grouping: the dataset order is foreign too
        out.append(dict(kind="perm", p=ident, e=0))
    out.append(dict(kind="one", p=[], e=int(nprng.integers(1, n + 1))))
    out.append(dict(kind="all", p=[], e=0))
    return out


def supercell_pipeline(ctx, seqs, nprng, smat=((2, 0, 0), (0, 1, 0), (0, 0, 1)), dtype=1, fz=False,
                       moments=None, calcs=None):
    """unit cell -> Phonopy supercell + displacements (type 1: one atom per cell; type 2:
    random displacements of all atoms) -> write_supercells_with_displacements -> read every
    file back; synthetic outputs per displaced cell (and of the perfect supercell with fz)
    -> create_FORCE_SETS.  moments: None | "col" | "ncl"."""
    from phonopy.cui.create_force_sets import create_FORCE_SETS
    from phonopy.file_IO import parse_FORCE_SETS
    from phonopy.interface.phonopy_yaml import PhonopyYaml

    events, margins, nfs = [], {}, 0
    ncl = moments == "ncl"
    mode = dict(dtype=dtype, fz=fz, sym=False)
    for seq in seqs:
        abs_unit = [dict(sp=s, id=i + 1, mom=(MOM_OF(i + 1) if moments else 0)) for i, s in enumerate(seq)]
        unit = realise(abs_unit, nprng, offsets=False, edge=(len(seq) >= 2 and seq[0] != seq[1]), ncl=ncl)
        with cio.quiet():
            ph = Phonopy(unit, supercell_matrix=[list(r) for r in smat], primitive_matrix=np.eye(3), log_level=0)
            if dtype == 1:
                ph.generate_displacements(distance=0.03, is_plusminus=False)
            else:
                ph.generate_displacements(distance=0.03, number_of_snapshots=2, random_seed=int(nprng.integers(1, 10 ** 6)))
        sc = ph.supercell
        n = len(sc)
        scm = sc.magnetic_moments
        abs_sc = [dict(sp=SPMAP[s], id=i + 1, mom=(cio.moment_token(scm[i]) if scm is not None else 0))
                  for i, s in enumerate(sc.symbols)]
        dcells = ph.supercells_with_displacements
        if dtype == 1:
            moved = [[fa["number"]] for fa in ph.dataset["first_atoms"]]
        else:
            moved = [list(range(n)) for _ in dcells]
        for calc in (calcs or cio.CALCS):
            if ncl and calc not in NCL_CALCS:
                continue
            with_fs = calc == "vasp" or calc in cio.FORCE_EMITTERS
            nwrite = len(dcells) if with_fs else min(3, len(dcells))
            with cio.workdir():
                try:
                    _, info = cio.unit_input(calc, unit, "unit.in")
                except Exception:  # noqa: BLE001
                    info = cio.handmade_info(calc, unit, "unit.in")
                try:
                    with cio.quiet():
                        write_supercells_with_displacements(calc, sc, dcells[:nwrite], optional_structure_info=info,
                                                            additional_info={"supercell_matrix": ph.supercell_matrix})
                except Exception as e:  # noqa: BLE001
                    events.append(event("rt", calc, abs_sc, dict(ERR), route="sc", ncl=ncl,
                                        tag="write_supercells_with_displacements: %s: %s" % (type(e).__name__, e)))
                    ctx.count(("sc", calc, tuple(seq), dtype, fz, moments))
                    continue
                fs_files, fs_rows, fs_perm = [], [], []
                resid = nprng.uniform(-0.5, 0.5, size=(n, 3))
                resid -= resid.mean(axis=0)
                for k in range(0, nwrite + 1):
                    if k == 0:
                        orig, acell, idmap, fname = sc, abs_sc, None, SC_FILES[calc][0]
                    else:
                        orig = dcells[k - 1]
                        acell = [dict(a_) for a_ in abs_sc]
                        idmap = {}
                        for d in moved[k - 1]:
                            acell[d]["id"] = n + d + 1
                            idmap[d + 1] = n + d + 1
                        fname = SC_FILES[calc][1] % k
                    try:
                        cio.post_write(calc, fname, info)
                        back = parse_poscar(fname) if calc == "vasp" else cio.read_back(calc, fname)
                        if moments:
                            back = attach_magmom_file(calc, back, ncl)
                        r, m = rt_result(calc, orig, back, idmap)
                        margins[calc] = max(margins.get(calc, 0.0), m)
                    except Exception as e:  # noqa: BLE001
                        back, r = None, dict(ERR)
                        tag = "%s: %s: %s" % (fname, type(e).__name__, e)
                    else:
                        tag = fname
                    ctx.count(("sc", calc, tuple(seq), k, smat, dtype, fz, moments))
                    if with_fs and back is not None and (k > 0 or fz):
                        toks = [a_["id"] for a_ in r["atoms"]]
                        if k == 0:      # output of the perfect supercell: the residual forces, in file order
                            ff = [resid[t - 1] if 1 <= t <= n else np.array([7.0, 7.0, 7.0]) for t in toks]
                            fvec = None
                            ref_own = list(toks)
                        else:
                            # force token id -> vector (zero sum over the atoms of this cell: most parsers
                            # subtract the drift); token 0 = "none of them"
                            ids = [a_["id"] for a_ in acell]
                            v = nprng.uniform(-1.0, 1.0, size=(len(ids), 3))
                            v -= v.mean(axis=0)
                            fvec = {i_: v_ for i_, v_ in zip(ids, v)}
                            fvec[0] = np.array([7.0, 7.0, 7.0])
                            ff = []
                            for t in toks:
                                f_ = fvec.get(t, fvec[0]).copy()
                                if fz and t > 0:
                                    f_ = f_ + resid[(t - n - 1) if t > n else (t - 1)]
                                ff.append(f_)
                        rowq = None
                        if calc == "vasp":
                            emit_vasprun("vasprun-%03d.xml" % k, back, ff)
                            fs_files.append("vasprun-%03d.xml" % k)
                        else:
                            if calc == "lammps" and k > 0:     # row order of the dump (rows carry the atom id)
                                rowq = row_order(len(back), k, nprng)
                            fs_files.append(cio.emit_output(calc, "calcout-%03d" % k, back, ff, supercell_lattice=sc.cell,
                                                            row_order=rowq))
                        if k > 0:
                            fs_rows.append((acell, r, tag, fvec))
                            fs_perm.append([q_ + 1 for q_ in rowq] if rowq is not None else [])
                    if not (with_fs and k > 0 and back is not None):
                        events.append(event("rt", calc, acell, r, route="sc", ncl=ncl, tag=tag))
                if with_fs and len(fs_rows) == len(dcells) and len(fs_files) == len(dcells) + (1 if fz else 0):
                    with cio.quiet():
                        ph.save("phonopy_disp.yaml")
                        phyml = PhonopyYaml()
                        phyml.read("phonopy_disp.yaml")
                    fss = collect_force_sets(calc, fs_files, phyml, ph, fs_rows, fz, margins)
                    for (acell, r, tag, _fv), fs, rq in zip(fs_rows, fss, fs_perm):
                        events.append(event("forces", calc, acell, r, fs=fs, route="sc", ncl=ncl, mode=mode,
                                            orbit=list(range(1, n + 1)), rows=rq,
                                            tag=tag + " + create_FORCE_SETS(type %d%s)%s"
                                            % (dtype, ", fz" if fz else "", (", rows %s" % rq) if rq else "")))
                        nfs += 1
                    if calc == "vasp" and not fz and n >= 2 and all(r_["status"] == "ok" for (_a, r_, _t, _f) in fs_rows):
                        # the displaced runs' vasprun.xml with the ROWS (positions and forces together) in another
                        # order: positions only, no ids -> must be refused
                        vfiles = []
                        rq = row_order(n, int(nprng.integers(1, 4)), nprng)
                        if rq == list(range(n)):
                            rq = rq[1:] + rq[:1]
                        for k_, (acell, r, tag, fv) in enumerate(fs_rows):
                            backk = parse_poscar(SC_FILES["vasp"][1] % (k_ + 1))
                            toks = [a_["id"] for a_ in r["atoms"]]
                            ffk = [fv.get(t, fv[0]) for t in toks]
                            pc_ = PhonopyAtoms(symbols=[backk.symbols[j] for j in rq], cell=backk.cell,
                                               scaled_positions=[backk.scaled_positions[j] for j in rq])
                            emit_vasprun("vasprun-rows-%03d.xml" % (k_ + 1), pc_, [ffk[j] for j in rq])
                            vfiles.append("vasprun-rows-%03d.xml" % (k_ + 1))
                        if os.path.exists("FORCE_SETS"):
                            os.remove("FORCE_SETS")
                        fsv = collect_force_sets(calc, vfiles, phyml, ph, fs_rows, False, margins)
                        for (acell, r, tag, _fv), fs in zip(fs_rows, fsv):
                            events.append(event("forces", calc, acell, r, fs=fs, route="sc", ncl=ncl, mode=mode,
                                                orbit=list(range(1, n + 1)), rows=[j + 1 for j in rq],
                                                tag=tag + " + create_FORCE_SETS(type %d, rows %s)" % (dtype, [j + 1 for j in rq])))
                            nfs += 1
                    if fz and calc == "vasp" and all(1 <= t <= n for t in ref_own):
                        # --fz with a FOREIGN reference file (ZeroRef of Calculators.tla): atoms listed in another
                        # order (fixing k of the n atoms), one atom / all atoms at displaced positions
                        for zref in reference_variants(n, ref_own, nprng):
                            lines = zref["p"] if zref["kind"] == "perm" else ref_own
                            pos = np.array([sc.scaled_positions[a_ - 1] for a_ in lines])
                            if zref["kind"] == "all":
                                pos = pos + 0.05
                            elif zref["kind"] == "one":
                                pos[lines.index(zref["e"])] += 0.05
                            refcell = PhonopyAtoms(symbols=[sc.symbols[a_ - 1] for a_ in lines], cell=sc.cell,
                                                   scaled_positions=pos)
                            emit_vasprun("vasprun-ref.xml", refcell, [resid[a_ - 1] for a_ in lines])
                            if os.path.exists("FORCE_SETS"):
                                os.remove("FORCE_SETS")
                            fsv = collect_force_sets(calc, ["vasprun-ref.xml"] + fs_files[1:], phyml, ph, fs_rows, True, margins)
                            what = "%s%s" % (zref["kind"], (" fixing %d of %d" % (sum(1 for i_, a_ in enumerate(lines) if a_ == i_ + 1), n))
                                             if zref["kind"] == "perm" else "")
                            for (acell, r, tag, _fv), fs in zip(fs_rows, fsv):
                                events.append(event("forces", calc, acell, r, fs=fs, route="sc", ncl=ncl, mode=mode,
                                                    orbit=list(range(1, n + 1)), zref=zref,
                                                    tag=tag + " + create_FORCE_SETS(type %d, fz, reference: %s)" % (dtype, what)))
                                nfs += 1
                            ctx.count(("fz-ref", tuple(seq), dtype, zref["kind"], tuple(zref["p"]), zref["e"]))
    return events, margins, nfs


def collect_force_sets(calc, fs_files, phyml, ph, fs_rows, fz, margins, **kw):
    """create_FORCE_SETS on the synthetic outputs -> projected FORCE_SETS per displaced cell."""
    from phonopy.cui.create_force_sets import create_FORCE_SETS
    from phonopy.file_IO import parse_FORCE_SETS

    K = len(fs_rows)
    n = len(ph.supercell)
    try:
        with cio.quiet():
            create_FORCE_SETS(calc, fs_files, phpy_yaml=phyml, disp_filename="phonopy_disp.yaml",
                              force_sets_zero_mode=fz, log_level=0, **kw)
        if not os.path.exists("FORCE_SETS"):
            return [dict(status="error", forces=[], dispOK=False)] * K
        ds = parse_FORCE_SETS(natom=n, filename="FORCE_SETS")
        fss = []
        if "first_atoms" in ds:
            ref = ph.dataset["first_atoms"]
            sets = [(np.asarray(fa["forces"]), fa["number"] == rf["number"]
                     and float(np.abs(np.asarray(fa["displacement"]) - np.asarray(rf["displacement"])).max()) < 1e-12)
                    for fa, rf in zip(ds["first_atoms"], ref)]
            if len(ds["first_atoms"]) != len(ref):
                return [dict(status="error", forces=[], dispOK=False)] * K
        else:
            ref = np.asarray(ph.dataset["displacements"])
            got = np.asarray(ds["displacements"])
            if got.shape != ref.shape:
                return [dict(status="error", forces=[], dispOK=False)] * K
            sets = [(np.asarray(ds["forces"][i]), float(np.abs(got[i] - ref[i]).max()) < 1e-7) for i in range(len(ref))]
        for (frc, dok), row in zip(sets, fs_rows):
            toks, w = force_tokens(frc, row[3], own=[a_["id"] for a_ in row[0]])
            margins["forces"] = max(margins.get("forces", 0.0), w)
            fss.append(dict(status="built", forces=toks, dispOK=bool(dok)))
        return fss
    except RuntimeError as e:
        st = "refused" if ("don't match" in str(e) or "doesn't match" in str(e)) else "error"
        return [dict(status=st, forces=[], dispOK=False)] * K
    except Exception:  # noqa: BLE001
        return [dict(status="error", forces=[], dispOK=False)] * K


# ---------------------------------------------------------------------------
# 2b. WIEN2k: forces of non-equivalent atoms only (symmetric struct file) vs P1
# ---------------------------------------------------------------------------
def wien2k_force_sets(ctx, nprng):
    """A symmetric crystal of the exact spring-model catalogue; harmonic forces
    F = -Phi u (equivariant under the displaced cell's space group because Phi has the
    crystal's exact space group); case.scf lists all atoms (P1) or the last member of
    every orbit of the displaced cell's space group (computed here by brute force)."""
    from harness.oracle import Oracle
    from phonopy.interface.phonopy_yaml import PhonopyYaml

    events, nfs, margins = [], 0, {}
    S = [[2, 0, 0], [0, 2, 0], [0, 0, 2]]
    for entry in ("cscl",) if ctx.quick else ("cscl", "sc", "bcc"):
        orc = Oracle(entry, [S], a=2.5, seed=ctx.seed, ctx=ctx)
        unit = orc.unitcell()
        ops = [np.array(a_[0]) for a_ in orc.o["aut"]]
        for dtype in (1, 2):
            with cio.quiet():
                ph = Phonopy(unit, supercell_matrix=S, primitive_matrix=np.eye(3), log_level=0)
                if dtype == 1:
                    ph.generate_displacements(distance=0.02)
                else:
                    ph.generate_displacements(distance=0.02, number_of_snapshots=2, random_seed=7 + ctx.seed)
            fc = orc.supercell_fc(S, ph.supercell)
            sc = ph.supercell
            n = len(sc)
            abs_sc = [dict(sp=SPMAP[s_], id=i + 1, mom=0) for i, s_ in enumerate(sc.symbols)]
            dcells = ph.supercells_with_displacements
            if dtype == 1:
                U = []
                for fa in ph.dataset["first_atoms"]:
                    u = np.zeros((n, 3))
                    u[fa["number"]] = fa["displacement"]
                    U.append(u)
                moved = [[fa["number"]] for fa in ph.dataset["first_atoms"]]
            else:
                U = [np.asarray(u) for u in ph.dataset["displacements"]]
                moved = [list(range(n)) for _ in U]
            truth = [-np.einsum("ijab,jb->ia", fc, u) for u in U]
            for variant in ("p1", "p1flag", "sym", "fz"):
                if variant == "sym" and dtype == 2:
                    continue
                with cio.workdir():
                    info = cio.handmade_info("wien2k", unit, "unit.in")
                    with cio.quiet():
                        write_supercells_with_displacements("wien2k", sc, dcells, optional_structure_info=info,
                                                            additional_info={"supercell_matrix": ph.supercell_matrix})
                    files, rows, orbits = [], [], []
                    resid = nprng.uniform(-0.01, 0.01, size=(n, 3))
                    resid -= resid.mean(axis=0)
                    if variant == "fz":
                        files.append(cio.emit_wien2k_scf("case-000.scf", sc.cell, sc.scaled_positions, resid, list(range(n))))
                    for k, dc in enumerate(dcells):
                        acell = [dict(a_) for a_ in abs_sc]
                        idmap = {}
                        for d in moved[k]:
                            acell[d]["id"] = n + d + 1
                            idmap[d + 1] = n + d + 1
                        back = cio.read_back("wien2k", SC_FILES["wien2k"][1] % (k + 1))
                        r, m = rt_result("wien2k", dc, back, idmap)
                        margins["wien2k"] = max(margins.get("wien2k", 0.0), m)
                        if variant == "sym":
                            orb, nops = cio.stabiliser_orbits(dc.symbols, dc.scaled_positions, ops)
                            first = {}
                            for i_, o_ in enumerate(orb):
                                first.setdefault(o_, i_ + 1)
                            orbit = [first[o_] for o_ in orb]                       # smallest member, 1-based
                            listed = sorted({max(i_ for i_ in range(n) if orb[i_] == o_) for o_ in set(orb)})
                            ctx.extra.setdefault("wien2k_sym", []).append(dict(entry=entry, ops=nops, listed=len(listed), atoms=n))
                        else:
                            orbit = list(range(1, n + 1))
                            listed = list(range(n))
                        F = truth[k] + (resid if variant == "fz" else 0.0)
                        files.append(cio.emit_wien2k_scf("case-%03d.scf" % (k + 1), sc.cell, dc.scaled_positions, F, listed))
                        table = {a_["id"]: truth[k][i_] for i_, a_ in enumerate(acell)}
                        table[0] = np.array([7.0, 7.0, 7.0])
                        rows.append((acell, r, "case-%03d.scf" % (k + 1), table))
                        orbits.append(orbit)
                    with cio.quiet():
                        ph.save("phonopy_disp.yaml")
                        phyml = PhonopyYaml()
                        phyml.read("phonopy_disp.yaml")
                    fss = collect_force_sets("wien2k", files, phyml, ph, rows, variant == "fz", margins,
                                             wien2k_P1_mode=(variant == "p1flag"))
                    for (acell, r, tag, _t), fs, orbit in zip(rows, fss, orbits):
                        events.append(event("forces", "wien2k", acell, r, fs=fs, route="sc",
                                            mode=dict(dtype=dtype, fz=(variant == "fz"), sym=(variant == "sym")),
                                            orbit=orbit, tag="%s %s (%s, type %d)" % (entry, tag, variant, dtype)))
                        nfs += 1
                        ctx.count(("wien2k-fs", entry, variant, dtype, tag))
    return events, margins, nfs


# ---------------------------------------------------------------------------
# 2c. convert_crystal_structure between every ordered pair of interfaces
# ---------------------------------------------------------------------------
def stable_group(abs_cell):
    red = list(dict.fromkeys(a_["sp"] for a_ in abs_cell))
    return [a_ for s_ in red for a_ in abs_cell if a_["sp"] == s_]


def conversions(ctx, seqs, nprng, dist):
    """dist: calculator -> length unit / Angstrom, evaluated from Units.tla's required table."""
    from phonopy.interface.calculator import convert_crystal_structure

    events, margins = [], {}
    for seq in seqs:
        abs_cell = [dict(sp=s_, id=i + 1, mom=0) for i, s_ in enumerate(seq)]
        cell = realise(abs_cell, nprng)
        for a in cio.CALCS:
            with cio.workdir():
                try:
                    if a == "fleur":   # the model's input file of a grouping interface is grouped (as phonopy writes it)
                        g = stable_group(abs_cell)
                        src = PhonopyAtoms(symbols=[cell.symbols[x["id"] - 1] for x in g], cell=cell.cell,
                                           scaled_positions=[cell.scaled_positions[x["id"] - 1] for x in g])
                        cio.unit_input(a, src, "unit.in")
                    else:
                        cio.unit_input(a, cell, "unit.in")
                except Exception as e:  # noqa: BLE001
                    events.append(event("convert", a, abs_cell, dict(ERR), ocalc=a, tag="input file: %s" % e))
                    continue
                top = os.getcwd()
                for b in cio.CALCS:
                    out = "conv_%s" % b
                    try:
                        if a == "turbomole":
                            os.chdir("tm_unit")
                            fin, fout = "control", os.path.join("..", out)
                        else:
                            fin, fout = "unit.in", out
                        with cio.quiet():
                            convert_crystal_structure(fin, a, fout, b)
                        os.chdir(top)
                        back = cio.read_back(b, out)
                        expect = PhonopyAtoms(symbols=cell.symbols, cell=cell.cell * (dist[a] / dist[b]),
                                              scaled_positions=cell.scaled_positions)
                        tol = dict(frac=max(cio.TOL[a]["frac"], cio.TOL[b]["frac"]) * 2,
                                   lat=max(cio.TOL[a]["lat"], cio.TOL[b]["lat"]) * 2)
                        p = cio.project(b, expect, back, SPMAP, tol=tol)
                        r = dict(status="ok", atoms=abs_atoms(p["atoms"]), latticeOK=p["latticeOK"], frameOK=p["frameOK"])
                        margins[b] = max(margins.get(b, 0.0), p["margin"])
                        tag = "convert %s -> %s" % (a, b)
                    except Exception as e:  # noqa: BLE001
                        os.chdir(top)
                        r = dict(ERR)
                        tag = "convert %s -> %s: %s: %s" % (a, b, type(e).__name__, e)
                    events.append(event("convert", a, abs_cell, r, ocalc=b, tag=tag))
                    ctx.count(("convert", a, b, tuple(seq)))
    return events, margins


# ---------------------------------------------------------------------------
# 3. trace validation of the structure events
# ---------------------------------------------------------------------------
JUDGE_NAMES = ["ImplNoError", "ImplSameCrystal", "ImplSameMoments", "ImplOrder", "ImplLattice", "ImplFrame",
               "ImplForcesNoError", "ImplForcesPaired", "ImplNotRefused", "ConformsOrder", "ConformsForces",
               "ImplForcesPairedSameOrder", "ImplDisplacementsKept", "ImplSymPaired", "ImplConvertible",
               "ImplConvertCrystal", "ImplZeroRef"]
MACHINE_INVS = ["TInvSameCrystal", "TInvOrder", "TInvForcesPaired", "TInvConvert", "TInvSym", "TInvZeroRef", "TInvRows"]

CFG_TRACE = """INIT TInit
NEXT TNext
CONSTANTS
 Calcs <- MCCalcs
 MaxLen = 1
 NSpecies = 3
 WithMoments = FALSE
 Tasks <- MCTasks
 Unpermutes <- MCUnpermutes
 Events <- MCEvents
CHECK_DEADLOCK FALSE
%s
"""

MC_TRACE = """---- MODULE MC_CalculatorsTrace ----
EXTENDS CalculatorsTrace
MCCalcs == AllCalcs
MCTasks == {}
MCUnpermutes == {}
MCEvents == {%s}
====
"""

_RE_V = __import__("re").compile(r'<<"C17V", (\d+), \{([0-9, ]*)\}>>')


def validate_structure_events(ctx, events, label):
    """code -> spec.  Run A: every event through CalculatorsTrace, TLC judges each
    Impl../Conforms.. predicate and prints the failing ones; run B: one
    representative event per failing class with the predicates as INVARIANTs."""
    evs, seen = [], set()
    for e in events:
        d = {k: v for k, v in e.items() if k != "tag"}
        s = to_tla(d)
        if s not in seen:
            seen.add(s)
            d = dict(d, n=len(evs))
            evs.append((d, e["tag"]))
    # binding self-check: corrupted copies of a recorded event must be rejected by TLC
    import copy
    corrupted = set()
    for d, tag in list(evs):
        at = d["result"].get("atoms", [])
        if d["result"]["status"] == "ok" and len(at) >= 2 and at[0]["sp"] != at[-1]["sp"] and len(corrupted) < 2:
            c1 = copy.deepcopy(d)
            c1["result"]["atoms"][0]["sp"], c1["result"]["atoms"][-1]["sp"] = at[-1]["sp"], at[0]["sp"]
            c2 = copy.deepcopy(d)
            c2["result"]["latticeOK"] = False
            for c in (c1, c2):
                c["n"] = len(evs)
                corrupted.add(c["n"])
                evs.append((c, "corrupted copy (self-check)"))
            break
    verdicts = {}
    for lo in range(0, len(evs), 8000):
        chunk = evs[lo:lo + 8000]
        res = ctx.tlc("MC_CalculatorsTrace", cfg_text=CFG_TRACE % "\n".join("INVARIANT " + i for i in MACHINE_INVS),
                      extra_files={"MC_CalculatorsTrace.tla": MC_TRACE % ",\n".join(ev_to_tla(d) for d, _ in chunk)},
                      workers=4, timeout=1500, what="C17: the step machine fails its own requirement on a recorded input")
        if res.distinct < 5 * len(chunk):
            raise tlcmod.MachineryError("CalculatorsTrace consumed %d states for %d events" % (res.distinct, len(chunk)))
        for m in _RE_V.finditer(res.stdout):
            verdicts[int(m.group(1))] = frozenset(JUDGE_NAMES[int(x) - 1] for x in m.group(2).split(",") if x.strip())
    if corrupted and not corrupted <= set(verdicts):
        raise tlcmod.MachineryError("CalculatorsTrace accepted a corrupted event (%s)" % label)
    for n in corrupted:
        verdicts.pop(n, None)
    ctx.traces += len(evs) - len(corrupted)
    ctx.extra.setdefault("structure_events", {})[label] = dict(events=len(evs) - len(corrupted), failing=len(verdicts),
                                                               corrupted_rejected=len(corrupted))
    if not verdicts:
        return
    def cls(d):
        c = d["calc"]
        if d["kind"] == "read":
            c += ":read"
        if d["kind"] == "convert":
            c += ":to-" + d["ocalc"]
        if d["kind"] == "forces":
            c += "".join(t for t, on in ((":type2", d["mode"]["dtype"] == 2), (":fz", d["mode"]["fz"]),
                                         (":sym", d["mode"]["sym"])) if on)
        if d["ncl"]:
            c += ":ncl"
        return c
    classes = {}
    for n, names in sorted(verdicts.items()):
        classes.setdefault((cls(evs[n][0]), names), n)
    ctx.extra.setdefault("failing_classes", {})[label] = sorted(
        "%s:%s x%d" % (c, "+".join(sorted(nm)), sum(1 for k, v in verdicts.items() if v == nm and cls(evs[k][0]) == c))
        for (c, nm) in classes)
    reps = sorted(set(classes.values()))
    res = ctx.tlc("MC_CalculatorsTrace", cfg_text=CFG_TRACE % "\n".join("INVARIANT " + i for i in JUDGE_NAMES + MACHINE_INVS),
                  extra_files={"MC_CalculatorsTrace.tla": MC_TRACE % ",\n".join(ev_to_tla(evs[n][0]) for n in reps)},
                  requirement=False, extra_args=("-continue",), workers=2, timeout=900)
    # TLC reports, per violating state, the first violated invariant of the list: every
    # representative must be reported with one of the predicates run A found failing for it
    confirmed = {}
    for name, tr in res.violations:
        e = tr[-1][1].get("ev", {}) if tr else {}
        if "n" in e:
            confirmed.setdefault(e["n"], name)
    for n in reps:
        if confirmed.get(n) not in verdicts[n]:
            raise tlcmod.MachineryError("run B reports %r for event %d, run A %s" % (confirmed.get(n), n, sorted(verdicts[n])))
    viol = {}
    for (calc, names), n in sorted(classes.items(), key=lambda kv: kv[1]):
        for name in sorted(names):
            viol.setdefault((name, calc), n)
    req_calcs = {c for (nm, c) in viol if nm.startswith("Impl")}
    for (name, calc), n in sorted(viol.items()):
        d, how = evs[n]
        detail = dict(invariant=name, calc=calc, event=d, how=how, also_failing=sorted(verdicts[n]),
                      tlc_invariant_violation=confirmed.get(n))
        if name.startswith("Impl"):
            ctx.violation("structure:%s:%s" % (calc, name),
                          "C17 %s: requirement %s fails on what the implementation wrote/read (%s)" % (calc, name, how),
                          detail)
        elif calc not in req_calcs:
            # a Conforms failure with the requirement intact: the read-back order is not the documented one
            ctx.extra.setdefault("SPEC-DRIFT", []).append("%s:%s" % (calc, name))
            ctx.violation("structure:%s:%s" % (calc, name),
                          "C17 %s: read-back differs from the specification's behaviour (%s; %s)" % (calc, name, how),
                          detail)


# ---------------------------------------------------------------------------
# 4. units
# ---------------------------------------------------------------------------
UNIT_INVS = ["InvFactor", "InvNac", "InvName", "InvConv", "InvSameTHz", "InvSameNac", "InvSameTriple"]
CFG_UNITS = """INIT Init
NEXT Next
CONSTANTS
 Calcs <- MCCalcs
CHECK_DEADLOCK FALSE
""" + "\n".join("INVARIANT " + i for i in UNIT_INVS) + "\n"
MC_UNITS = "---- MODULE MC_Units ----\nEXTENDS Units\nMCCalcs == AllCalcs\n====\n"

UNIT_TRACE_INVS = ["ImplFactor", "ImplNac", "ImplNacPresent", "ImplDistance", "ImplForce", "ImplNames", "ImplConv",
                   "ImplSameTHz", "ImplSameNac", "ImplPhysFrequencies", "ImplPhysThermal", "ImplPhysLOTO",
                   "ImplPhysNontrivial", "TInvFactor", "TInvNac", "TInvConv",
                   "ConformsFactor", "ConformsNac", "ConformsDistance", "ConformsConv"]
CFG_UNITS_TRACE = """INIT TInit
NEXT TNext
CONSTANTS
 Calcs <- MCCalcs
 Events <- MCEvents
CHECK_DEADLOCK FALSE
""" + "\n".join("INVARIANT " + i for i in UNIT_TRACE_INVS) + "\n"
MC_UNITS_TRACE = """---- MODULE MC_UnitsTrace ----
EXTENDS UnitsTrace
MCCalcs == AllCalcs
MCEvents == {%s}
====
"""


ROUTE_INVS = ["ImplRouteReported", "ImplRouteFactor", "ImplRouteNac", "ImplRoutePhysFrequencies", "ImplRoutePhysLOTO",
              "TInvRoute", "ConformsRouteFactor", "ConformsRouteNac"]
CFG_ROUTE_MODEL = """INIT RInit
NEXT RNext
CONSTANTS
 Calcs <- MCCalcs
CHECK_DEADLOCK FALSE
INVARIANT InvRouteResolves
INVARIANT InvRouteFactor
INVARIANT InvRouteNac
"""
MC_ROUTE_MODEL = "---- MODULE MC_UnitsRoute ----\nEXTENDS UnitsRoute\nMCCalcs == AllCalcs\n====\n"
CFG_ROUTE_TRACE = """INIT TRInit
NEXT TRNext
CONSTANTS
 Calcs <- MCCalcs
 Events <- MCEvents
CHECK_DEADLOCK FALSE
""" + "\n".join("INVARIANT " + i for i in ROUTE_INVS) + "\n"
MC_ROUTE_TRACE = """---- MODULE MC_UnitsRouteTrace ----
EXTENDS UnitsRouteTrace
MCCalcs == AllCalcs
MCEvents == {%s}
====
"""


def run_unit_routes(ctx, rows, ref, bases, fscale, dist, sq):
    """UnitsRoute.tla: the calculator reaches load() as argument, through the saved yaml,
    through phonopy_disp.yaml, or as argument against a file that records another one."""
    res = ctx.tlc("MC_UnitsRoute", cfg_text=CFG_ROUTE_MODEL, extra_files={"MC_UnitsRoute.tla": MC_ROUTE_MODEL},
                  coverage=True, workers=2, timeout=600, what="C17: the route model itself is inconsistent")
    ctx.extra["route_model"] = dict(states=res.distinct, coverage={k: v[1] for k, v in res.coverage.items()})
    base_born = None
    events, worst, detail = [], 0.0, {}
    for ci, calc in enumerate(cio.CALCS):
        lf = cu.evaluate(rows[calc]["dist"])
        ff = cu.evaluate([a - b for a, b in zip(rows[calc]["fcsi"], rows["vasp"]["fcsi"])])
        other = "qe" if calc == "vasp" else "vasp"
        combos = [(r, "none") for r in cu.ROUTES if not (ctx.quick and r == "arg")]   # arg/none: the replay above
        if ctx.quick:      # NAC modes rotate over routes and seeds; every (calculator, NAC mode) is met by seeds 0,1,2
            combos += [(cu.ROUTES[(ci + ctx.seed + k) % 4], "params") for k in (0, 2)]
            if ci % 3 == ctx.seed % 3:
                combos.append((cu.ROUTES[1 + (ci + ctx.seed) % 3], "born"))
        else:
            combos += [(r, m) for r in cu.ROUTES for m in ("params", "born")]
        if calc == "cp2k":       # NAC factor documented as not implemented: load() with NAC parameters has no factor
            combos = [c_ for c_ in combos if c_[1] == "none"]
        for route, nm in combos:
            e = dict(n=len(events), dc=calc, rt=route, nm=nm, oc=(other if route == "conflict" else calc),
                     reported="error", factor=list(cu.UNPROJECTABLE), nacSet=False, nac=[0] * 7,
                     phys=dict(sameFrequencies=False, sameLOTO=False))
            try:
                o = cu.route_observables(ref, calc, lf, ff, route, nm, other)
                e["reported"] = o["reported"]
                e["factor"] = cu.project(o["factor"])
                if o["nac"] is not None:
                    e["nacSet"] = True
                    e["nac"] = cu.project(o["nac"])
                if nm == "born":
                    if base_born is None:
                        base_born = cu.route_observables(ref, "vasp", 1.0, 1.0, "arg", "born", "qe")
                    b, tol = base_born, 1e-3          # BORN file -> Gonze-Lee (sharp reciprocal cutoff, see above)
                else:
                    b, tol = bases[nm], 1e-9
                dq = float(np.abs(sq(o["fq"]) - sq(b["fq"])).max() / fscale ** 2)
                dg = float(np.abs(sq(o["fg"]) - sq(b["fg"])).max() / fscale ** 2)
                e["phys"] = dict(sameFrequencies=(dq < tol and dg < tol) if nm == "none" else True,
                                 sameLOTO=(dq < tol and dg < tol))
                detail["%s/%s/%s" % (calc, route, nm)] = [dq, dg]
                if max(dq, dg) < tol:
                    worst = max(worst, max(dq, dg) / tol)
            except Exception as ex:  # noqa: BLE001
                detail["%s/%s/%s" % (calc, route, nm)] = "%s: %s" % (type(ex).__name__, ex)
            events.append(e)
            ctx.count(("route", calc, route, nm))
    ctx.extra["unit_routes"] = dict(events=len(events), margin=worst)
    res = ctx.tlc("MC_UnitsRouteTrace", cfg_text=CFG_ROUTE_TRACE,
                  extra_files={"MC_UnitsRouteTrace.tla": MC_ROUTE_TRACE % ",\n".join(to_tla(e) for e in events)},
                  requirement=False, extra_args=("-continue",), workers=2, timeout=600)
    if res.distinct < 3 * len(events):
        raise tlcmod.MachineryError("UnitsRouteTrace consumed %d states for %d events" % (res.distinct, len(events)))
    ctx.traces += len(events)
    viol = {}
    for name, tr in res.violations:
        e = tr[-1][1].get("ev", {}) if tr else {}
        viol.setdefault((name, e.get("dc", "?"), e.get("rt", "?"), e.get("nm", "?")), e)
    req = {k[1:] for k in viol if k[0].startswith("Impl")}
    for (name, calc, route, nm), e in sorted(viol.items()):
        if name.startswith("Conforms") and (calc, route, nm) in req:
            continue
        ctx.violation("units:%s:route-%s:%s" % (calc, route, name),
                      "C17 units: %s fails for %s reaching load() by route %s (NAC mode %s)" % (name, calc, route, nm),
                      dict(invariant=name, calc=calc, route=route, nac_mode=nm, logged=e, required=rows.get(calc),
                           distance=detail.get("%s/%s/%s" % (calc, route, nm)),
                           bases="doubled exponents over EV AMU BOHR HARTREE TWO PI TEN"))
    # binding self-check: an event whose factor is VASP's although the data are in qe's units must be rejected
    bad = dict(events[0], n=0, dc="qe", rt="yaml", oc="qe", reported="qe", factor=cu.project(__import__("phonopy").units.VaspToTHz))
    r2 = ctx.tlc("MC_UnitsRouteTrace", cfg_text=CFG_ROUTE_TRACE,
                 extra_files={"MC_UnitsRouteTrace.tla": MC_ROUTE_TRACE % to_tla(bad)}, requirement=False, workers=1, timeout=300)
    if r2.violated not in ("ImplRouteFactor", "ConformsRouteFactor"):
        raise tlcmod.MachineryError("UnitsRouteTrace accepted a corrupted event (%r)" % r2.violated)


def run_units(ctx):
    res = ctx.tlc("MC_Units", cfg_text=CFG_UNITS, extra_files={"MC_Units.tla": MC_UNITS}, dump=True, keep=True,
                  coverage=True, workers=2, timeout=600, what="C17: the unit model itself is inconsistent")
    try:
        states = tla_values.parse_dump(res.dump_path)
    finally:
        tlcmod.cleanup(res)
    rows = {st["calc"]: st["row"] for st in states if st["pc"] == "done"}
    assert sorted(rows) == sorted(cio.CALCS), sorted(rows)
    ctx.extra["unit_model"] = dict(rows=len(rows), coverage={k: v[1] for k, v in res.coverage.items()})

    # spec -> code: one physical crystal expressed with the SPECIFICATION's factors
    ref = cu.physical_reference(ctx=ctx, seed=ctx.seed)
    base0 = cu.physical_observables(ref, "vasp", 1.0, 1.0, nac=False)
    baseW = cu.physical_observables(ref, "vasp", 1.0, 1.0, method="wang")
    baseG = cu.physical_observables(ref, "vasp", 1.0, 1.0, method="gonze", thermal=False)
    split = float(np.abs(baseW["fg"] - base0["fg"]).max())
    fscale = float(np.abs(baseW["fq"]).max())
    tscale = float(np.abs(baseW["th"]).max())
    events, phys_margin = [], 0.0
    TOL_EXACT, TOL_GONZE = 1e-9, 1e-3      # Gonze-Lee: the reciprocal-space sum has a sharp cutoff (effects up to 2e-7 seen)

    def sq(f):        # signed squares: the eigenvalues; acoustic modes at Gamma are noise around 0
        return np.sign(f) * f * f

    def dist(o, b):
        return (float(np.abs(sq(o["fq"]) - sq(b["fq"])).max() / fscale ** 2),
                float(np.abs(sq(o["fg"]) - sq(b["fg"])).max() / fscale ** 2),
                float(np.abs(o["th"] - b["th"]).max() / tscale))
    for calc in cio.CALCS:
        row = rows[calc]
        lf = cu.evaluate(row["dist"])                                  # length unit / Angstrom
        ff = cu.evaluate([a - b for a, b in zip(row["fcsi"], rows["vasp"]["fcsi"])])   # fc unit / (eV/A^2)
        e = cu.table_event(calc)
        nac = e["nacPresent"]
        phys = dict(sameFrequencies=False, sameThermal=False, sameLOTO=False, lotoSplit=split > 1.0)
        phys_detail = {}
        try:
            d0 = dist(cu.physical_observables(ref, calc, lf, ff, nac=False), base0)
            phys["sameFrequencies"] = d0[0] < TOL_EXACT and d0[1] < TOL_EXACT
            phys["sameThermal"] = d0[2] < TOL_EXACT
            phys_detail["no_nac"] = d0
            worst = max(d0) / TOL_EXACT
            if nac:
                dW = dist(cu.physical_observables(ref, calc, lf, ff, method="wang"), baseW)
                # Gonze-Lee (slow): quick tier rotates it over the calculators by seed (all of them in seeds 0,1,2)
                if ctx.quick and cio.CALCS.index(calc) % 3 != ctx.seed % 3:
                    dG = (0.0, 0.0, 0.0)
                else:
                    dG = dist(cu.physical_observables(ref, calc, lf, ff, method="gonze", thermal=False), baseG)
                phys["sameLOTO"] = max(dW) < TOL_EXACT and max(dG) < TOL_GONZE
                phys_detail.update(wang=dW, gonze=dG)
                worst = max(worst, max(dW) / TOL_EXACT, max(dG) / TOL_GONZE)
            if worst < 1.0:
                phys_margin = max(phys_margin, worst)
        except Exception as ex:  # noqa: BLE001
            phys_detail["error"] = "%s: %s" % (type(ex).__name__, ex)
        e["phys"] = phys
        e["_detail"] = phys_detail
        events.append(e)
        ctx.count(("units", calc))
    ctx.extra["units_phys"] = dict(loto_split_THz=split, margin=phys_margin,
                                   detail={e["calc"]: e["_detail"] for e in events})
    ctx.sample(dict(kind="units", calc="qe", factor=events[cio.CALCS.index("qe")]["factor"],
                    nac=events[cio.CALCS.index("qe")]["nac"], bases="EV AMU BOHR HARTREE TWO PI TEN (doubled exponents)"))
    def ev_tla(e):
        parts = []
        for k, v in e.items():
            if k.startswith("_"):
                continue
            if k == "conv":
                parts.append("conv |-> (" + " @@ ".join('"%s" :> %s' % (n, to_tla(x)) for n, x in v.items()) + ")")
            else:
                parts.append("%s |-> %s" % (k, to_tla(v)))
        return "[" + ", ".join(parts) + "]"
    tl = [ev_tla(e) for e in events]
    res = ctx.tlc("MC_UnitsTrace", cfg_text=CFG_UNITS_TRACE,
                  extra_files={"MC_UnitsTrace.tla": MC_UNITS_TRACE % ",\n".join(tl)},
                  requirement=False, extra_args=("-continue",), workers=2, timeout=600)
    ctx.traces += len(events)
    viol = {}
    for name, tr in res.violations:
        e = tr[-1][1].get("ev", {}) if tr else {}
        viol.setdefault((name, e.get("calc", "?")), e)
    req_calcs = {c for (n, c) in viol if n.startswith("Impl")}
    by = {e["calc"]: e for e in events}
    for (name, calc), e in sorted(viol.items()):
        u = None
        try:
            from phonopy.interface.calculator import get_default_physical_units
            u = {k: v for k, v in get_default_physical_units(calc).items()}
        except Exception:  # noqa: BLE001
            pass
        detail = dict(invariant=name, calc=calc, logged=e, code_table=u, required=rows.get(calc),
                      phys=by.get(calc, {}).get("_detail"),
                      bases="doubled exponents over EV AMU BOHR HARTREE TWO PI TEN")
        if name.startswith("Impl") or name.startswith("TInv"):
            ctx.violation("units:%s:%s" % (calc, name),
                          "C17 units: %s fails for %s on the implementation's table / results" % (name, calc), detail)
        elif calc not in req_calcs:
            ctx.violation("units:%s:%s" % (calc, name), "C17 units: logged table of %s differs from the derived one (%s)"
                          % (calc, name), detail)
    run_unit_routes(ctx, rows, ref, dict(none=base0, params=baseW), fscale, dist, sq)
    # binding self-check: a table with one exponent changed must be rejected
    bad = dict(by["vasp"])
    bad["factor"] = [x + (1 if i == 2 else 0) for i, x in enumerate(bad["factor"])]
    res = ctx.tlc("MC_UnitsTrace", cfg_text=CFG_UNITS_TRACE,
                  extra_files={"MC_UnitsTrace.tla": MC_UNITS_TRACE % ev_tla(bad)},
                  requirement=False, workers=1, timeout=300)
    if res.violated not in ("ImplFactor", "ImplSameTHz", "ConformsFactor"):
        raise tlcmod.MachineryError("UnitsTrace accepted a corrupted table (%r)" % res.violated)
    ctx.extra["units_corrupted_rejected"] = res.violated
    # constants used inside writers/readers but not in the tables (recorded, not judged)
    import phonopy.units as pu
    ctx.extra["unit_constants_note"] = dict(dftbpToBohr_times_Bohr_minus_1=pu.dftbpToBohr * pu.Bohr - 1.0)
    return rows


# ---------------------------------------------------------------------------
def run_replay(ctx):
    """./check C17 --replay <file>: re-run exactly the recorded failing case."""
    import json
    with open(ctx.replay_path) as f:
        rec = json.load(f)
    key, det = rec["key"], rec.get("detail") or {}
    print("replaying %s" % key)
    if key.startswith("units:"):
        run_units(ctx)
        return
    ev = det.get("event")
    abs_cell = det.get("cell") or (ev or {}).get("cell")
    calc = str(det.get("calc")).split(":")[0]
    nprng = np.random.default_rng(1000 + rec.get("seed", 0))
    if ev and ev.get("kind") == "convert":
        rows = run_units(ctx)
        dist = {c: cu.evaluate(rows[c]["dist"]) for c in cio.CALCS}
        events, _ = conversions(ctx, [[a_["sp"] for a_ in abs_cell]], nprng, dist)
        validate_structure_events(ctx, [e for e in events if e["calc"] == calc and e["ocalc"] == ev.get("ocalc")], "replay")
    elif ev and calc == "wien2k" and ev.get("kind") == "forces" and len(abs_cell) >= 16:
        events, _, _ = wien2k_force_sets(ctx, nprng)
        validate_structure_events(ctx, events, "replay")
    elif key.startswith("replay:structure:") or (ev and ev.get("kind") in ("rt", "read") and ev.get("route", "api") == "api"):
        expected = None
        if det.get("expected") is not None:
            expected = [dict(sp=a[0], id=a[1], mom=a[2]) for a in det["expected"]]
        events, _ = api_round_trips(ctx, [(calc, [dict(a) for a in abs_cell], expected)], nprng)
        validate_structure_events(ctx, events, "replay")
    else:
        # a case of the supercell pipeline: re-run the pipeline in the recorded mode for all short unit cells
        md = (ev or {}).get("mode") or NOMODE
        mom = None
        if ev and any(a_["mom"] for a_ in abs_cell):
            mom = "ncl" if ev.get("ncl") else "col"
        seqs = [list(t) for n in range(1, 4) for t in __import__("itertools").product((1, 2, 3), repeat=n)]
        events, _, _ = supercell_pipeline(ctx, seqs, nprng, dtype=md["dtype"], fz=md["fz"], moments=mom, calcs=[calc])
        validate_structure_events(ctx, events, "replay")


def run(ctx):
    if ctx.replay_path:
        return run_replay(ctx)
    ctx.rule = ("structure: every (calculator, species sequence over 3 species, with/without moments) is one case, "
                "realised as a triclinic cell with positions partly outside [0,1); plus every written perfect/displaced "
                "supercell file of the Phonopy pipeline in every mode (type-1/type-2 dataset, --fz, collinear and "
                "non-collinear moments, WIEN2k P1/symmetric scf) and every conversion (calc_in, calc_out, sequence); "
                "units: every calculator's projected table and its physical replay")
    import time
    t0 = time.time()

    def lap(what):
        ctx.extra.setdefault("timing_s", {})[what] = round(time.time() - t0, 1)
        if os.environ.get("C17_TIMING"):
            print("  [c17] %-28s %6.1fs" % (what, time.time() - t0), flush=True)
    nprng = np.random.default_rng(1000 + ctx.seed)
    run_structure_model(ctx)
    lap("structure model")
    space = dump_round_trip_space(ctx, 4 if ctx.quick else 5)
    lap("dump of round-trip space")
    # cells with two-digit atom counts (beyond the enumerated space: judged by trace validation only)
    for calc in cio.CALCS:
        for n in (10, 13):
            seq = [1, 2, 1, 3, 2] + [ctx.rng.randint(1, 3) for _ in range(n - 5)]
            space.append((calc, [dict(sp=s_, id=i + 1, mom=0) for i, s_ in enumerate(seq)], None))
    ev1, m1 = api_round_trips(ctx, space, nprng)
    # wide cells: Cartesian coordinates below -10 and above 30 length units (fixed-width fields of the writers)
    # (31: coordinates <= -10; 120: lattice components and coordinates >= 100)
    for seq, scale in (([1, 2, 1], 31.0), ([2, 1, 3, 1], 120.0)):
        wide = [(calc, [dict(sp=s_, id=i + 1, mom=0) for i, s_ in enumerate(seq)], None) for calc in cio.CALCS]
        ev1w, m1w = api_round_trips(ctx, wide, nprng, scale=scale)
        ev1 += ev1w
        m1 = {c: max(m1.get(c, 0.0), m1w.get(c, 0.0)) for c in set(m1) | set(m1w)}
    lap("api round trips")
    import itertools
    L = 3 if ctx.quick else 4
    seqs = [list(t) for n in range(1, L + 1) for t in itertools.product((1, 2, 3), repeat=n)]
    if ctx.quick:
        # all sequences of length <= 2, and a seed-dependent part of those of length 3
        l3 = [s for s in seqs if len(s) == 3]
        ctx.rng.shuffle(l3)
        seqs = [s for s in seqs if len(s) < 3] + l3[:8] + [[1, 2, 1], [1, 1, 2]]
    ev2, m2, nfs = supercell_pipeline(ctx, seqs, nprng)

    def more(evm):
        nonlocal ev2, m2, nfs
        e_, m_, n_ = evm
        ev2 += e_
        nfs += n_
        m2 = {c: max(m2.get(c, 0.0), m_.get(c, 0.0)) for c in set(m2) | set(m_)}
    # the other modes: type-2 datasets, --fz, moments (collinear through every interface, non-collinear where
    # the interface has a route for them); quick: a seed-dependent handful of unit cells per mode
    variants = [dict(dtype=2), dict(dtype=1, fz=True), dict(dtype=2, fz=True), dict(moments="col"),
                dict(moments="ncl"), dict(dtype=2, moments="col")]
    pool = [s for s in seqs if 2 <= len(s) <= 3]
    for vi, v in enumerate(variants):
        if ctx.quick:
            ctx.rng.shuffle(pool)
            sub = pool[:3] + [[1, 2, 1], [2, 1]][: 1 + (vi + ctx.seed) % 2]
        else:
            sub = [s for s in seqs if len(s) <= 3]
        more(supercell_pipeline(ctx, sub, nprng, **v))
    if not ctx.quick:     # a non-diagonal supercell matrix and cells without offsets as well
        more(supercell_pipeline(ctx, [s_ for s_ in seqs if len(s_) <= 3], nprng, smat=((1, 1, 0), (0, 1, 0), (0, 0, 2))))
        more(supercell_pipeline(ctx, [s_ for s_ in seqs if len(s_) <= 2], nprng, smat=((1, 1, 0), (0, 1, 0), (0, 0, 2)),
                                dtype=2, fz=True))
        ev1b, m1b = api_round_trips(ctx, [t for t in space if len(t[1]) <= 4], nprng, offsets=False)
        ev1 += ev1b
        m1 = {c: max(m1.get(c, 0.0), m1b.get(c, 0.0)) for c in set(m1) | set(m1b)}
    lap("supercell pipelines")
    more(wien2k_force_sets(ctx, nprng))
    lap("wien2k force sets")
    rows = run_units(ctx)
    lap("units")
    dist = {c: cu.evaluate(rows[c]["dist"]) for c in cio.CALCS}
    cseqs = [list(t) for n in range(1, (3 if ctx.quick else 4) + 1) for t in itertools.product((1, 2, 3), repeat=n)]
    if ctx.quick:
        l3 = [s for s in cseqs if len(s) == 3]
        ctx.rng.shuffle(l3)
        cseqs = [s for s in cseqs if len(s) < 3][:: 2 if ctx.seed % 2 else 1][:8] + l3[:5] + [[1, 2, 1]]
    ev3, m3 = conversions(ctx, cseqs, nprng, dist)
    lap("conversions")
    margins = {c: max(m1.get(c, 0.0), m2.get(c, 0.0), m3.get(c, 0.0)) for c in cio.CALCS + ["forces"]}
    ctx.extra["format_margins"] = margins     # observed error / tolerance per calculator (matched atoms only)
    ctx.extra["cp2k_standin"] = cio.CP2K_STANDIN
    ctx.extra["force_set_events"] = nfs
    ctx.extra["conversion_events"] = dict(total=len(ev3), converted=sum(1 for e in ev3 if e["result"]["status"] == "ok"))
    fsx_ = [e for e in ev2 if e["kind"] == "forces"]
    ctx.extra["mode_counts"] = dict(
        type1=sum(1 for e in fsx_ if e["mode"]["dtype"] == 1 and not e["mode"]["fz"]),
        type2=sum(1 for e in fsx_ if e["mode"]["dtype"] == 2 and not e["mode"]["fz"]),
        fz_type1=sum(1 for e in fsx_ if e["mode"]["dtype"] == 1 and e["mode"]["fz"]),
        fz_type2=sum(1 for e in fsx_ if e["mode"]["dtype"] == 2 and e["mode"]["fz"]),
        wien2k_sym=sum(1 for e in fsx_ if e["mode"]["sym"]),
        wien2k=sum(1 for e in fsx_ if e["calc"] == "wien2k"),
        with_moments=sum(1 for e in ev2 if any(a_["mom"] for a_ in e["cell"])),
        noncollinear=sum(1 for e in ev2 if e["ncl"]),
        refused=sum(1 for e in fsx_ if e["fs"]["status"] == "refused"))
    # outside the property as worded (outputs without positions): grouping writers + interleaved supercell
    mp = [e for e in fsx_ if e["fs"]["status"] == "built" and e["fs"]["forces"] != [a_["id"] for a_ in e["cell"]]]
    ctx.extra["unchecked_mispaired_real_runs"] = dict(count=len(mp), calcs=sorted({e["calc"] for e in mp}))
    ctx.sample(ev1[len(ev1) // 3])
    ctx.sample(ev2[len(ev2) // 2])
    fsx = [e for e in ev2 if e["kind"] == "forces"]
    if fsx:
        ctx.sample(fsx[0])
        ctx.sample([e for e in fsx if e["mode"]["fz"]][-1])
        ctx.sample([e for e in fsx if e["mode"]["sym"]][-1])
    ctx.sample([e for e in ev3 if e["result"]["status"] == "ok"][-1])
    validate_structure_events(ctx, ev1, "api")
    lap("trace validation api")
    validate_structure_events(ctx, ev2, "supercells")
    lap("trace validation supercells")
    validate_structure_events(ctx, ev3, "conversions")
    lap("trace validation conversions")
    ctx.assumptions += [
        "e^2/(4 pi eps0) = Hartree*Bohr (eV Angstrom) - the definition of the atomic units used by phonopy/units.py",
        "own emitters (CRYSTAL output geometry block, Fleur inpgen input, CP2K input, vasprun.xml) and own parsers "
        "(fort.34/.d12, Fleur written layout, POSCAR) are our reading of the formats",
        "cp2k_input_tools is replaced by the stand-in harness/c17_standin (package not installed)" if cio.CP2K_STANDIN
        else "cp2k_input_tools: installed package used",
        "qe/siesta writers emit partial inputs; the adapter un-comments qe's ibrav/nat/ntyp line and prepends siesta's "
        "ChemicalSpeciesLabel block (traits)",
        "only VASP output carries positions; for the other 15 calculators FORCE_SETS pairs forces by file order unchecked",
        "WIEN2k :FGL components are read as components along the normalised lattice vectors (phonopy's reading, trusted); "
        "the symmetric case.scf lists the last atom of every orbit of the displaced cell's space group",
    ]
