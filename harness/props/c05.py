"""C05 - shortest-vector tables are the complete minimum-image sets.

Spec: spec/ShortestVectors.tla.  Two families of cases go to TLC:
  model: all Niggli-reduced integer Gram forms (bounded entries) x separations on a
         grid: the 65-point window of the implementation finds exactly the
         minimum-image set found in a provably sufficient box (Window65Complete);
  impl : get_smallest_vectors() / Primitive.get_smallest_vectors() run on real
         lattices (arbitrarily sheared presentations U G U^T of small forms G,
         needle/plate/high-symmetry ones included), dense and sparse storage,
         projected to integers; TLC decides that each recorded table is the
         minimum-image set (none longer, none missing, none duplicated,
         multiplicity = count).
"""
from __future__ import annotations

import itertools
import math

import numpy as np

from harness import bootstrap  # noqa: F401
from harness import xtal
from harness import tlc as tlcmod
from harness.tla_values import to_tla

from phonopy.structure.cells import (get_smallest_vectors, sparse_to_dense_svecs, dense_to_sparse_svecs)

LIM = 2 ** 30


def det3(G):
    G = [[int(x) for x in r] for r in G]
    return (G[0][0] * (G[1][1] * G[2][2] - G[1][2] * G[2][1]) - G[0][1] * (G[1][0] * G[2][2] - G[1][2] * G[2][0])
            + G[0][2] * (G[1][0] * G[2][1] - G[1][1] * G[2][0]))


def adj_diag(G):
    return [G[1][1] * G[2][2] - G[1][2] * G[2][1], G[0][0] * G[2][2] - G[0][2] * G[2][0],
            G[0][0] * G[1][1] - G[0][1] * G[1][0]]


def qform(G, v):
    return sum(int(v[i]) * int(G[i][j]) * int(v[j]) for i in range(3) for j in range(3))


def niggli(G):
    A, B, C = G[0][0], G[1][1], G[2][2]
    xi, eta, zeta = 2 * G[1][2], 2 * G[0][2], 2 * G[0][1]
    t1 = xi > 0 and eta > 0 and zeta > 0
    t2 = xi <= 0 and eta <= 0 and zeta <= 0
    if not (0 < A <= B <= C and (t1 or t2)):
        return False
    if A == B and abs(xi) > abs(eta):
        return False
    if B == C and abs(eta) > abs(zeta):
        return False
    if abs(xi) > B or abs(eta) > A or abs(zeta) > A:
        return False
    if t1:
        if (xi == B and zeta > 2 * eta) or (eta == A and zeta > 2 * xi) or (zeta == A and eta > 2 * xi):
            return False
    else:
        s = xi + eta + zeta + A + B
        if s < 0 or (xi == -B and zeta != 0) or (eta == -A and zeta != 0) or (zeta == -A and eta != 0):
            return False
        if s == 0 and 2 * (A + eta) + zeta > 0:
            return False
    return det3(G) > 0


def reduced_forms(K):
    h = K // 2
    out = []
    for a, b, c in itertools.product(range(1, K + 1), repeat=3):
        if not a <= b <= c:
            continue
        for f, e, d in itertools.product(range(-h, h + 1), repeat=3):
            G = [[a, d, e], [d, b, f], [e, f, c]]
            if niggli(G):
                out.append(G)
    return out


def box_for(G, D, d):
    """Half-widths B such that no image outside can be as short as the wrapped one (margin +1);
    None if 32-bit arithmetic in TLC could overflow."""
    # upper bound of the minimum: the shortest among the 27 nearest images
    L = min(qform(G, [d[0] + D * n[0], d[1] + D * n[1], d[2] + D * n[2]])
            for n in itertools.product((-1, 0, 1), repeat=3))
    dg = det3(G)
    ad = adj_diag(G)
    B = []
    for i in range(3):
        b = 0
        while (D * (b + 1) - abs(d[i])) ** 2 * dg <= L * ad[i]:
            b += 1
        B.append(b + 1)
    big = max((D * (B[i] + 2) + abs(d[i])) ** 2 for i in range(3)) * max(dg, max(ad), max(abs(x) for r in G for x in r)) * 3
    if big >= LIM or L * max(ad) >= LIM or (2 * B[0] + 1) * (2 * B[1] + 1) * (2 * B[2] + 1) > 6000:
        return None
    return B


def random_unimodular(rng, steps):
    U = np.eye(3, dtype=int)
    for _ in range(steps):
        i, j = rng.sample(range(3), 2)
        E = np.eye(3, dtype=int)
        E[i, j] = rng.choice([-2, -1, 1, 2])
        U = E @ U
        if rng.random() < 0.3:
            P = np.eye(3, dtype=int)[rng.sample(range(3), 3)]
            if round(np.linalg.det(P)) < 0:
                P[0] = -P[0]
            U = P @ U
    if np.abs(U).max() > 6:
        return random_unimodular(rng, steps - 1)
    return U


SPECIAL_FORMS = [
    [[1, 0, 0], [0, 1, 0], [0, 0, 1]],  # cubic: up to 8-fold ties
    [[2, -1, 0], [-1, 2, 0], [0, 0, 3]],  # hexagonal
    [[2, 1, 1], [1, 2, 1], [1, 1, 2]],  # fcc primitive (rhombohedral 60 deg)
    [[3, -1, -1], [-1, 3, -1], [-1, -1, 3]],  # bcc primitive
    [[1, 0, 0], [0, 1, 0], [0, 0, 36]],  # needle
    [[1, 0, 0], [0, 30, 0], [0, 0, 30]],  # plate
    [[4, 1, 1], [1, 5, 2], [1, 2, 6]],  # triclinic
    [[2, -1, 0], [-1, 2, 0], [0, 0, 40]],  # hexagonal needle
    [[4, 2, 2], [2, 5, 1], [2, 1, 7]],
    [[3, 0, -1], [0, 4, -2], [-1, -2, 5]],
]


def sheared_bases(forms):
    out = []
    for G in forms:
        if not niggli(G):
            continue
        Ga = np.array(G)
        for (i, j) in itertools.permutations(range(3), 2):
            for (k, l) in ((k, l) for k in range(-4, 5) for l in range(-2, 3)):
                if k == 0:
                    continue
                U = np.eye(3, dtype=int)
                U[i, j] = k
                m = 3 - i - j
                U[i, m] = l
                Gs = U @ Ga @ U.T
                looks = all(4 * Gs[a, b] ** 2 <= Gs[a, a] * Gs[b, b] for a in range(3) for b in range(a + 1, 3))
                unreduced = any(2 * abs(Gs[a, b]) > min(Gs[a, a], Gs[b, b]) for a in range(3) for b in range(a + 1, 3))
                if looks and unreduced:
                    out.append((G, U))
    return out


def impl_events(ctx):
    rng = ctx.rng
    nprng = np.random.default_rng(ctx.seed + 5)
    events = []
    forms = [G for G in SPECIAL_FORMS if niggli(G)]
    extra = reduced_forms(4)
    rng.shuffle(extra)
    forms += extra[: (6 if ctx.quick else 60)]
    n_lat = 0
    plan = []
    for G in forms:
        for rep in range(2 if ctx.quick else 4):
            plan.append((G, np.eye(3, dtype=int) if rep == 0 else random_unimodular(rng, 2 + rep)))
    # bases that "look reduced" (every inter-axial angle between 60 and 120 degrees) but are not: a long axis
    # sheared by whole steps of a short one (needle/plate supercells such as a3 = 2a + 4c)
    sheared = sheared_bases(forms + [[[1, 0, 0], [0, 1, 0], [0, 0, 16]], [[1, 0, 0], [0, 4, 0], [0, 0, 16]],
                                     [[2, -1, 0], [-1, 2, 0], [0, 0, 24]], [[1, 0, 0], [0, 9, 0], [0, 0, 9]]])
    rng.shuffle(sheared)
    plan += sheared[: (8 if ctx.quick else 60)]
    ctx.extra["sheared_unreduced_bases"] = min(len(sheared), 8 if ctx.quick else 60)
    for G, U in plan:
        for rep in (0,):
            Gs = (U @ np.array(G) @ U.T)
            D = rng.choice([2, 4, 6])
            Lr = xtal.lattice_from_gram(G, a=1.7 * D / 2, rng=nprng)
            Ls = U @ Lr
            n_to = min(6 if ctx.quick else 10, D ** 3)
            pts = {(0, 0, 0), (D // 2, D // 2, D // 2), (D // 2, 0, 0), (0, D // 2, D // 2)}
            while len(pts) < n_to:
                pts.add(tuple(rng.randrange(0, D) for _ in range(3)))
            pts = sorted(pts)
            pos_to = np.array(pts, dtype=float) / D
            from_idx = [0, 1, len(pts) - 1]
            pos_from = pos_to[from_idx]
            for noisy in (False, True):
                if noisy:
                    # positions off the grid by far less than symprec (1e-5): ties are then only approximate and
                    # must still be reported ("within the symmetry tolerance"); Cartesian noise <= 1.5e-6 per atom
                    e = nprng.normal(size=pos_to.shape)
                    e *= (1.5e-6 * nprng.uniform(0.3, 1.0, size=(len(e), 1))) / np.linalg.norm(e, axis=1, keepdims=True)
                    pos_to_n = pos_to + e @ np.linalg.inv(Ls)
                else:
                    pos_to_n = pos_to
                pos_from_n = pos_to_n[from_idx]
                try:
                    dsv, dmulti = get_smallest_vectors(Ls, pos_to_n, pos_from_n, store_dense_svecs=True)
                    ssv, smulti = get_smallest_vectors(Ls, pos_to_n, pos_from_n, store_dense_svecs=False)
                except Exception as e:
                    ctx.violation("impl:exception", "get_smallest_vectors raised %s" % type(e).__name__,
                                  dict(G=G, U=U.tolist(), D=D, error=repr(e)))
                    continue
                n_lat += 1
                # whole-table facts: addresses are running sums; converters agree
                addr_ok = True
                run = 0
                for i in range(len(pts)):
                    for j in range(len(from_idx)):
                        if dmulti[i, j, 1] != run:
                            addr_ok = False
                        run += dmulti[i, j, 0]
                addr_ok = addr_ok and run == len(dsv)
                c_dsv, c_dmulti = sparse_to_dense_svecs(ssv, smulti)
                c_ssv, c_smulti = dense_to_sparse_svecs(dsv, dmulti)
                conv_ok = bool(np.array_equal(c_dmulti, dmulti) and np.allclose(c_dsv, dsv, atol=1e-12)
                               and np.array_equal(c_smulti, smulti) and all(
                    np.allclose(c_ssv[i, j, :smulti[i, j]], ssv[i, j, :smulti[i, j]], atol=1e-12)
                    for i in range(len(pts)) for j in range(len(from_idx))))
                for i in range(len(pts)):
                    for j in range(len(from_idx)):
                        ds = [pts[i][k] - pts[from_idx[j]][k] for k in range(3)]
                        dr = [int(x) for x in np.array(ds) @ U]
                        B = box_for(G, D, dr)
                        if B is None:
                            ctx.extra["skipped_overflow"] = ctx.extra.get("skipped_overflow", 0) + 1
                            continue
                        m, a = int(dmulti[i, j, 0]), int(dmulti[i, j, 1])
                        dv = dsv[a:a + m] * D
                        sv = ssv[i, j, :int(smulti[i, j])] * D
                        exact = bool(np.abs(dv - np.rint(dv)).max(initial=0) < 1e-4 and np.abs(sv - np.rint(sv)).max(initial=0) < 1e-4)
                        events.append(dict(kind="impl", noisy=noisy, G=G, U=U.tolist(), Gs=Gs.tolist(), D=D, ds=ds, B=B,
                                           dense=np.rint(dv).astype(int).tolist(), denseMulti=m,
                                           sparse=np.rint(sv).astype(int).tolist(), sparseMulti=int(smulti[i, j]),
                                           exact=exact, addrOK=bool(addr_ok), convertOK=conv_ok))
                        ctx.count(("impl", tuple(map(tuple, Gs.tolist())), D, tuple(ds), noisy))
    events += large_table_events(ctx, rng, nprng)
    ctx.extra["impl_lattices"] = n_lat
    return events


def large_table_events(ctx, rng, nprng):
    """Tables of many atoms (a ladder of sizes up to a few thousand supercell atoms): the kernels' work sharing and the
    running addresses of the dense table only become non-trivial there.  The whole table is checked for its
    address/convert facts; a sample of pairs spread over the whole table goes to TLC like the small ones."""
    events = []
    sizes = [(6, 200), (12, 1100)] if ctx.quick else [(6, 216), (8, 500), (12, 1100), (12, 1728), (14, 2600)]
    forms = [SPECIAL_FORMS[0], SPECIAL_FORMS[6]] if ctx.quick else [SPECIAL_FORMS[i] for i in (0, 1, 2, 6, 9)]
    sizes_seen = []
    for G in forms:
        for D, n_to in sizes:
            U = np.eye(3, dtype=int)
            Gs = np.array(G)
            Ls = xtal.lattice_from_gram(G, a=1.7 * D / 2, rng=nprng)
            h = D // 2
            pts = {(0, 0, 0), (h, h, h), (h, 0, 0), (0, h, h)}
            allp = list(itertools.product(range(D), repeat=3))
            rng.shuffle(allp)
            for p_ in allp:
                if len(pts) >= n_to:
                    break
                pts.add(p_)
            pts = sorted(pts)
            pos_to = np.array(pts, dtype=float) / D
            from_idx = [0, len(pts) // 2, len(pts) - 1]
            pos_from = pos_to[from_idx]
            try:
                dsv, dmulti = get_smallest_vectors(Ls, pos_to, pos_from, store_dense_svecs=True)
                ssv, smulti = get_smallest_vectors(Ls, pos_to, pos_from, store_dense_svecs=False)
            except Exception as e:
                ctx.violation("impl:exception", "get_smallest_vectors raised %s" % type(e).__name__,
                              dict(G=G, D=D, n_to=len(pts), error=repr(e)))
                continue
            sizes_seen.append(len(pts))
            flat = dmulti.reshape(-1, 2)
            run_addr = np.concatenate([[0], np.cumsum(flat[:, 0])])
            addr_ok = bool(np.array_equal(flat[:, 1], run_addr[:-1]) and run_addr[-1] == len(dsv))
            c_dsv, c_dmulti = sparse_to_dense_svecs(ssv, smulti)
            c_ssv, c_smulti = dense_to_sparse_svecs(dsv, dmulti)
            conv_ok = bool(np.array_equal(c_dmulti, dmulti) and c_dsv.shape == dsv.shape
                           and np.allclose(c_dsv, dsv, atol=1e-12) and np.array_equal(c_smulti, smulti))
            # pairs spread over the whole table: both ends, and a stratified random sample
            n_s = 120 if ctx.quick else 400
            idx = sorted(set([0, 1, len(pts) - 1, len(pts) - 2] +
                             [min(len(pts) - 1, int((k + rng.random()) * len(pts) / n_s)) for k in range(n_s)]))
            for i in idx:
                for j in range(len(from_idx)):
                    ds = [pts[i][k] - pts[from_idx[j]][k] for k in range(3)]
                    B = box_for(G, D, ds)
                    if B is None:
                        ctx.extra["skipped_overflow"] = ctx.extra.get("skipped_overflow", 0) + 1
                        continue
                    m, a = int(dmulti[i, j, 0]), int(dmulti[i, j, 1])
                    inb = 0 <= a and a + m <= len(dsv) and 0 <= m <= 27
                    dv = (dsv[a:a + m] if inb else np.zeros((0, 3))) * D
                    sv = ssv[i, j, :int(smulti[i, j])] * D
                    exact = bool(inb and np.abs(dv - np.rint(dv)).max(initial=0) < 1e-4
                                 and np.abs(sv - np.rint(sv)).max(initial=0) < 1e-4)
                    events.append(dict(kind="impl", noisy=False, G=G, U=U.tolist(), Gs=Gs.tolist(), D=D, ds=ds, B=B,
                                       dense=np.rint(dv).astype(int).tolist(), denseMulti=m,
                                       sparse=np.rint(sv).astype(int).tolist(), sparseMulti=int(smulti[i, j]),
                                       exact=exact, addrOK=addr_ok, convertOK=conv_ok))
                    ctx.count(("impl-large", tuple(map(tuple, G)), D, len(pts), tuple(ds)))
    ctx.extra["large_table_sizes"] = sizes_seen
    return events


def tol_events(ctx):
    """Pairs whose competing images differ in length by amounts comparable to the tolerance (kind "tol")."""
    nprng = np.random.default_rng(ctx.seed + 41)
    lattices = [
        ("cubic", np.diag([4.0, 4.0, 4.0])),
        ("tetragonal", np.diag([3.0, 3.0, 5.0])),
        ("hexagonal", np.array([[3.2, 0, 0], [-1.6, 1.6 * np.sqrt(3), 0], [0, 0, 5.1]])),
        ("fcc-prim", 2.1 * np.array([[0, 1, 1], [1, 0, 1], [1, 1, 0.0]])),
    ]
    sites = [(0.5, 0.5, 0.5), (0.5, 0.5, 0.0), (0.5, 0.0, 0.0), (0.5, 0.5, 0.25)]
    dirs = [(-1.0, -0.3, -0.2), (1.0, 0.6, 0.3), (0.2, -1.0, 0.5), (1, 1, 1), (1, 0, 0)]
    scales = (0.2, 0.6, 1.0, 1.7, 3.0) if not ctx.quick else (0.6, 1.0, 1.7)
    events = []
    n_wide = n_out = 0
    for name, L in lattices:
        R = np.linalg.qr(nprng.normal(size=(3, 3)))[0]
        Ls = L @ R
        for tol in (1e-5, 1e-3):
            for site in sites:
                for d in dirs + [tuple(nprng.normal(size=3)) for _ in range(1 if ctx.quick else 3)]:
                    for sc in scales:
                        disp = np.array(d, dtype=float)
                        disp = disp / np.linalg.norm(disp) * sc * tol          # Cartesian, in units of the tolerance
                        pos_to = np.array([site]) + disp @ np.linalg.inv(Ls)
                        pos_from = np.zeros((1, 3))
                        tabs = {}
                        try:
                            for dense in (True, False):
                                tabs[dense] = get_smallest_vectors(Ls, pos_to, pos_from, store_dense_svecs=dense, symprec=tol)
                        except Exception as e:
                            ctx.violation("impl:exception:tol", "get_smallest_vectors raised %s on a near-tie" % type(e).__name__,
                                          dict(lattice=name, site=site, disp=disp.tolist(), tol=tol, error=repr(e)))
                            continue
                        sep = pos_to[0] - pos_from[0]
                        box = np.array(list(itertools.product(range(-3, 4), repeat=3)), dtype=float)
                        imgs = sep + box
                        lens = np.linalg.norm(imgs @ Ls, axis=1)
                        m = lens.min()
                        inner = np.abs(box).max(axis=1) <= 2
                        if not (lens[~inner] > m + 10 * tol).all():
                            raise tlcmod.MachineryError("tolerance-window brute force: box not sufficient")
                        must = lens < m + tol * (1 - 1e-6)
                        may = lens <= m + tol * (1 + 1e-6)
                        n_wide += int(must.sum() > (np.abs(lens - m) < 1e-12).sum())
                        n_out += int(((lens > m + tol * (1 + 1e-6)) & (lens < m + 4 * tol)).any())
                        rec = dict(within={}, complete={}, nodup={}, multi={})
                        sets = {}
                        for dense, key in ((True, "dense"), (False, "sparse")):
                            sv, mu = tabs[dense]
                            if dense:
                                cnt, adr = int(mu[0, 0, 0]), int(mu[0, 0, 1])
                                inb = 0 <= adr and adr + cnt <= len(sv)
                                v = sv[adr:adr + cnt] if inb else np.zeros((0, 3))
                            else:
                                cnt = int(mu[0, 0])
                                inb = 0 <= cnt <= sv.shape[2]
                                v = sv[0, 0, :cnt] if inb else np.zeros((0, 3))
                            idx = []
                            ok_img = inb
                            for w in v:
                                k = np.where(np.abs(imgs - w).max(axis=1) < 1e-8)[0]
                                if len(k) != 1:
                                    ok_img = False
                                else:
                                    idx.append(int(k[0]))
                            rec["within"][key] = bool(ok_img and all(may[k] for k in idx))
                            rec["complete"][key] = bool(inb and set(np.where(must)[0]) <= set(idx))
                            rec["nodup"][key] = bool(len(set(idx)) == len(idx))
                            rec["multi"][key] = bool(inb and cnt == len(idx) and cnt >= 1)
                            sets[key] = frozenset(idx)
                        edge = ((lens >= m + tol * (1 - 1e-6)) & (lens <= m + tol * (1 + 1e-6))).any()
                        events.append(dict(kind="tol", lat=name, tolE=int(round(-np.log10(tol))), scale=int(round(sc * 10)),
                                           nmust=int(must.sum()), within=rec["within"], complete=rec["complete"],
                                           nodup=rec["nodup"], multi=rec["multi"],
                                           same=bool(edge or sets["dense"] == sets["sparse"]),
                                           id=len(events)))
                        ctx.count(("tol", name, tol, site, tuple(np.round(disp / tol, 3))))
    ctx.extra["tolerance_window_pairs"] = len(events)
    ctx.extra["tolerance_window_pairs_with_near_ties_inside"] = n_wide
    ctx.extra["tolerance_window_pairs_with_near_ties_outside"] = n_out
    if n_wide < 5 or n_out < 5:
        raise tlcmod.MachineryError("tolerance-window cases are vacuous (%d inside, %d outside)" % (n_wide, n_out))
    return events


def reduce_gram(Gs):
    """Integer pair reduction: returns (Gr, U) with Gs = U Gr U^T, U unimodular (TLC re-checks both)."""
    Gs = np.array(Gs, dtype=object)
    B = np.eye(3, dtype=object)
    for _ in range(200):
        G = B.dot(Gs).dot(B.T)
        changed = False
        for i in range(3):
            for j in range(3):
                if i != j and G[j][j] > 0:
                    k = (2 * G[i][j] + G[j][j]) // (2 * G[j][j])  # nearest integer
                    if k != 0:
                        B[i] = B[i] - k * B[j]
                        G = B.dot(Gs).dot(B.T)
                        changed = True
        if not changed:
            break
    Bf = np.array(B, dtype=float)
    U = np.rint(np.linalg.inv(Bf)).astype(int)
    Gr = np.array(B.dot(Gs).dot(B.T), dtype=int)
    return Gr.tolist(), U


PHONOPY_CASES = [
    ("sc", [[2, 0, 0], [0, 2, 0], [0, 0, 2]], None), ("sc", [[2, 1, 0], [0, 2, 0], [0, 0, 1]], None),
    ("cscl", [[2, 0, 0], [0, 2, 0], [0, 0, 2]], None), ("cscl", [[0, 1, 1], [1, 0, 1], [1, 1, 0]], None),
    ("bcc", [[2, 0, 0], [0, 2, 0], [0, 0, 2]], "I"), ("nacl", [[1, 0, 0], [0, 1, 0], [0, 0, 2]], "F"),
    ("hcp", [[2, 0, 0], [0, 2, 0], [0, 0, 1]], None), ("hcp", [[3, 0, 0], [0, 3, 0], [0, 0, 2]], None),
    ("tric", [[1, 1, 0], [-1, 1, 0], [0, 0, 2]], None), ("tetab", [[2, 0, 0], [0, 2, 0], [0, 0, 2]], None),
]


def phonopy_events(ctx):
    """Shortest vectors as stored by real Primitive objects (primitive-cell coordinates, both storage formats)."""
    from phonopy import Phonopy
    from harness.oracle import Oracle, adj3, det3 as odet

    rng = ctx.rng
    nprng_l = np.random.default_rng(ctx.seed + 23)
    n_loose = 0
    events = []
    cases = PHONOPY_CASES if not ctx.quick else PHONOPY_CASES[::2]
    for entry, S, P in cases:
        orc = Oracle(entry, [S], seed=ctx.seed, ctx=ctx)
        D0 = orc.D
        dS = odet(S)
        D = D0 * abs(dS)
        if D > 64:
            continue
        Gs = (np.array(S).T @ np.array(orc.cr["G"]) @ np.array(S))
        Gr, U = reduce_gram(Gs)
        A = adj3(S) * (1 if dS > 0 else -1)
        tables = {}
        for dense in (True, False):
            ph = Phonopy(orc.unitcell(), supercell_matrix=S, primitive_matrix=P, store_dense_svecs=dense)
            svecs, multi = ph.primitive.get_smallest_vectors()
            tables[dense] = (ph, svecs, multi)
        ph = tables[True][0]
        ideal_pcell = ph.primitive.cell.copy()
        # the same crystal, slightly strained (edge lengths off by ~1e-4, far more than the default tolerance of 1e-5),
        # in an object built with symprec=1e-3: images that tie in the ideal crystal differ by up to a few 1e-4 and are
        # "within the symmetry tolerance" of THIS object, so its tables must be the ideal ones.  Vectors are stored in
        # primitive-cell coordinates and are mapped back with the ideal cell.
        loose = {}
        cell_l = orc.unitcell()
        eps = nprng_l.uniform(-2e-5, 2e-5, size=(3, 3))
        cell_l.cell = cell_l.cell @ (np.eye(3) + eps)
        try:
            for dense in (True, False):
                phl = Phonopy(cell_l, supercell_matrix=S, primitive_matrix=P, store_dense_svecs=dense, symprec=1e-3)
                svl, mul = phl.primitive.get_smallest_vectors()
                loose[dense] = (phl, svl, mul)
        except Exception as e:
            ctx.violation("impl:exception:loose", "Phonopy(symprec=1e-3) on a crystal strained by 2e-5 raised %s"
                          % type(e).__name__, dict(entry=entry, S=S, P=P, error=repr(e)))
            loose = {}
        sup_u, r1 = xtal.project_to_unit(ph.supercell.positions, orc.L, D0)
        p2s = ph.primitive.p2s_map
        pairs = [(k, i) for k in range(len(sup_u)) for i in range(len(p2s))]
        rng.shuffle(pairs)
        for k, i in pairs[:(24 if ctx.quick else 80)]:
            sep_u = sup_u[k] - sup_u[p2s[i]]                      # unit coords x D0
            ds = [int(x) for x in A @ sep_u]                        # supercell coords x (D0 |det S|)
            dr = [int(x) for x in np.array(ds) @ U]
            B = box_for(Gr, D, dr)
            if B is None:
                ctx.extra["skipped_overflow"] = ctx.extra.get("skipped_overflow", 0) + 1
                continue
            rec = {}
            exact = True
            for dense in (True, False):
                php, svecs, multi = tables[dense]
                if dense:
                    m, a = int(multi[k, i, 0]), int(multi[k, i, 1])
                    v = svecs[a:a + m]
                else:
                    m = int(multi[k, i])
                    v = svecs[k, i, :m]
                cart = v @ php.primitive.cell                      # primitive coordinates -> Cartesian
                vu, res = xtal.project_to_unit(cart, orc.L, D0)
                exact = exact and res < 1e-6
                rec[dense] = ([[int(x) for x in A @ w] for w in vu], m)
            events.append(dict(kind="impl", G=Gr, U=U.tolist(), Gs=Gs.tolist(), D=D, ds=ds, B=B,
                               dense=rec[True][0], denseMulti=rec[True][1], sparse=rec[False][0],
                               sparseMulti=rec[False][1], exact=bool(exact), addrOK=True, convertOK=True))
            ctx.count(("phonopy", entry, str(S), str(P), k, i))
            if loose:
                recl = {}
                exl = True
                for dense in (True, False):
                    php, svecs, multi = loose[dense]
                    if dense:
                        m, a = int(multi[k, i, 0]), int(multi[k, i, 1])
                        v = svecs[a:a + m]
                    else:
                        m = int(multi[k, i])
                        v = svecs[k, i, :m]
                    vu, res = xtal.project_to_unit(v @ ideal_pcell, orc.L, D0)
                    exl = exl and res < 1e-6
                    recl[dense] = ([[int(x) for x in A @ w] for w in vu], m)
                events.append(dict(kind="impl", G=Gr, U=U.tolist(), Gs=Gs.tolist(), D=D, ds=ds, B=B,
                                   dense=recl[True][0], denseMulti=recl[True][1], sparse=recl[False][0],
                                   sparseMulti=recl[False][1], exact=bool(exl), addrOK=True, convertOK=True))
                ctx.count(("phonopy-loose", entry, str(S), str(P), k, i))
                n_loose += 1
    ctx.extra["phonopy_primitive_pairs"] = len(events)
    ctx.extra["phonopy_loose_tolerance_pairs"] = n_loose
    return events


def model_cases(ctx):
    K, D = (3, 2) if ctx.quick else (5, 4)
    forms = reduced_forms(K) + [G for G in SPECIAL_FORMS if niggli(G)]
    h = D // 2
    cases = []
    for G in forms:
        for d in itertools.product(range(-h, h + 1), repeat=3):
            B = box_for(G, D, list(d))
            if B is None:
                continue
            cases.append(dict(kind="model", G=G, D=D, d=list(d), B=B))
    ctx.extra["model_forms"] = len(forms)
    return cases


CFG = """SPECIFICATION Spec
CONSTANTS
 Cases <- MCCases
CHECK_DEADLOCK FALSE
INVARIANT InvBoxSound
INVARIANT InvCaseWellFormed
INVARIANT Window65Complete
INVARIANT ImplDenseIsMinSet
INVARIANT ImplDenseNoDup
INVARIANT ImplDenseMulti
INVARIANT ImplSparseIsMinSet
INVARIANT ImplSparseNoDup
INVARIANT ImplSparseMulti
INVARIANT ImplAreImages
INVARIANT ImplAddressOK
INVARIANT ImplTolWithin
INVARIANT ImplTolComplete
INVARIANT ImplTolNoDup
INVARIANT ImplTolMulti
INVARIANT ImplTolSame
"""


def run_batch(ctx, cases, tag):
    mc = "---- MODULE MC_ShortestVectors ----\nEXTENDS ShortestVectors\nMCCases == {%s}\n====\n" % \
         ",\n".join(to_tla(c) for c in cases)
    res = ctx.tlc("MC_ShortestVectors", cfg_text=CFG, extra_files={"MC_ShortestVectors.tla": mc},
                  requirement=False, extra_args=("-continue",), keep=True)
    for name, tr in res.violations:
        e = tr[-1][1].get("ev", {}) if tr else {}
        if name.startswith("InvBox") or name.startswith("InvCase"):
            tlcmod.cleanup(res)
            raise tlcmod.MachineryError("case generator unsound: %s on %s" % (name, e))
        wit = {k: e.get(k) for k in ("kind", "G", "U", "Gs", "D", "d", "ds", "dense", "sparse", "denseMulti", "sparseMulti", "lat", "tolE", "scale", "nmust", "within", "complete", "nodup", "multi", "same")}
        if name == "Window65Complete":
            ctx.violation("model:Window65Complete",
                          "the 65-point window misses or adds a minimum image for a Niggli-reduced lattice",
                          dict(invariant=name, witness=wit, states=[s for _, s in tr][-1:]))
        else:
            ctx.violation("impl:" + name, "shortest-vector table of the implementation violates %s" % name,
                          dict(invariant=name, witness=wit))
    tlcmod.cleanup(res)


def run(ctx):
    ctx.rule = ("model case = (Niggli-reduced integer Gram form, separation on the 1/D grid); impl case = one "
                "(lattice U G U^T, atom pair) with dense and sparse tables recorded from get_smallest_vectors; "
                "distinct by (form, separation)")
    ev = impl_events(ctx) + phonopy_events(ctx)
    tev = tol_events(ctx)
    ctx.traces += len(ev)
    mc = model_cases(ctx)
    for c in mc:
        ctx.count(("model", tuple(map(tuple, c["G"])), c["D"], tuple(c["d"])))
    ctx.extra["impl_pairs"] = len(ev)
    ctx.extra["model_cases"] = len(mc)
    ctx.extra["max_multiplicity_seen"] = max([e["denseMulti"] for e in ev] or [0])
    if ev:
        ctx.sample(ev[0])
        ctx.sample(max(ev, key=lambda e: e["denseMulti"]))
    if mc:
        ctx.sample(mc[len(mc) // 2])
    if ev:
        import copy
        bad = copy.deepcopy(next(e for e in ev if e["denseMulti"] >= 1))
        bad["dense"][0][0] += bad["D"]          # still an image of the separation, but not a shortest one
        ctx.binding_demo("dense vector replaced by a longer image", "MC_ShortestVectors", CFG,
                         "---- MODULE MC_ShortestVectors ----\nEXTENDS ShortestVectors\nMCCases == {%s}\n====\n" % to_tla(bad),
                         "ImplDenseIsMinSet")
    allc = ev + mc + tev
    ctx.traces += len(tev)
    chunk = 6000
    for i in range(0, len(allc), chunk):
        run_batch(ctx, allc[i:i + chunk], i)
    ctx.assumptions.append("Window completeness is established for Niggli-reduced integer forms with diagonal <= %d "
                           "on the 1/%d grid only (bounded), and on every lattice met in the impl cases"
                           % ((3, 2) if ctx.quick else (5, 4)))
