"""X03 (extra) - dynamic structure factor and phonon state moments.

Specification: spec/DSF.tla (+DSFFold, DSFTrace), spec/Moment.tla, spec/MomentApi.tla.

 (a) DSF.  TLC: the fold of Q into the first zone is exact and shortest for the catalogue metrics
     (DSFFold, integers); the option machine of init/run_dynamic_structure_factor against the
     requirement over all configurations (DSF).  Real code (harness/x03_driver.py, both builds):
     every configuration TLC enumerates is run on oracle crystals; the reported S(Q, nu) is compared with
     the definition evaluated on the real eigenvectors of the supercell force constants and with
     the formula in 16 readings; TLC evaluates the requirement on the logged observations
     (DSFTrace: status, formula, cutoff, definition, exact fold) and reports the conforming variant.
 (b) Moments.  TLC: PhononMoment's loops against the definition in exact rationals over all small
     integer tables (Moment), with M_0 = 1, bounds, Cauchy-Schwarz, weight = multiplicity; the
     tables are replayed on the real class (exact comparison).  run_moment / get_moment sessions
     (MomentApi) on real Phonopy objects: definition on the full mesh from the oracle, mesh
     symmetry on/off, windows, projected variant, staleness.
"""
from __future__ import annotations

import json
import os
import subprocess
import sys
from concurrent.futures import ThreadPoolExecutor

import numpy as np

from harness import tlc as tlcmod
from harness import tla_values

VERIF = tlcmod.VERIF
GRAMS = dict(cubic="<<<<1,0,0>>,<<0,1,0>>,<<0,0,1>>>>", tetragonal="<<<<4,0,0>>,<<0,4,0>>,<<0,0,5>>>>",
             hexagonal="<<<<2,-1,0>>,<<-1,2,0>>,<<0,0,5>>>>", triclinic="<<<<4,1,1>>,<<1,5,2>>,<<1,2,6>>>>")


def printed(stdout, tag):
    out = []
    head = '"<<\\"%s\\"' % tag
    for line in stdout.splitlines():
        if line.startswith(head):
            out.append(tla_values.parse_value(json.loads(line)))
    return out


def account(ctx, module, res, note):
    ctx.states += res.distinct
    ctx.transitions += res.generated
    ctx.tlc_runs.append(dict(module=module, cfg=note, **res.summary(), coverage=None))


def unfreeze(x):
    if isinstance(x, dict):
        return {k: unfreeze(v) for k, v in x.items()}
    if isinstance(x, (list, tuple)):
        return [unfreeze(v) for v in x]
    return x


# ---------------------------------------------------------------------------------------
MOM_INV = ["MachineIsDefinition", "MomentZeroIsOne", "Bounds", "CauchySchwarz", "WeightIsMultiplicity"]


def mc_moment(tables, windows, invs, orders="{0,1,2}"):
    mc = ("---- MODULE MC_Moment ----\nEXTENDS Moment\nFRows == {<<1,2,3>>, <<1,1,2>>, <<2,3,3>>, <<3,1,2>>}\nPRows == {<<<<1,0,0>>,<<0,1,4>>,<<1,1,1>>>>, <<<<0,1,4>>,<<1,0,0>>,<<4,1,0>>>>, <<<<1,1,1>>,<<1,4,0>>,<<0,0,1>>>>, <<<<4,0,1>>,<<0,1,1>>,<<1,1,0>>>>}\nMCT == %s\nMCW == %s\n====\n"
          % (tables, windows))
    cfg = ("INIT Init\nNEXT Next\nCONSTANTS\n Tables <- MCT\n Orders = %s\n Windows <- MCW\nCHECK_DEADLOCK FALSE\n" % orders
           + "".join("INVARIANT %s\n" % i for i in invs))
    return mc, cfg


def moment_model(ctx):
    """Moment.tla exhaustively; a sampled table for the replay on the real class."""
    lo = "-1..3"
    plain = "{[f |-> ff, w |-> ww, p |-> <<>>] : ff \\in [1..2 -> [1..2 -> %s]], ww \\in [1..2 -> 1..2]}" % lo
    wins = "{<<NoLo,NoHi>>,<<0,NoHi>>,<<NoLo,2>>,<<1,2>>,<<2,NoHi>>,<<-1,1>>}"
    mc, cfg = mc_moment(plain, wins, MOM_INV)
    ctx.tlc("MC_Moment", cfg_text=cfg, extra_files={"MC_Moment.tla": mc}, requirement=True, workers=6,
            what="PhononMoment loops differ from the definition / a consequence of the definition fails")
    wsets = "{<<1,2>>,<<2,1>>,<<1,1>>,<<3,1>>}"
    # projected: PhononMoment needs as many components as bands (3 N x 3 N eigenvector matrices)
    proj = ("{[f |-> ff, w |-> ww, p |-> pp] : ff \\in [1..2 -> FRows], ww \\in %s, pp \\in [1..2 -> PRows]}" % wsets)
    mc, cfg = mc_moment(proj, "{<<NoLo,NoHi>>,<<2,NoHi>>}", MOM_INV)
    ctx.tlc("MC_Moment", cfg_text=cfg, extra_files={"MC_Moment.tla": mc}, requirement=True, workers=6,
            what="projected PhononMoment loops differ from the definition")
    # not a theorem: a projected moment on one representative of a star differs from the one on the star
    star = "{[f |-> <<ff>>, w |-> <<2>>, p |-> <<pp>>] : ff \\in FRows, pp \\in PRows}"
    mc, cfg = mc_moment(star, "{<<NoLo,NoHi>>}", ["ProjectedReducible"])
    res = ctx.tlc("MC_Moment", cfg_text=cfg, extra_files={"MC_Moment.tla": mc}, requirement=False, workers=2)
    if res.violated != "ProjectedReducible":
        raise tlcmod.MachineryError("x03: TLC found no table whose projected moment changes under symmetry reduction")
    st = res.trace[-1][1]
    ctx.extra["projected_moment_not_reducible_counterexample"] = dict(table=unfreeze(st.get("tab")), order=st.get("ord"))
    # replay table: a seed-dependent slice of both spaces
    k = ctx.seed % 5
    emit_plain = ("{t \\in %s : (t.f[1][1] + 2 * t.f[1][2] + 3 * t.f[2][1] + 5 * t.f[2][2] + t.w[1]) %% 5 = %d}" % (plain, k))
    emit_proj = ("{t \\in %s : (t.f[1][1] + 2 * t.f[1][2] + 3 * t.f[2][1] + 5 * t.f[2][2] + t.p[1][1][1] + t.p[2][2][2] + t.p[1][2][3] + t.w[1]) %% 3 = %d}"
                 % (proj, k % 3))
    rows = []
    for tabs, ws in ((emit_plain, wins), (emit_proj, "{<<NoLo,NoHi>>,<<2,NoHi>>,<<1,2>>}")):
        mc, cfg = mc_moment(tabs, ws, ["Emit", "MachineIsDefinition"])
        res = ctx.tlc("MC_Moment", cfg_text=cfg, extra_files={"MC_Moment.tla": mc}, requirement=True, workers=4)
        rows += printed(res.stdout, "MOM")
    return rows


def moment_replay(ctx, rows):
    """TLC's table on the real PhononMoment: exact rationals against the floats."""
    from harness import bootstrap  # noqa: F401
    from phonopy.phonon.moment import PhononMoment

    n = 0
    for _, tab, order, win, result in rows:
        fr = np.array(tab["f"], dtype=float)
        w = np.array(tab["w"], dtype=int)
        ev = None
        if tab["p"]:
            p = np.array(tab["p"], dtype=float)              # (q, band, comp)
            ev = np.sqrt(p).transpose(0, 2, 1).astype(complex) * (1j ** np.arange(p.shape[1]))[None, None, :]
        lo = None if win[0] == -99 else float(win[0])
        hi = None if win[1] == 99 else float(win[1])
        got = None
        try:
            with np.errstate(all="ignore"):
                pm = PhononMoment(fr, w, eigenvectors=ev)
                if lo is not None or hi is not None:
                    pm.set_frequency_range(freq_min=lo, freq_max=hi)
                pm.run(order=order)
                got = np.atleast_1d(np.array(pm.moment, dtype=float))
        except ZeroDivisionError:
            got = np.array([np.nan] * len(result))
        want = np.array([np.nan if r[1] == 0 else r[0] / r[1] for r in result])
        n += 1
        ctx.count(("momtab", json.dumps(unfreeze(tab)), order, tuple(win)))
        ok = got.shape == want.shape and all((np.isnan(a) and np.isnan(b)) or abs(a - b) <= 1e-13 * max(1.0, abs(b))
                                             for a, b in zip(got, want))
        if not ok:
            ctx.violation("moment:replay", "PhononMoment differs from the exact rational moment of Moment.tla",
                          dict(table=unfreeze(tab), order=order, window=list(win), expected=[list(r) for r in result], got=got.tolist()))
    ctx.traces += n
    ctx.extra["moment_tables_replayed"] = n
    if n < 200:
        raise tlcmod.MachineryError("x03: only %d moment tables emitted" % n)


# ---------------------------------------------------------------------------------------
def dsf_model(ctx):
    mc = "---- MODULE MC_DSF ----\nEXTENDS DSF\nMCC == AllCfgs\nMCCodes == {[phaseConj |-> TRUE]}\n====\n"
    cfg = ("INIT Init\nNEXT Next\nCONSTANTS\n Cfgs <- MCC\n Codes <- MCCodes\nCHECK_DEADLOCK FALSE\nINVARIANT Emit\nINVARIANT InvRequirement\n")
    res = ctx.tlc("MC_DSF", cfg_text=cfg, extra_files={"MC_DSF.tla": mc}, requirement=True, workers=2, coverage=True)
    cfgs = [unfreeze(v[1]) for v in printed(res.stdout, "DSFCFG")]
    mc = mc.replace("[phaseConj |-> TRUE]", "[phaseConj |-> FALSE]")
    stale = tlcmod.run("MC_DSF", cfg_text=cfg.replace("INVARIANT Emit\n", ""), extra_files={"MC_DSF.tla": mc}, workers=2)
    account(ctx, "MC_DSF", stale, "(generated) Codes={phaseConj=FALSE}")
    tlcmod.cleanup(stale)
    if stale.violated != "InvRequirement" or len(cfgs) != 32:
        raise tlcmod.MachineryError("x03: DSF model: %d configurations, unconjugated variant violates %s" % (len(cfgs), stale.violated))
    return cfgs


def fold_model(ctx):
    rng = "-4..7" if ctx.quick else "-9..9"

    def one(item):
        name, gram = item
        mc = "---- MODULE MC_DSFFold ----\nEXTENDS DSFFold\nMCM == Adj(%s)\nMCQ == %s\nMCCfg == {}\n====\n" % (gram, rng)
        cfg = ("INIT Init2\nNEXT Next2\nCONSTANTS\n Cfgs <- MCCfg\n Codes <- MCCfg\n Metric <- MCM\n Den = 6\n QRange <- MCQ\n"
               "CHECK_DEADLOCK FALSE\nINVARIANT FoldIsShortest\n")
        r = tlcmod.run("MC_DSFFold", cfg_text=cfg, extra_files={"MC_DSFFold.tla": mc}, workers=3)
        tlcmod.cleanup(r)
        return name, r

    with ThreadPoolExecutor(max_workers=4) as ex:
        for name, r in ex.map(one, GRAMS.items()):
            account(ctx, "MC_DSFFold", r, "(generated) metric=%s Q in (%s)^3/6" % (name, rng))
            if r.violated:
                st = r.trace[-1][1] if r.trace else {}
                ctx.violation("tlc:DSFFold:FoldIsShortest:" + name, "TLC: the 27-neighbour fold is not shortest for the %s metric" % name,
                              dict(Qn=st.get("Qn"), qn=st.get("qn")))


def mc_api(codes, emit):
    mc = "---- MODULE MC_MomentApi ----\nEXTENDS MomentApi\nMCS == AllSessions\nMCC == %s\n====\n" % codes
    cfg = ("INIT Init\nNEXT Next\nCONSTANTS\n Sessions <- MCS\n Codes <- MCC\n EventFile = \"none\"\nCHECK_DEADLOCK FALSE\n"
           + ("INVARIANT Emit\n" if emit else "") + "INVARIANT InvRequirement\nINVARIANT InvNeverStale\nINVARIANT InvProjectedDefined\n")
    return mc, cfg


def api_model(ctx):
    mc, cfg = mc_api("{[projRaise |-> TRUE, symGuard |-> TRUE]}", True)
    res = ctx.tlc("MC_MomentApi", cfg_text=cfg, extra_files={"MC_MomentApi.tla": mc}, requirement=True, workers=2, coverage=True)
    sess = []
    seen = set()
    for _, s in printed(res.stdout, "SES"):
        s = unfreeze(s)
        key = json.dumps(s, sort_keys=True)
        if key not in seen:
            seen.add(key)
            sess.append(s)
    mc, cfg = mc_api("{[projRaise |-> FALSE, symGuard |-> FALSE]}", False)
    pinned = tlcmod.run("MC_MomentApi", cfg_text=cfg, extra_files={"MC_MomentApi.tla": mc}, workers=2, extra_args=("-continue",))
    account(ctx, "MC_MomentApi", pinned, "(generated) Codes={projRaise=FALSE, symGuard=FALSE}")
    tlcmod.cleanup(pinned)
    names = sorted(set(n for n, _ in pinned.violations))
    ctx.extra["moment_api_machine_without_guards_violates"] = names
    if len(sess) != 288 or not names:
        raise tlcmod.MachineryError("x03: MomentApi: %d sessions emitted, unguarded machine violates %s" % (len(sess), names))
    return sess, pinned


# ---------------------------------------------------------------------------------------
def make_plan(ctx, cfgs, sessions):
    ents = ["tric", "tetab", "cscl"] if ctx.quick else ["tric", "tetab", "cscl", "wz"]
    dsf = []
    cfgs = sorted(cfgs, key=lambda c: json.dumps(c, sort_keys=True))
    k = 0
    for c in cfgs:
        for en in ents:
            k += 1
            heavy = c["mesh"] == "full_ev"
            reps = 1 if (ctx.quick or not heavy) else 3
            for r in range(reps):
                fmin = 1e6 if not c["anymode"] else [1e-3, 2.0, None][(k + r + ctx.seed) % 3]
                if fmin is None and True:
                    fmin = 1e-3 if heavy else None
                dsf.append(dict(entry=en, cfg=c, T=[300.0, 40.0][(k + r) % 2], fmin=fmin, fmax=[None, 9.0][(k // 2 + r) % 2],
                                qkinds=["comm", "comm", "generic", "boundary", "zero"] if heavy else ["comm", "generic"]))
    mom = []
    ments = ["cscl", "tetab", "wz"]
    sessions = sorted(sessions, key=lambda s: json.dumps(s, sort_keys=True))
    for k, s in enumerate(sessions):
        combos = [(ments[(k + ctx.seed) % 3], bool((k // 3) % 2))] if ctx.quick else [(e, g) for e in ments for g in (False, True)]
        for en, gc in combos:
            mom.append(dict(entry=en, gc=gc, ses=s))
    return dsf, mom


def run_drivers(ctx, dsf, mom, rundir):
    procs = []
    for n, var in enumerate(("omp", "serial")):
        plan = os.path.join(rundir, "plan_%s.json" % var)
        with open(plan, "w") as f:
            json.dump(dict(seed=ctx.seed, id_base=n * 1000000, dsf=dsf, moment=mom), f)
        out = os.path.join(rundir, "events_%s.json" % var)
        env = dict(os.environ, VERIF_EXT_VARIANT=var, OMP_NUM_THREADS="2", OMP_WAIT_POLICY="PASSIVE", PYTHONWARNINGS="ignore",
                   PYTHONDONTWRITEBYTECODE="1")
        p = subprocess.Popen([sys.executable, "-m", "harness.x03_driver", plan, out], cwd=VERIF, env=env,
                             stdout=subprocess.PIPE, stderr=subprocess.STDOUT)
        procs.append((var, p, out))
    return procs


def collect(procs):
    dsf, mom, info = [], [], {}
    for var, p, out in procs:
        so, _ = p.communicate(timeout=6000)
        if p.returncode != 0:
            raise tlcmod.MachineryError("x03 driver (%s build) failed:\n%s" % (var, so.decode(errors="replace")[-3000:]))
        with open(out) as f:
            d = json.load(f)
        if d["omp"] != (var == "omp"):
            raise tlcmod.MachineryError("x03 driver: build %s reports use_openmp()=%s" % (var, d["omp"]))
        for e in d["dsf"] + d["moment"]:
            e["omp"] = d["omp"]
        info[var] = dict(dsf_events=len(d["dsf"]), moment_sessions=len(d["moment"]), wall_s=round(d["wall"], 1))
        dsf += d["dsf"]
        mom += d["moment"]
    return dsf, mom, info


def trace_run(module, cfg_text, events, to_json, constants):
    rundir = tlcmod.new_rundir(module)
    path = os.path.join(rundir, "events.ndjson")
    with open(path, "w") as f:
        for e in events:
            f.write(json.dumps(to_json(e)) + "\n")
    mc = "---- MODULE MC_%s ----\nEXTENDS %s\n%sMCEventFile == \"%s\"\n====\n" % (module, module, constants, path)
    res = tlcmod.run("MC_" + module, cfg_text=cfg_text, extra_files={"MC_%s.tla" % module: mc}, extra_args=("-continue",),
                     workers=4, rundir=rundir, keep=True)
    tlcmod.cleanup(res)
    return res


def dsf_validate(ctx, events):
    cfg_text = ("INIT TInit\nNEXT TNext\nCONSTANTS\n Cfgs <- MCE\n Codes <- MCE\n EventFile <- MCEventFile\nCHECK_DEADLOCK FALSE\n"
                "INVARIANT ReportReq\nINVARIANT Report\nINVARIANT ImplStatus\nINVARIANT ImplFormula\nINVARIANT ImplCutoff\n"
                "INVARIANT ImplDefinition\nINVARIANT ImplFolded\n")
    res = trace_run("DSFTrace", cfg_text, events,
                    lambda e: dict(id=e["id"], cfg=e["cfg"], metric=e["metric"], den=e["den"], Qn=e["Qn"], qn=e["qn"],
                                   exact=e["exact"], out=e["out"]), "MCE == {}\n")
    account(ctx, "MC_DSFTrace", res, "(generated, %d events)" % len(events))
    byid = {e["id"]: e for e in events}
    failed, conf = {}, {}
    for _, eid, names in printed(res.stdout, "Q"):
        failed[eid] = sorted(names)
    for _, eid, pc, ok in printed(res.stdout, "R"):
        conf.setdefault(eid, {})[bool(pc)] = bool(ok)
    if set(failed) != set(byid) or set(conf) != set(byid):
        raise tlcmod.MachineryError("x03: TLC reported on %d/%d of %d DSF events" % (len(failed), len(conf), len(events)))
    if set("Impl" + n for v in failed.values() for n in v) != set(n for n, _ in res.violations if n.startswith("Impl")):
        raise tlcmod.MachineryError("x03: DSF invariant verdicts differ from the per-event report")
    groups = {}
    for eid, names in failed.items():
        for n in names:
            groups.setdefault("dsf:%s" % n, []).append(eid)
    for key, ids in sorted(groups.items()):
        wit = [dict(crystal=byid[i]["entry"], openmp_build=byid[i]["omp"], cfg=byid[i]["cfg"], Q=[x / byid[i]["den"] for x in byid[i]["Qn"]],
                    q_reported=[x / byid[i]["den"] for x in byid[i]["qn"]], T=byid[i]["T"], freq_min=byid[i]["fmin"], freq_max=byid[i]["fmax"],
                    observed=byid[i]["out"], exception=byid[i]["exc"], definition_rel_err=byid[i].get("bf_err")) for i in ids[:3]]
        ctx.violation(key, "requirement %s of DSF.tla fails on what DynamicStructureFactor reported (%d events; crystals %s)"
                      % (key.split(":")[1], len(ids), sorted(set(byid[i]["entry"] for i in ids))), dict(events=len(ids), witnesses=wit))
    worst = max([e.get("err") or 0.0 for e in events] + [0.0])
    ctx.extra["dsf"] = dict(events=len(events), with_definition_check=sum(1 for e in events if e["out"]["bf"] != "na"),
                            violating=sum(1 for v in failed.values() if v), formula_error_over_tolerance=worst / 1e-8)
    if worst / 1e-8 > 1e-3:
        raise tlcmod.MachineryError("x03: DSF projection margin exhausted: %g" % worst)
    okv = [v for v in (True, False) if all(conf[i].get(v, False) for i in conf)]
    distinguished = any(conf[i].get(True) != conf[i].get(False) for i in conf)
    ctx.extra["dsf"]["conforms_to_phaseConj"] = okv
    if not distinguished and not ctx.violations:
        raise tlcmod.MachineryError("x03: no DSF event distinguishes the conjugated from the unconjugated phase")
    if okv == [False]:
        ctx.violation("tlc:DSF:InvRequirement", "TLC: the variant of the DSF machine this tree conforms to (eigenvector not conjugated "
                      "against exp(+iG.x)) violates the requirement", dict(variant="phaseConj = FALSE"))
    elif not okv and not ctx.violations:
        ctx.violation("conformance:dsf-no-variant", "DSF observations are not those of any variant of the machine",
                      dict(sample=[byid[i]["out"] for i in conf if not any(conf[i].values())][:3]))
    for e in events[:: max(1, len(events) // 2)][:2]:
        ctx.sample(dict(dsf_event={k: e[k] for k in ("entry", "cfg", "Qn", "qn", "T", "fmin", "fmax", "out")}))


def moment_validate(ctx, events, pinned):
    cfg_text = ("INIT TInit\nNEXT Next\nCONSTANTS\n Sessions <- MCE\n Codes <- MCE\n EventFile <- MCEventFile\nCHECK_DEADLOCK FALSE\n"
                "INVARIANT ReportReq\nINVARIANT Report\nINVARIANT ImplRequirement\n")
    res = trace_run("MomentApi", cfg_text, events,
                    lambda e: dict(id=e["id"], ses=e["ses"], obs=[{k: o[k] for k in ("status", "eqdef", "one", "stale")} for o in e["obs"]]),
                    "MCE == {}\n")
    account(ctx, "MC_MomentApi", res, "(generated, %d sessions)" % len(events))
    byid = {e["id"]: e for e in events}
    failed, conf = {}, {}
    for _, eid, js in printed(res.stdout, "Q"):
        failed[eid] = sorted(js)
    for _, eid, a, b, ok in printed(res.stdout, "R"):
        conf.setdefault(eid, {})[(bool(a), bool(b))] = bool(ok)
    if set(failed) != set(byid) or set(conf) != set(byid):
        raise tlcmod.MachineryError("x03: TLC reported on %d/%d of %d moment sessions" % (len(failed), len(conf), len(events)))
    groups = {}
    for eid, js in failed.items():
        e = byid[eid]
        for j in js:
            q, o, m = e["ses"]["reqs"][j - 1], e["obs"][j - 1], e["ses"]["mesh"]
            if q["proj"] and not m["ev"]:
                cls = "projected-without-eigenvectors"
            elif q["proj"] and m["sym"]:
                cls = "projected-on-symmetry-reduced-mesh"
            elif o.get("one") == "no":
                cls = "order0-not-one"
            else:
                cls = "definition" + ("/mesh-symmetry" if m["sym"] else "")
            groups.setdefault("moment:%s" % cls, []).append((eid, j))
    for key, items in sorted(groups.items()):
        wit = [dict(crystal=byid[i]["entry"], openmp_build=byid[i]["omp"], mesh=byid[i]["ses"]["mesh"], is_gamma_center=byid[i]["gc"],
                    requests=byid[i]["ses"]["reqs"], failing_request=j, observed=byid[i]["obs"], window_values=byid[i]["window"])
               for i, j in items[:3]]
        ctx.violation(key, "run_moment/get_moment does not meet the requirement of MomentApi.tla: %s (%d sessions)"
                      % (key.split(":")[1], len(set(i for i, _ in items))), dict(sessions=len(set(i for i, _ in items)), witnesses=wit))
    ctx.extra["moment_api"] = dict(sessions=len(events), violating=sum(1 for v in failed.values() if v))
    allv = [(a, b) for a in (True, False) for b in (True, False)]
    okv = [v for v in allv if all(conf[i].get(v, False) for i in conf)]
    ctx.extra["moment_api"]["conforms_to_projRaise_symGuard"] = okv
    if not okv and not ctx.violations:
        ctx.violation("conformance:moment-no-variant", "moment sessions are not those of any variant of the machine",
                      dict(sample=[dict(ses=byid[i]["ses"], obs=byid[i]["obs"]) for i in conf if not any(conf[i].values())][:3]))
    if okv and (True, True) not in okv:
        # model-check the variant this tree implements; the two sites are independent
        a, b = okv[0]
        mc, cfg = mc_api("{[projRaise |-> %s, symGuard |-> %s]}" % ("TRUE" if a else "FALSE", "TRUE" if b else "FALSE"), False)
        res = ctx.tlc("MC_MomentApi", cfg_text=cfg, extra_files={"MC_MomentApi.tla": mc}, requirement=False, workers=2,
                      extra_args=("-continue",))
        for name in sorted(set(n for n, _ in res.violations)):
            tr = [t for n, t in res.violations if n == name][0]
            st = tr[-1][1] if tr else {}
            detail = dict(variant=dict(projRaise=a, symGuard=b), invariant=name, session=unfreeze(st.get("ses")), reported=unfreeze(st.get("obs")))
            if name == "InvProjectedDefined":
                # a projected moment is reported for a symmetry-reduced mesh (X03-D3): same class as the Impl verdict
                ctx.violation("moment:projected-on-symmetry-reduced-mesh",
                              "TLC: run_moment computes projected moments on a symmetry-reduced mesh (MomentApi.tla, InvProjectedDefined)", detail)
            else:
                ctx.violation("tlc:MomentApi:" + name, "TLC: the variant of the run_moment machine this tree conforms to violates " + name, detail)
    ctx.sample(dict(moment_session=events[len(events) // 3]))


def run(ctx):
    ctx.rule = ("DSF: one case = one (configuration of mesh state x form-factor source x cutoff, crystal, Q-point) of a real "
                "run_dynamic_structure_factor call; moments: one case = one integer table replayed on PhononMoment, and one "
                "run_mesh/run_moment/get_moment session (mesh symmetry, eigenvectors, projection, order, window) on a crystal")
    ctx.assumptions += [
        "for Q not commensurate with the supercell the eigen-solutions the formula is evaluated on come from get_dynamical_matrix_at_q + numpy (C02 owns D(q))",
        "thermal displacements in the Debye-Waller factor: definition on the supercell modes, Bose-Einstein occupation",
        "form-factor function and scattering lengths are the documented example values for Na/Cl",
        "primitive cell = unit cell",
    ]
    cfgs = dsf_model(ctx)
    sessions, pinned = api_model(ctx)
    dsf_plan, mom_plan = make_plan(ctx, cfgs, sessions)
    rundir = tlcmod.new_rundir("x03drv")
    procs = run_drivers(ctx, dsf_plan, mom_plan, rundir)
    try:
        fold_model(ctx)
        rows = moment_model(ctx)
        moment_replay(ctx, rows)
        dsf_events, mom_events, info = collect(procs)
    finally:
        for _, p, _ in procs:
            if p.poll() is None:
                p.kill()
        import shutil
        shutil.rmtree(rundir, ignore_errors=True)
    ctx.extra["drivers"] = info
    ctx.traces += len(dsf_events) + len(mom_events)
    for e in dsf_events:
        ctx.count(("dsf", e["entry"], e["omp"], json.dumps(e["cfg"], sort_keys=True), tuple(e["Qn"])))
    for e in mom_events:
        ctx.count(("mom", e["entry"], e["omp"], e["gc"], json.dumps(e["ses"], sort_keys=True)))
    dsf_validate(ctx, dsf_events)
    moment_validate(ctx, mom_events, pinned)
