"""C19 - thermal and random displacements follow harmonic canonical statistics.

Specs: spec/RandomDisp.tla (sampling structure as a step machine + requirement),
spec/RandomDispTrace.tla (conformance of the real code, exact and real-valued parts),
spec/ThermalDisp.tla (+Trace) (mean-square displacement matrices).
Real-valued primitives are interpreted by harness/c19_num.py.  DESIGN.md section 5/C19.
"""
from __future__ import annotations

import contextlib
import io
import random
import warnings

import numpy as np

from harness import bootstrap  # noqa: F401
from harness import c19_num as num
from harness import tlc as tlcmod
from harness.oracle import Oracle
from harness.tla_values import to_tla

from phonopy import Phonopy
from phonopy.harmonic.dynmat_to_fc import categorize_commensurate_points, get_commensurate_points_in_integers
from phonopy.phonon.random_displacements import RandomDisplacements
from phonopy.structure.snf import SNF3x3

TOL = 1000          # units of 1e-12: 1e-9 relative (observed on the unchanged tree: <= 1e-14)
CAP = 10 ** 9


def det3(m):
    m = [[int(x) for x in r] for r in m]
    return (m[0][0] * (m[1][1] * m[2][2] - m[1][2] * m[2][1]) - m[0][1] * (m[1][0] * m[2][2] - m[1][2] * m[2][0])
            + m[0][2] * (m[1][0] * m[2][1] - m[1][1] * m[2][0]))


def units(err):
    """relative deviation -> integer multiple of 1e-12 (capped; nan/inf -> cap)."""
    if err is None:
        return 0
    if not np.isfinite(err):
        return CAP
    return int(min(CAP, np.ceil(err / 1e-12)))


# ---------------------------------------------------------------------------
# exact part: commensurate points and their categorisation
# ---------------------------------------------------------------------------
def hnf_matrices(nmax):
    """every sublattice of Z^3 of index <= nmax, once, as the column-style Hermite normal form."""
    out = []
    for n in range(1, nmax + 1):
        for a in range(1, n + 1):
            if n % a:
                continue
            for c in range(1, n // a + 1):
                if (n // a) % c:
                    continue
                f = n // a // c
                for b in range(c):
                    for d in range(f):
                        for e in range(f):
                            out.append([[a, 0, 0], [b, c, 0], [d, e, f]])
    return out


UNIS = [
    [[1, 0, 0], [0, 1, 0], [0, 0, 1]], [[0, 1, 0], [0, 0, 1], [1, 0, 0]], [[1, 1, 0], [0, 1, 0], [0, 0, 1]],
    [[1, 0, 0], [-1, 1, 0], [1, 0, 1]], [[0, -1, 0], [1, 0, 0], [0, 0, 1]], [[1, 1, 1], [0, 1, 1], [0, 0, 1]],
    [[-1, 0, 0], [0, 1, 0], [0, 0, 1]], [[2, 1, 0], [1, 1, 0], [0, 0, 1]], [[1, 0, -1], [0, 1, 1], [1, 0, 0]],
    [[0, 1, 1], [1, 0, 1], [1, 1, 1]],
]


def run_snf_T(S):
    snf = SNF3x3(np.array(S, dtype=int).T)
    snf.run()
    return dict(P=np.array(snf.P).astype(int).tolist(), Q=np.array(snf.Q).astype(int).tolist(),
                D=np.array(snf.D).astype(int).tolist())


NO_NUM = dict(cov=0, lin=0, uu=0, uuinv=0, d2f=0, api=0, rank=0, freq=0, nint=0)
BAD_SNF = dict(P=[[1, 0, 0], [0, 1, 0], [0, 0, 1]], Q=[[1, 0, 0], [0, 1, 0], [0, 0, 1]], D=[[0, 0, 0]] * 3)


def points_event(S):
    S = [[int(x) for x in r] for r in S]
    ev = dict(kind="points", S=S, np=1, snf=BAD_SNF, pts=[], ii=[], ij=[], status="failed", dof=0, collect=[],
              num=dict(NO_NUM), label="")
    try:
        ev["snf"] = run_snf_T(S)
        pts = get_commensurate_points_in_integers(np.array(S))
        ii, ij = categorize_commensurate_points(pts)
        ev.update(pts=[[int(x) for x in p] for p in pts], ii=[int(i) + 1 for i in ii], ij=[int(i) + 1 for i in ij],
                  status="built")
    except Exception as e:  # the code refuses: recorded, judged by ImplAccepts
        ev["err"] = type(e).__name__
    return ev


def s_space(ctx):
    rng = random.Random(7 * ctx.seed + 1)      # own stream: parts are reproducible independently (--replay)
    nmax = 8 if ctx.quick else 12
    base = hnf_matrices(nmax)
    out = list(base)
    if ctx.quick:          # all sublattices of index <= 6, a seed-dependent half of index 7 and 8
        big = [m for m in base if det3(m) > 6]
        rng.shuffle(big)
        out = [m for m in base if det3(m) <= 6] + big[:len(big) // 2]
    nre = 120 if ctx.quick else 1500
    for _ in range(nre):
        H = np.array(rng.choice(base))
        U = np.array(rng.choice(UNIS))
        V = np.array(rng.choice(UNIS))
        M = (H @ U) if rng.random() < 0.5 else (V.T @ H @ U)
        if rng.random() < 0.1:
            M = -M
        if np.abs(M).max() <= 40 and abs(det3(M)) <= nmax:
            out.append(M.tolist())
    out += [[[1, 0, 0], [0, 1, 0], [1, 1, 0]], [[2, 4, 0], [1, 2, 0], [0, 0, 3]]]     # singular: must be refused
    seen = set()
    res = []
    for m in out:
        k = tuple(map(tuple, m))
        if k not in seen:
            seen.add(k)
            res.append([list(map(int, r)) for r in m])
    return res


# ---------------------------------------------------------------------------
# RandomDisplacements objects on oracle crystals
# ---------------------------------------------------------------------------
PINV = {None: [[1, 0, 0], [0, 1, 0], [0, 0, 1]],
        "F": [[-1, 1, 1], [1, -1, 1], [1, 1, -1]],
        "I": [[0, 1, 1], [1, 0, 1], [1, 1, 0]]}
PDIV = {None: 1, "F": 4, "I": 2}

D2 = [[2, 0, 0], [0, 2, 0], [0, 0, 2]]
# (entry, supercell matrix w.r.t. the unit cell, centring) - self-conjugate points only, conjugate
# pairs only (beside Gamma), both; non-diagonal; polar / P1 crystals (complex eigenvectors)
RD_CRYSTALS_QUICK = [
    ("sc", D2, None), ("sc", [[3, 0, 0], [0, 3, 0], [0, 0, 1]], None), ("sc", [[2, 1, 0], [0, 2, 0], [0, 0, 1]], None),
    ("sc", [[5, 0, 0], [0, 1, 0], [0, 0, 1]], None), ("sc", [[1, 1, 0], [-1, 1, 0], [0, 0, 4]], None),
    ("cscl", [[2, 0, 0], [0, 2, 0], [0, 0, 1]], None), ("cscl", [[3, 0, 0], [0, 1, 0], [0, 0, 2]], None),
    ("bcc", D2, "I"), ("bcc", [[1, 0, 0], [0, 1, 0], [0, 0, 3]], "I"),
    ("nacl", [[1, 0, 0], [0, 1, 0], [0, 0, 1]], "F"),
    ("tric", [[3, 0, 0], [0, 1, 0], [0, 0, 1]], None), ("tric", [[2, 1, 0], [0, 1, 0], [0, 0, 2]], None),
    ("tric", [[1, 1, 0], [-1, 2, 0], [0, 0, 2]], None),
    ("hcp", [[2, 1, 0], [1, 2, 0], [0, 0, 1]], None),
    ("tetab", [[1, 1, 0], [-1, 1, 0], [0, 0, 3]], None), ("tetab", [[2, 0, 0], [0, 2, 0], [0, 0, 1]], None),
]
RD_CRYSTALS_MORE = [
    ("wz", [[3, 0, 0], [0, 3, 0], [0, 0, 1]], None), ("wz", [[2, 0, 0], [0, 2, 0], [0, 0, 2]], None),
    ("hcp", [[3, 0, 0], [0, 3, 0], [0, 0, 2]], None), ("hcp", [[2, 0, 0], [0, 2, 0], [0, 0, 1]], None),
    ("naclg", [[0, 1, 1], [1, 0, 1], [1, 1, 0]], "F"), ("nacl", [[1, 0, 0], [0, 1, 0], [0, 0, 2]], "F"),
    ("sc", [[7, 0, 0], [0, 1, 0], [0, 0, 1]], None), ("sc", [[4, 0, 0], [0, 4, 0], [0, 0, 1]], None),
    ("sc", [[2, 1, 1], [-1, 2, 0], [0, 1, 2]], None), ("sc", [[3, 0, 0], [0, 3, 0], [0, 0, 3]], None),
    ("cscl", D2, None), ("cscl", [[2, 1, 0], [-1, 2, 0], [0, 0, 1]], None),
    ("bcc", [[2, 0, 0], [0, 3, 0], [0, 0, 1]], "I"), ("bcc", [[2, 0, 0], [0, 2, 0], [0, 0, 3]], "I"),
    ("tric", [[2, 0, 0], [0, 2, 0], [0, 0, 2]], None), ("tric", [[5, 0, 0], [0, 1, 0], [0, 0, 1]], None),
    ("tric", [[1, 0, 1], [0, 3, 0], [-1, 0, 1]], None), ("tetab", [[3, 0, 0], [0, 2, 0], [0, 0, 1]], None),
]
# dynamically unstable crystals (spec/C19Unstable.tla): negative eigenvalues at self-conjugate and at conjugate-pair
# points; run_d2f must return the original force constants; sampling uses |omega| as the code documents
RD_CRYSTALS_UNSTABLE = [
    ("usc", D2, None), ("usc", [[2, 1, 0], [0, 2, 0], [0, 0, 1]], None),
    ("ucscl", [[3, 0, 0], [0, 1, 0], [0, 0, 2]], None),
    ("utric", [[3, 0, 0], [0, 1, 0], [0, 0, 1]], None), ("utric", [[1, 1, 0], [-1, 2, 0], [0, 0, 2]], None),
]
RD_CRYSTALS_UNSTABLE_MORE = [
    ("usc", [[3, 0, 0], [0, 3, 0], [0, 0, 1]], None), ("usc", [[4, 0, 0], [0, 1, 0], [0, 0, 1]], None),
    ("ucscl", [[2, 0, 0], [0, 2, 0], [0, 0, 1]], None), ("utric", [[2, 1, 0], [0, 1, 0], [0, 0, 2]], None),
]
TEMPS = [0.0, 1.0, 50.0, 300.0, 2000.0]
STATS = ["quantum", "classical"]
CUTKINDS = ["default", "gap1", "gap3", "zero"]


class RecordingRng:
    """numpy Generator proxy that records every request for variates."""

    def __init__(self, gen, log):
        self._gen = gen
        self._log = log

    def standard_normal(self, size=None, **kw):
        self._log.append(("standard_normal", tuple(np.atleast_1d(size)) if size is not None else ()))
        return self._gen.standard_normal(size=size, **kw)

    def __getattr__(self, name):
        def other(*a, **kw):
            self._log.append((name, None))
            return getattr(self._gen, name)(*a, **kw)
        return other


@contextlib.contextmanager
def recording_default_rng(log):
    orig = np.random.default_rng

    def patched(*a, **kw):
        return RecordingRng(orig(*a, **kw), log)

    np.random.default_rng = patched
    try:
        yield
    finally:
        np.random.default_rng = orig


def extract_linear_map(rd, T):
    """the linear map variates -> displacements: one snapshot per unit variate."""
    nb = len(rd._eigvals_ii[0])
    nii, nij = len(rd._ii), len(rd._ij)
    dof = (nii + 2 * nij) * nb
    rii = np.zeros((nii, dof, nb))
    rij = np.zeros((max(nij, 1), 2, dof, nb))
    k = 0
    for i in range(nii):
        for b in range(nb):
            rii[i, k, b] = 1.0
            k += 1
    for i in range(nij):
        for h in range(2):
            for b in range(nb):
                rij[i, h, k, b] = 1.0
                k += 1
    rd.run(T, number_of_snapshots=dof, randn=(rii, rij))
    return np.array(rd.u).reshape(dof, -1).copy()


def variates(seed, nii, nij, nb, nsnap):
    """the standard normal variates numpy's Generator(seed) yields, one row per snapshot,
    ordered as the rows of the extracted linear map."""
    rng = np.random.default_rng(seed)
    xi_ii = rng.standard_normal(size=(nii, nsnap, nb))
    rows = []
    xi_ij = rng.standard_normal(size=(nij, 2, nsnap, nb)) if nij else None
    for s_ in range(nsnap):
        parts = [xi_ii[:, s_, :].ravel()]
        if nij:
            parts.append(xi_ij[:, :, s_, :].ravel())
        rows.append(np.concatenate(parts))
    return np.array(rows)


def rd_event(ctx, orc, entry, S, cent, T, stat, cutkind, scale):
    label = "%s S=%s P=%s T=%g %s cutoff=%s scale=%g" % (entry, S, cent, T, stat, cutkind, scale)
    Sp = (np.array(PINV[cent]) @ np.array(S)).tolist()
    nprim = len(orc.num) // PDIV[cent]
    ev = dict(kind="rd", S=Sp, np=nprim, snf=BAD_SNF, pts=[], ii=[], ij=[], status="failed", dof=0, collect=[],
              num=dict(NO_NUM), label=label)
    info = dict(label=label)
    with contextlib.redirect_stdout(io.StringIO()):
        ph = Phonopy(orc.unitcell(), supercell_matrix=S, primitive_matrix=cent, log_level=0)
    fc = orc.supercell_fc(S, ph.supercell) * scale
    n = len(ph.supercell)
    masses = np.array(ph.supercell.masses)
    assert len(ph.primitive) == nprim, (len(ph.primitive), nprim)
    f, lam, V, msq = num.supercell_modes(fc, masses)
    lv = num.levels(f)
    if cutkind == "default":
        cutoff, cut_eff = None, 0.01
    elif cutkind == "zero":
        cutoff = cut_eff = num.gap_value(lv, 0)
    else:
        cutoff = cut_eff = num.gap_value(lv, int(cutkind[3:]))
    ex = num.covariance(fc, masses, T, stat, cut_eff)
    if ex["margin"] < 1e-5:
        raise tlcmod.MachineryError("cutoff %g too close to a frequency in %s" % (cut_eff, label))
    info.update(cutoff=cut_eff, nkeep=ex["nkeep"], natoms=n, levels=len(lv))
    seed = 1000 + ctx.seed
    nsnap = 3
    try:
        ev["snf"] = run_snf_T(Sp)
        rd = RandomDisplacements(ph.supercell, ph.primitive, fc.copy(), dist_func=(None if stat == "quantum" and T > 100 else stat),
                                 cutoff_frequency=cutoff)
        N = len(rd._comm_points)
        ev["pts"] = [[int(x) for x in p] for p in rd._comm_points]
        ev["ii"] = [int(i) + 1 for i in rd._ii]
        ev["ij"] = [int(i) + 1 for i in rd._ij]
        nb = 3 * nprim
        nii, nij = len(rd._ii), len(rd._ij)
        # (1) the linear map and its covariance
        A = extract_linear_map(rd, T)
        cov = A.T @ A
        e_cov = num.relerr(cov, ex["C"])
        rank = int(np.linalg.matrix_rank(A, tol=1e-9 * max(np.abs(A).max(), 1e-300))) if A.any() else 0
        # (2) seeded run = linear image of the generator's standard normal variates; variates drawn
        log = []
        with recording_default_rng(log):
            rd.run(T, number_of_snapshots=nsnap, random_seed=seed)
        u_seed = np.array(rd.u).reshape(nsnap, -1).copy()
        drawn = sum(int(np.prod(sh)) for nm, sh in log if nm == "standard_normal")
        other = [nm for nm, sh in log if nm != "standard_normal"]
        ev["dof"] = drawn // nsnap if (drawn % nsnap == 0 and not other) else -1
        xi = variates(seed, nii, nij, nb, nsnap)
        scale_u = max(np.abs(A).max(), 1e-300)
        e_lin = float(np.abs(u_seed - xi @ A).max() / scale_u) if xi.shape[1] == A.shape[0] else np.inf
        # (3) correlation matrix and its inverse
        rd.run_correlation_matrix(T)
        e_uu = num.relerr(rd.uu, num.to4(ex["C"], n))
        e_uuinv = num.relerr(rd.uu_inv, num.to4(ex["Cinv"], n))
        # pseudo-inverse on the retained subspace:  uu_inv uu = M^1/2 P M^-1/2
        prod = rd.uu_inv.transpose(0, 2, 1, 3).reshape(3 * n, 3 * n) @ rd.uu.transpose(0, 2, 1, 3).reshape(3 * n, 3 * n)
        e_uuinv = max(e_uuinv, num.relerr(prod, ex["proj"] * np.outer(msq, 1 / msq)))
        # (4) force constants rebuilt from the unmodified eigen-solutions
        qpts, eigvals, eigvecs = rd._collect_eigensolutions()
        qn = np.array(qpts) * N
        if np.abs(qn - np.rint(qn)).max() > 1e-6:
            raise AssertionError("non-commensurate q-point collected")
        coll = []
        for k, q in enumerate(np.rint(qn).astype(int)):
            cj = False
            if k >= nii + nij:
                cj = bool(np.allclose(eigvecs[k], np.conj(rd._eigvecs_ij[k - nii - nij]), atol=1e-12))
            coll.append(dict(p=[int(x) % N for x in q], conj=cj))
        ev["collect"] = coll
        rd.run_d2f()
        e_d2f = num.relerr(rd.force_constants, fc)
        # (5) the same through the public API
        e_api = 0.0
        with contextlib.redirect_stdout(io.StringIO()):
            ph.force_constants = fc.copy()
            ph.init_random_displacements(dist_func=stat, cutoff_frequency=cutoff)
            d = ph.get_random_displacements_at_temperature(T, nsnap, is_plusminus=True, random_seed=seed)
        pred = xi @ A
        e_api = float(np.abs(d.reshape(2 * nsnap, -1) - np.vstack([pred, -pred])).max() / scale_u)
        if stat == "quantum":
            with contextlib.redirect_stdout(io.StringIO()):
                ph.generate_displacements(number_of_snapshots=nsnap, random_seed=seed, temperature=T,
                                          cutoff_frequency=cutoff)
            dd = np.array(ph.dataset["displacements"]).reshape(nsnap, -1)
            e_api = max(e_api, float(np.abs(dd - pred).max() / scale_u))
        # (6) reported spectrum (ii once, ij for both members) and the modes reported as integrated
        fr = np.array(rd.frequencies)
        spec = np.concatenate([fr[:nii].ravel(), fr[nii:].ravel(), fr[nii:].ravel()])
        spec = np.sort(spec * np.abs(spec))          # signed squares: the eigenvalues, free of sqrt(noise) at Gamma
        want = np.sort(f * f * np.sign(lam))
        e_freq = float(np.abs(spec - want).max() / max(np.abs(want).max(), 1e-300)) if spec.shape == want.shape else np.inf
        im = np.array(rd.integrated_modes)
        nint = int(im[:nii].sum() + 2 * im[nii:].sum())
        ev["num"] = dict(cov=units(e_cov), lin=units(e_lin), uu=units(e_uu), uuinv=units(e_uuinv), d2f=units(e_d2f),
                         api=units(e_api), rank=abs(rank - ex["nkeep"]), freq=units(e_freq), nint=abs(nint - ex["nkeep"]))
        ev["status"] = "built"
        neg = lambda x: int((np.asarray(x) < -1e-6 * max(np.abs(lam).max(), 1e-300)).sum()) if len(x) else 0  # noqa: E731
        info.update(imaginary_ii=neg(rd._eigvals_ii), imaginary_ij=neg(rd._eigvals_ij))
        info.update(N=N, n_ii=nii, n_ij=nij, dof=ev["dof"], rank=rank,
                    err=dict(cov=e_cov, lin=e_lin, uu=e_uu, uuinv=e_uuinv, d2f=e_d2f, api=e_api, freq=e_freq))
    except tlcmod.MachineryError:
        raise
    except Exception as e:  # phonopy raised where the specification expects a result
        info["exception"] = "%s: %s" % (type(e).__name__, e)
        ctx.violation("rd:exception", "RandomDisplacements raised %s on a valid input" % type(e).__name__, info)
    return ev, info


def rd_cases(ctx, dry=False):
    crystals = list(RD_CRYSTALS_QUICK) + ([] if ctx.quick else RD_CRYSTALS_MORE)
    cases = []
    combos = [(T, st, ck) for T in TEMPS for st in STATS for ck in CUTKINDS if not (st == "classical" and T == 0.0)]
    for ci, (entry, S, cent) in enumerate(crystals):
        k = 3 if ctx.quick else 8
        # every (statistics, cutoff kind, temperature) value is met across the crystals: stride through the grid
        start = (5 * ci + 7 * ctx.seed) % len(combos)
        chosen = [combos[(start + 11 * j) % len(combos)] for j in range(k)]
        for (T, st, ck) in chosen:
            cases.append((entry, S, cent, T, st, ck, 1.0))
    for ci, (entry, S, cent) in enumerate(RD_CRYSTALS_UNSTABLE + ([] if ctx.quick else RD_CRYSTALS_UNSTABLE_MORE)):
        start = (3 * ci + 5 * ctx.seed) % len(combos)
        for j in range(2 if ctx.quick else 4):
            T, st, ck = combos[(start + 13 * j) % len(combos)]
            cases.append((entry, S, cent, T, st, ck, 1.0))
    # soft crystals: frequencies of a few 0.01-0.1 THz, occupation numbers of order one at a few K
    for entry, S, cent in ([("cscl", [[2, 0, 0], [0, 2, 0], [0, 0, 1]], None), ("tric", [[3, 0, 0], [0, 1, 0], [0, 0, 1]], None)]):
        for (T, st, ck) in [(1.0, "quantum", "gap1"), (0.0, "quantum", "zero"), (50.0, "classical", "default")]:
            cases.append((entry, S, cent, T, st, ck, 1e-4))
    return cases


def build_oracles(ctx):
    """one exact spring-model oracle (TLC run, cached) per catalogue entry for all supercells used."""
    by_entry = {}
    td = list(TD_CASES_QUICK) + ([] if ctx.quick else TD_CASES_MORE)
    for entry, S in [(c[0], c[1]) for c in rd_cases(ctx, dry=True)] + [(c[1], c[2]) for c in td]:
        by_entry.setdefault(entry, [])
        if S not in by_entry[entry]:
            by_entry[entry].append(S)
    from harness import c19_unstable
    return {e: (c19_unstable.UnstableOracle if e in c19_unstable.NAMES else Oracle)(e, sorted(mats), seed=ctx.seed + 3, ctx=ctx)
            for e, mats in sorted(by_entry.items())}


def run_rd(ctx, oracles):
    cases = rd_cases(ctx)
    events = []
    worst = {}
    unstable = dict(events=0, imaginary_ii=0, imaginary_ij=0)
    for (entry, S, cent, T, st, ck, scale) in cases:
        ev, info = rd_event(ctx, oracles[entry], entry, S, cent, T, st, ck, scale)
        events.append(ev)
        ctx.count(("rd", entry, str(S), str(cent), T, st, ck, scale))
        for k, v in info.get("err", {}).items():
            worst[k] = max(worst.get(k, 0.0), v)
        if info.get("imaginary_ii", 0) + info.get("imaginary_ij", 0) > 0:
            unstable["events"] += 1
            unstable["imaginary_ii"] += info["imaginary_ii"]
            unstable["imaginary_ij"] += info["imaginary_ij"]
            if unstable["events"] == 1:
                ctx.sample(info, cap=9)
        if len(events) in (1, 8):
            ctx.sample(info)
    ctx.extra["rd_events"] = len(events)
    ctx.extra["rd_unstable"] = unstable
    if not (unstable["events"] and unstable["imaginary_ii"] and unstable["imaginary_ij"]):
        raise tlcmod.MachineryError("no imaginary modes at self-conjugate / conjugate-pair points: %s" % unstable)
    ctx.extra["rd_worst_relative_deviation"] = worst
    ctx.extra["rd_tolerance"] = TOL * 1e-12
    structures = sorted(set((len(e["ii"]), len(e["ij"])) for e in events))
    ctx.extra["rd_structures_(n_ii,n_ij)"] = structures
    if worst and max(worst.values()) > 1e-3 * TOL * 1e-12 and not ctx.violations:
        # margin self-check (DESIGN 2.5): the unchanged tree must sit far below the tolerance
        if max(worst.values()) <= TOL * 1e-12:
            raise tlcmod.MachineryError("deviation %g too close to the tolerance" % max(worst.values()))
    return events


MC_TRACE = """---- MODULE MC_RandomDispTrace ----
EXTENDS RandomDispTrace
MCSSpace == {}
MCNPrims == {1}
MCSNFTable == <<>>
MCEvents == {%s}
MCTol == %d
====
"""

CFG_TRACE = """INIT TInit
NEXT TNext
CONSTANTS
 SSpace <- MCSSpace
 NPrims <- MCNPrims
 SNFTable <- MCSNFTable
 Events <- MCEvents
 Tol <- MCTol
CHECK_DEADLOCK FALSE
INVARIANT TypeOK
INVARIANT InvAccepts
INVARIANT InvSites
INVARIANT InvDualGroup
INVARIANT InvPartition
INVARIANT InvDof
INVARIANT InvCollect
INVARIANT InvOrthonormal
INVARIANT InvModesIndependent
INVARIANT InvModeCount
INVARIANT ImplAccepts
INVARIANT ImplSNFContract
INVARIANT ImplDualGroup
INVARIANT ImplPartition
INVARIANT ImplOrthonormal
INVARIANT ImplModesIndependent
INVARIANT ImplDof
INVARIANT ImplCollect
INVARIANT ImplCovariance
INVARIANT ImplLinearImage
INVARIANT ImplCorrelation
INVARIANT ImplCorrelationInverse
INVARIANT ImplD2F
INVARIANT ImplApi
INVARIANT ImplRank
INVARIANT ImplSpectrum
INVARIANT ImplIntegratedModes
INVARIANT ConformsStatus
INVARIANT ConformsPoints
INVARIANT ConformsCategories
INVARIANT ConformsDof
INVARIANT ConformsCollect
"""


def judge(ctx, tag, module, cfg, mc_text, events, witness_of, coverage=None):
    """one TLC trace-validation run; Impl*/Inv* violations are property violations,
    Conforms* alone is specification drift."""
    res = ctx.tlc(module, cfg_text=cfg, extra_files={module + ".tla": mc_text}, requirement=False,
                  extra_args=("-continue",), keep=True,
                  coverage=(not ctx.quick) if coverage is None else coverage)
    violated = sorted(set(n for n, _ in res.violations))
    witness = {}
    for n, tr in res.violations:
        if n not in witness and tr:
            witness[n] = witness_of(tr[-1][1].get("ev", {}))
    ctx.extra[tag + "_violated_invariants"] = sorted(set(ctx.extra.get(tag + "_violated_invariants", [])) | set(violated))
    if res.coverage:
        ctx.extra[tag + "_action_coverage"] = {k: v[1] for k, v in res.coverage.items()}
    if res.violated and not violated:      # assumption / evaluation problem reported as violation by the runner
        raise tlcmod.MachineryError("TLC reported %s on %s\n%s" % (res.violated, module, res.stdout[-2000:]))
    chk = [v for v in violated if v.startswith("Check")]
    if chk:
        raise tlcmod.MachineryError("self-check %s failed in %s: %s" % (chk, module, [witness.get(v) for v in chk]))
    req = [v for v in violated if v.startswith("Impl") or v.startswith("Inv") or v == "TypeOK"]
    for v in req:
        ctx.violation(tag + ":" + v, "C19 requirement %s fails on the implementation's result" % v,
                      dict(invariant=v, witness=witness.get(v)))
    drift = [v for v in violated if v.startswith("Conforms")]
    if drift and not req:
        ctx.extra["SPEC-DRIFT-" + tag] = dict(invariants=drift, witness={v: witness.get(v) for v in drift})
        print("SPEC-DRIFT C19 %s: %s (requirement intact)" % (tag, drift))
    tlcmod.cleanup(res)
    return res


def self_check_trace(ctx, rd_events):
    """binding demonstration (DESIGN 4.4): corrupted copies of a recorded event must be rejected by the
    invariant that owns the corrupted field; otherwise the machinery, not phonopy, is at fault."""
    import copy
    src = next((e for e in rd_events if e["status"] == "built" and len(e["ij"]) >= 1 and len(e["ii"]) >= 2), None)
    if src is None:
        return
    bad = []
    e = copy.deepcopy(src); e["label"] = "self:source"; bad.append(e)
    e = copy.deepcopy(src); e["ij"] = e["ij"] + [e["ii"][-1]]; e["ii"] = e["ii"][:-1]; e["label"] = "corrupt:partition"; bad.append(e)
    e = copy.deepcopy(src); e["pts"][1] = list(e["pts"][0]); e["label"] = "corrupt:points"; bad.append(e)
    e = copy.deepcopy(src); e["collect"][-1]["conj"] = False; e["label"] = "corrupt:collect"; bad.append(e)
    e = copy.deepcopy(src); e["dof"] -= 1; e["label"] = "corrupt:dof"; bad.append(e)
    e = copy.deepcopy(src); e["num"]["cov"] = TOL + 1; e["label"] = "corrupt:cov"; bad.append(e)
    expect = {"corrupt:partition": "ImplPartition", "corrupt:points": "ImplDualGroup", "corrupt:collect": "ImplCollect",
              "corrupt:dof": "ImplDof", "corrupt:cov": "ImplCovariance"}
    mc = MC_TRACE % (",\n".join(to_tla({k: v for k, v in x.items() if k != "err"}) for x in bad), TOL)
    res = tlcmod.run("MC_RandomDispTrace", cfg_text=CFG_TRACE, extra_files={"MC_RandomDispTrace.tla": mc},
                     extra_args=("-continue",), workers=2)
    tlcmod.cleanup(res)
    got = {}
    for n, tr in res.violations:
        if tr:
            got.setdefault(tr[-1][1].get("ev", {}).get("label"), set()).add(n)
    if "self:source" in got:
        # the recorded event itself is rejected (reported by the main run): nothing to demonstrate on it
        ctx.extra["trace_self_check"] = "skipped: source event rejected by %s" % sorted(got["self:source"])
        return
    ctx.extra["trace_self_check"] = dict(corrupted=len(bad) - 1, rejected_by={k: sorted(v) for k, v in got.items()})
    missing = [k for k, inv in expect.items() if inv not in got.get(k, set())]
    if missing:
        raise tlcmod.MachineryError("corrupted traces accepted: %s" % missing)


def run_points(ctx, rd_events):
    Ss = s_space(ctx)
    events = [points_event(S) for S in Ss]
    for e in events:
        ctx.count(("points", tuple(map(tuple, e["S"]))))
    ctx.extra["points_events"] = len(events)
    ctx.extra["points_refused"] = sum(1 for e in events if e["status"] != "built")
    ctx.traces += len(events) + len(rd_events)
    allev = [{k: v for k, v in e.items() if k != "err"} for e in events + rd_events]
    ctx.sample({k: v for k, v in events[len(events) // 2].items() if k not in ("num", "collect")})
    mc = MC_TRACE % (",\n".join(to_tla(e) for e in allev), TOL)

    def wit(e):
        return dict(kind=e.get("kind"), S=e.get("S"), label=e.get("label"), num=e.get("num"),
                    status=e.get("status"), ii=e.get("ii"), ij=e.get("ij"))

    res = judge(ctx, "sampling", "MC_RandomDispTrace", CFG_TRACE, mc, allev, wit)
    # every recorded trace must have been consumed to its end: 7 states per distinct event
    dist = {to_tla(e): e for e in allev}
    ndist = len(dist)
    want = sum(3 if det3(e["S"]) == 0 else 7 for e in dist.values())
    if not res.violations and res.distinct != want:
        raise tlcmod.MachineryError("trace validation incomplete: %d states for %d events" % (res.distinct, ndist))
    return res


# ---------------------------------------------------------------------------
# thermal displacements: recorded runs on oracle crystals (code -> spec)
# ---------------------------------------------------------------------------
PMAT = {"F": [[0, 1, 1], [1, 0, 1], [1, 1, 0]], "I": [[-1, 1, 1], [1, -1, 1], [1, 1, -1]]}   # 2 x centring matrix

# (kind, entry, S, centring, mesh, shift, gamma_center, temps, window, direction (reduced), scale)
#  window: ("low",) fmin between 0 and the lowest level; ("band", k1, k2) fmin, fmax in gaps; ("none",) defaults
TD_CASES_QUICK = [
    ("mesh", "cscl", D2, None, [3, 3, 2], None, True, [0.0, 10.0, 300.0], ("low",), [1, 0, 0], 1.0),
    ("mesh", "cscl", D2, None, [2, 2, 3], [0.5, 0.5, 0.5], False, [300.0], ("none",), [1, 1, 0], 1.0),
    ("mesh", "tric", [[2, 1, 0], [0, 2, 0], [0, 0, 1]], None, [3, 2, 2], None, True, [0.0, 700.0], ("band", 2, 9), [1, 2, 3], 1.0),
    ("mesh", "tric", [[2, 1, 0], [0, 2, 0], [0, 0, 1]], None, [2, 2, 2], [0.5, 0.5, 0.5], True, [2.0, 50.0, 1000.0], ("none",), [0, 0, 1], 1.0),
    ("mesh", "bcc", D2, "I", [2, 3, 4], None, False, [150.0], ("low",), [1, -1, 0], 1.0),
    ("mesh", "nacl", [[1, 0, 0], [0, 1, 0], [0, 0, 1]], "F", [2, 2, 2], None, True, [0.0, 300.0], ("band", 1, 6), [1, 1, 1], 1.0),
    ("mesh", "hcp", [[3, 0, 0], [0, 3, 0], [0, 0, 2]], None, [3, 3, 2], None, True, [20.0, 400.0], ("low",), [2, 1, 0], 1.0),
    ("mesh", "tetab", [[2, 0, 0], [0, 2, 0], [0, 0, 1]], None, [2, 2, 3], [0.5, 0.5, 0.0], True, [300.0, 600.0], ("band", 0, 5), [0, 1, 1], 1.0),
    # mesh = commensurate points of the supercell: link to the supercell covariance / RandomDisplacements.uu
    ("link", "sc", D2, None, [2, 2, 2], None, True, [0.0, 300.0], ("low",), [1, 0, 0], 1.0),
    ("link", "sc", [[3, 0, 0], [0, 3, 0], [0, 0, 1]], None, [3, 3, 1], None, True, [300.0], ("low",), [1, 1, 0], 1.0),
    ("link", "tric", [[2, 0, 0], [0, 3, 0], [0, 0, 1]], None, [2, 3, 1], None, True, [0.0, 500.0], ("low",), [1, 0, 1], 1.0),
    ("link", "bcc", PMAT["I"], "I", [2, 2, 2], None, True, [300.0], ("low",), [1, 1, 1], 1.0),
    ("link", "naclg", PMAT["F"], "F", [2, 2, 2], None, True, [100.0], ("low",), [1, 0, 0], 1.0),
    # soft crystal (frequencies ~0.1 THz): occupation numbers of order one at a few kelvin
    ("mesh", "cscl", D2, None, [3, 3, 2], None, True, [1.5, 2.0, 10.0], ("low",), [1, 0, 0], 1e-4),
    ("lowT", "cscl", D2, None, [3, 3, 2], None, True, [0.5, 1.0], ("low",), [1, 0, 0], 1e-4),
    ("lowT", "tric", [[2, 1, 0], [0, 2, 0], [0, 0, 1]], None, [2, 2, 2], [0.5, 0.5, 0.5], True, [1.0], ("none",), [0, 1, 0], 1e-4),
]
TD_CASES_MORE = [
    ("mesh", "wz", [[2, 0, 0], [0, 2, 0], [0, 0, 2]], None, [3, 3, 2], None, True, [0.0, 300.0, 900.0], ("low",), [1, 0, 0], 1.0),
    ("mesh", "wz", [[2, 0, 0], [0, 2, 0], [0, 0, 2]], None, [4, 4, 3], [0.5, 0.5, 0.5], True, [300.0], ("band", 3, 30), [0, 0, 1], 1.0),
    ("mesh", "cscl", D2, None, [5, 5, 5], None, True, [0.0, 5.0, 40.0, 300.0, 1500.0], ("low",), [1, 1, 1], 1.0),
    ("mesh", "tric", D2, None, [4, 3, 3], None, False, [0.0, 300.0], ("band", 5, 40), [3, -1, 2], 1.0),
    ("mesh", "tetab", [[3, 0, 0], [0, 2, 0], [0, 0, 1]], None, [3, 4, 5], None, True, [77.0, 300.0], ("low",), [1, 1, 0], 1.0),
    ("mesh", "naclg", PMAT["F"], "F", [3, 3, 3], None, True, [10.0, 300.0], ("low",), [1, 2, 0], 1.0),
    ("mesh", "nacl", [[1, 0, 0], [0, 1, 0], [0, 0, 2]], "F", [4, 4, 4], [0.5, 0.5, 0.5], True, [300.0], ("none",), [1, 0, 0], 1.0),
    ("mesh", "bcc", [[3, 0, 0], [0, 3, 0], [0, 0, 3]], "I", [4, 4, 4], None, True, [0.0, 300.0], ("band", 2, 12), [1, 1, 0], 1.0),
    ("link", "hcp", [[3, 0, 0], [0, 3, 0], [0, 0, 1]], None, [3, 3, 1], None, True, [0.0, 300.0], ("low",), [1, 0, 0], 1.0),
    ("link", "cscl", [[2, 0, 0], [0, 2, 0], [0, 0, 1]], None, [2, 2, 1], None, True, [300.0], ("low",), [0, 0, 1], 1.0),
    ("link", "tetab", [[2, 0, 0], [0, 2, 0], [0, 0, 1]], None, [2, 2, 1], None, True, [0.0, 300.0], ("low",), [1, 0, 0], 1.0),
    ("link", "sc", [[4, 0, 0], [0, 1, 0], [0, 0, 1]], None, [4, 1, 1], None, True, [300.0], ("low",), [1, 0, 0], 1.0),
    ("link", "sc", [[5, 0, 0], [0, 1, 0], [0, 0, 1]], None, [5, 1, 1], None, True, [30.0], ("low",), [1, 0, 0], 1.0),
    ("lowT", "sc", D2, None, [4, 4, 4], None, True, [0.3, 0.9, 1.0], ("low",), [1, 0, 0], 1e-4),
]


def td_event(ctx, orc, case):
    kind, entry, S, cent, mesh, shift, gc, temps, window, direction, scale = case
    label = "%s %s S=%s P=%s mesh=%s shift=%s gc=%s T=%s window=%s dir=%s scale=%g" % (
        kind, entry, S, cent, mesh, shift, gc, temps, window, direction, scale)
    ev = dict(kind=kind, label=label, ntemp=len(temps), nsel=0,
              num=dict(mat=0, sym=0, psd=0, diag=0, proj=0, cif=0, link=0))
    info = dict(label=label)
    with contextlib.redirect_stdout(io.StringIO()):
        ph = Phonopy(orc.unitcell(), supercell_matrix=S, primitive_matrix=cent, log_level=0)
    fc = orc.supercell_fc(S, ph.supercell) * scale
    prim = ph.primitive
    ss = num.SuperSeries(fc, ph.supercell.positions, ph.supercell.cell, ph.supercell.masses, prim.cell, prim.positions)
    nat = ss.np
    try:
        with contextlib.redirect_stdout(io.StringIO()):
            ph.force_constants = fc.copy()
            ph.run_mesh(mesh, shift=shift, with_eigenvectors=True, is_mesh_symmetry=False, is_gamma_center=gc)
        qpts = np.array(ph.get_mesh_dict()["qpoints"])
        if len(qpts) != int(np.prod(mesh)):
            raise AssertionError("mesh without symmetry has %d points" % len(qpts))
        modes = num.mesh_modes(ss, qpts)
        lv = num.levels(np.concatenate([np.abs(f) for f, _ in modes]))
        if window[0] == "low":
            fmin, fmax = num.gap_value(lv, 0), None
        elif window[0] == "band":
            fmin, fmax = num.gap_value(lv, window[1]), num.gap_value(lv, window[2])
        else:
            fmin, fmax = None, None
        fmin_eff = 0.0 if fmin is None else fmin
        expected = []
        margin = 1.0
        for T in temps:
            B, mg, nsel = num.msd_matrices(modes, ss.masses, T, fmin_eff, fmax)
            expected.append(B)
            margin = min(margin, mg)
            ev["nsel"] = nsel
        if margin < 1e-6:
            raise tlcmod.MachineryError("window edge too close to a frequency in %s" % label)
        scale_B = max(np.abs(expected[-1]).max(), 1e-300)
        imag = max(float(np.abs(B.imag).max()) for B in expected) / scale_B
        if imag > 1e-9:
            raise tlcmod.MachineryError("sample not closed under time reversal in %s" % label)
        # matrices
        with contextlib.redirect_stdout(io.StringIO()):
            ph.run_thermal_displacement_matrices(temperatures=temps, freq_min=fmin, freq_max=fmax)
        d = ph.get_thermal_displacement_matrices_dict()
        Bc = np.array(d["thermal_displacement_matrices"])
        Bcif = np.array(d["thermal_displacement_matrices_cif"])
        if list(d["temperatures"]) != list(temps) or Bc.shape != (len(temps), nat, 3, 3):
            raise AssertionError("shape / temperatures of the result")
        e_mat = max(num.relerr(Bc[i], expected[i].real) for i in range(len(temps)))
        e_sym = max(float(np.abs(Bc[i] - Bc[i].transpose(0, 2, 1)).max() / max(np.abs(Bc[i]).max(), 1e-300))
                    for i in range(len(temps)))
        e_psd = 0.0
        for i in range(len(temps)):
            for k in range(nat):
                lam = np.linalg.eigvalsh(0.5 * (Bc[i, k] + Bc[i, k].T))
                e_psd = max(e_psd, float(max(0.0, -lam.min()) / max(np.abs(Bc[i]).max(), 1e-300)))
        AN = num.cif_frame(prim.cell)
        ANinv = np.linalg.inv(AN)
        e_cif = 0.0
        for i in range(len(temps)):
            want = np.array([ANinv @ expected[i][k].real @ ANinv.T for k in range(nat)])
            e_cif = max(e_cif, num.relerr(Bcif[i], want))
            # and back: the Cartesian matrices from the reported CIF ones
            back = np.array([AN @ Bcif[i, k] @ AN.T for k in range(nat)])
            e_cif = max(e_cif, num.relerr(back, Bc[i]))
        # mean-square displacements, Cartesian and projected
        with contextlib.redirect_stdout(io.StringIO()):
            ph.run_thermal_displacements(temperatures=temps, freq_min=fmin, freq_max=fmax)
        td = np.array(ph.get_thermal_displacements_dict()["thermal_displacements"])
        e_diag = 0.0
        for i in range(len(temps)):
            diag_def = np.array([np.diag(expected[i][k].real) for k in range(nat)]).ravel()
            diag_code = np.array([np.diag(Bc[i, k]) for k in range(nat)]).ravel()
            e_diag = max(e_diag, float(np.abs(td[i] - diag_def).max() / scale_B), float(np.abs(td[i] - diag_code).max() / scale_B))
        with contextlib.redirect_stdout(io.StringIO()):
            ph.run_thermal_displacements(temperatures=temps, direction=direction, freq_min=fmin, freq_max=fmax)
        tp = np.array(ph.get_thermal_displacements_dict()["thermal_displacements"])
        dc = np.array(direction, dtype=float) @ np.array(prim.cell)
        dc = dc / np.linalg.norm(dc)
        e_proj = 0.0
        for i in range(len(temps)):
            want = np.array([dc @ expected[i][k].real @ dc for k in range(nat)])
            e_proj = max(e_proj, float(np.abs(tp[i] - want).max() / scale_B))
        e_link = 0.0
        if kind == "link":
            n = len(ph.supercell)
            masses = np.array(ph.supercell.masses)
            for i, T in enumerate(temps):
                ex = num.covariance(fc, masses, T, "quantum", fmin)
                C4 = num.to4(ex["C"], n)
                rd = RandomDisplacements(ph.supercell, prim, fc.copy(), cutoff_frequency=fmin)
                rd.run_correlation_matrix(T)
                for k in range(nat):
                    for j in [j for j in range(n) if ss.cls[j] == k]:
                        e_link = max(e_link, float(np.abs(Bc[i, k] - C4[j, j]).max() / scale_B),
                                     float(np.abs(Bc[i, k] - rd.uu[j, j]).max() / scale_B))
        ev["num"] = dict(mat=units(e_mat), sym=units(e_sym), psd=units(e_psd), diag=units(e_diag), proj=units(e_proj),
                         cif=units(e_cif), link=units(e_link))
        info.update(fmin=fmin, fmax=fmax, nsel=ev["nsel"], nq=len(qpts), nat=nat, margin=margin,
                    err=dict(mat=e_mat, sym=e_sym, psd=e_psd, diag=e_diag, proj=e_proj, cif=e_cif, link=e_link))
    except tlcmod.MachineryError:
        raise
    except Exception as e:
        info["exception"] = "%s: %s" % (type(e).__name__, e)
        ev["nsel"] = max(ev["nsel"], 1)
        ctx.violation("thermal:exception", "thermal displacement run raised %s on a valid input" % type(e).__name__, info)
    return ev, info


MC_TD = """---- MODULE MC_ThermalDispTrace ----
EXTENDS ThermalDispTrace
MCEvents == {%s}
MCTol == %d
MCKinds == {"mesh", "link", "lowT"}
====
"""
CFG_TD = """INIT TInit
NEXT TNext
CONSTANTS
 Events <- MCEvents
 Tol <- MCTol
 Kinds <- MCKinds
CHECK_DEADLOCK FALSE
INVARIANT ImplMatrices
INVARIANT ImplSymmetric
INVARIANT ImplPSD
INVARIANT ImplDiagonalIsMSD
INVARIANT ImplProjection
INVARIANT ImplCif
INVARIANT ImplSupercellLink
INVARIANT CheckNonVacuous
"""


def run_td(ctx, oracles):
    cases = list(TD_CASES_QUICK) + ([] if ctx.quick else TD_CASES_MORE)
    worst = {}
    groups = {"thermal": [], "thermal-lowT": []}
    for c in cases:
        ev, info = td_event(ctx, oracles[c[1]], c)
        groups["thermal-lowT" if c[0] == "lowT" else "thermal"].append(ev)
        ctx.count(("td",) + tuple(str(x) for x in c))
        if c[0] != "lowT":
            for k, v in info.get("err", {}).items():
                worst[k] = max(worst.get(k, 0.0), v)
        if c is cases[2] or c[0] == "lowT":
            ctx.sample(info, cap=8)
    ctx.extra["td_events"] = sum(len(g) for g in groups.values())
    ctx.extra["td_worst_relative_deviation"] = worst
    ctx.traces += ctx.extra["td_events"]

    def wit(e):
        return dict(label=e.get("label"), num=e.get("num"), nsel=e.get("nsel"))

    # temperatures in (0, 1] K are judged separately so that a failure there has its own class
    for tag, evs in groups.items():
        if evs:
            mc = MC_TD % (",\n".join(to_tla(e) for e in evs), TOL)
            res = judge(ctx, tag, "MC_ThermalDispTrace", CFG_TD, mc, evs, wit)
            if not res.violations and res.distinct != 2 * len(set(to_tla(e) for e in evs)):
                raise tlcmod.MachineryError("thermal trace judgement incomplete: %d states" % res.distinct)


# ---------------------------------------------------------------------------
# thermal displacements: exact model (TLC) and replay of its results on the real classes (spec -> code)
# ---------------------------------------------------------------------------
LEVELS = [1, 2, 3, 4, 6]       # weight of a mode = 12 / level: positive, decreasing with frequency


def td_samples(rng):
    """sampled mode families with Gaussian-integer polarisation vectors; q-major, 3*nat modes per q."""
    out = []

    def vec():
        return [[rng.randint(-2, 2), rng.randint(-2, 2)] for _ in range(3)]

    for nat, nq, closed in [(1, 2, True), (2, 2, True), (1, 1, False), (2, 1, False), (1, 4, True), (2, 2, True)]:
        modes = []
        if closed:
            half = []
            for _ in range(nq // 2):
                half.append([dict(lvl=rng.choice(LEVELS), e=[vec() for _ in range(nat)]) for _ in range(3 * nat)])
            for qm in half:
                modes += [dict(lvl=m["lvl"], w=12 // m["lvl"], e=m["e"]) for m in qm]
                modes += [dict(lvl=m["lvl"], w=12 // m["lvl"], e=[[[c[0], -c[1]] for c in v] for v in m["e"]]) for m in qm]
        else:
            for _ in range(nq):
                modes += [dict(lvl=l, w=12 // l, e=[vec() for _ in range(nat)])
                          for l in [rng.choice(LEVELS) for _ in range(3 * nat)]]
        out.append(modes)
    return out


MC_TDM = """---- MODULE MC_ThermalDisp ----
EXTENDS ThermalDisp
MCSamples == {%s}
MCWindows == {<<0, 0>>, <<1, 0>>, <<2, 6>>, <<1, 4>>, <<6, 0>>}
MCDirs == {<<1, 0, 0>>, <<1, 2, -1>>}
MCTmats == {<<<<1, 0, 0>>, <<0, 1, 0>>, <<0, 0, 1>>>>, <<<<1, 1, 0>>, <<0, 2, 0>>, <<1, 0, 3>>>>}
====
"""
CFG_TDM = """SPECIFICATION Spec
CONSTANTS
 Samples <- MCSamples
 Windows <- MCWindows
 Dirs <- MCDirs
 Tmats <- MCTmats
CHECK_DEADLOCK FALSE
INVARIANT InvWindow
INVARIANT InvHermitianPSD
INVARIANT InvRealSymmetric
INVARIANT InvDiagonalIsMSD
INVARIANT InvProjection
INVARIANT InvCif
INVARIANT InvMonotone
"""


class _StubMesh:
    """what ThermalMotion needs of a Mesh: masses, mesh numbers, iteration over (frequencies, eigenvectors)."""

    def __init__(self, freqs, eigs, masses):
        class _P:
            pass
        self.dynamical_matrix = _P()
        self.dynamical_matrix.primitive = _P()
        self.dynamical_matrix.primitive.masses = np.array(masses, dtype=float)
        self.mesh_numbers = np.array([len(freqs), 1, 1])
        self._f, self._e = freqs, eigs

    def __iter__(self):
        return iter(zip(self._f, self._e))


def _invert_a2(target, T):
    lo, hi = 1e-3, 1e4
    for _ in range(200):
        mid = np.sqrt(lo * hi)
        if num.mode_a2(mid, T, "quantum") > target:
            lo = mid
        else:
            hi = mid
    return float(np.sqrt(lo * hi))


def run_td_model(ctx):
    from harness import tla_values
    from phonopy.phonon.thermal_displacement import ThermalDisplacementMatrices, ThermalDisplacements

    samples = td_samples(random.Random(7 * ctx.seed + 3))
    mc = MC_TDM % ",\n".join(to_tla(m) for m in samples)
    res = ctx.tlc("MC_ThermalDisp", cfg_text=CFG_TDM, extra_files={"MC_ThermalDisp.tla": mc}, requirement=True,
                  dump=True, keep=True, coverage=True)
    cov = {k: v[1] for k, v in res.coverage.items()}
    ctx.extra["thermal_model_action_coverage"] = cov
    if not res.violated:
        for a in ("Choose", "Select", "RunMatrices", "RunMSD", "RunProjected", "ToCif"):
            if cov.get(a, 0) == 0:
                raise tlcmod.MachineryError("action %s of ThermalDisp never fired" % a)
    states = [st for st in tla_values.parse_dump(res.dump_path) if st["pc"] == "done"] if not res.violated else []
    tlcmod.cleanup(res)
    T = 300.0
    masses_all = [3.0, 7.0]
    c = float(num.mode_a2(2.0, T, "quantum")) / 12.0
    f_of = {l: _invert_a2(c * (12 // l), T) for l in LEVELS}
    f_of[0] = None
    worst = 0.0
    nrep = 0
    nrefused = 0
    for st in states:
        smp = st["sample"]
        nat = len(smp[0]["e"])
        nq = len(smp) // (3 * nat)
        closed = all(abs(x[1]) == 0 for k in range(nat) for r in st["B"][k] for x in r)
        freqs, eigs = [], []
        for iq in range(nq):
            ms = smp[iq * 3 * nat:(iq + 1) * 3 * nat]
            freqs.append(np.array([f_of[m["lvl"]] for m in ms]))
            eigs.append(np.array([[complex(*m["e"][k][a]) for m in ms] for k in range(nat) for a in range(3)]))
        masses = masses_all[:nat]
        lo, hi = st["window"]
        fmin = None if lo == 0 else f_of[lo]
        fmax = None if hi == 0 else f_of[hi]
        Tm = np.array(st["tm"], dtype=float)
        rows = np.linalg.norm(Tm, axis=1)
        d = np.array(st["dir"], dtype=float)
        key = dict(sample=smp, window=st["window"], dir=st["dir"], tm=st["tm"])
        try:
            tdm = ThermalDisplacementMatrices(_StubMesh(freqs, eigs, masses), freq_min=fmin, freq_max=fmax,
                                              lattice=np.linalg.inv(Tm))
            tdm.temperatures = [T]
            tdm.run()
        except AssertionError:
            # documented assumption of the code: the sample is closed under time reversal (imaginary parts cancel)
            if closed:
                ctx.violation("thermal-replay:refused", "ThermalDisplacementMatrices refused a time-reversal closed sample", key)
            nrefused += 1
            continue
        if not closed:
            ctx.violation("thermal-replay:complex", "complex mean-square displacement matrix accepted silently", key)
            continue
        got = dict(B=tdm.thermal_displacement_matrices[0], U=tdm.thermal_displacement_matrices_cif[0])
        want_B = np.array([[[x[0] for x in r] for r in st["B"][k]] for k in range(nat)], dtype=float)
        want_U = np.array([[[x[0] for x in r] for r in st["U"][k]] for k in range(nat)], dtype=float)
        want_B *= (c / nq) / np.array(masses)[:, None, None]
        want_U *= (c / nq) / np.array(masses)[:, None, None] / np.outer(rows, rows)[None]
        scale = max(np.abs(want_B).max(), c / nq / max(masses))
        errs = dict(B=float(np.abs(got["B"] - want_B).max() / scale), U=float(np.abs(got["U"] - want_U).max() / scale))
        for temps in ([T], [T, T]):        # single- and multi-temperature code paths
            td = ThermalDisplacements(_StubMesh(freqs, eigs, masses), freq_min=fmin, freq_max=fmax)
            td.temperatures = temps
            td.run()
            want = np.array(st["msd"], dtype=float) * (c / nq) / np.array(masses)[:, None]
            errs["msd%d" % len(temps)] = float(np.abs(td.thermal_displacements[-1] - want.ravel()).max() / scale)
            tp = ThermalDisplacements(_StubMesh(freqs, eigs, masses), projection_direction=d, freq_min=fmin, freq_max=fmax)
            tp.temperatures = temps
            tp.run()
            wantp = np.array(st["proj"], dtype=float) * (c / nq) / np.array(masses) / float(d @ d)
            errs["proj%d" % len(temps)] = float(np.abs(tp.thermal_displacements[-1] - wantp).max() / scale)
        nrep += 1
        ctx.count(("td-replay", nrep))
        worst = max(worst, max(errs.values()))
        bad = {k: v for k, v in errs.items() if not (v <= TOL * 1e-12)}
        if bad:
            ctx.violation("thermal-replay:" + sorted(bad)[0],
                          "real ThermalDisplacement classes differ from the specification's exact result", dict(key, deviation=errs))
    ctx.traces += nrep
    ctx.extra["thermal_replay"] = dict(behaviours=len(states), replayed=nrep, refused_not_closed=nrefused,
                                       worst_relative_deviation=worst)
    if states and nrep == 0:
        raise tlcmod.MachineryError("no behaviour of ThermalDisp was replayed")


# ---------------------------------------------------------------------------
# exact model of the sampler's covariance (model checking only; SNF of the real code supplies P, Q, D)
# ---------------------------------------------------------------------------
MC_COV = r"""---- MODULE MC_RandomDispCov ----
EXTENDS RandomDispCov
MCInputs == {%s}
MCSSpace == {x.S : x \in MCInputs}
MCNPrims == {1}
MCSNFTable == [M \in MCSSpace |-> (CHOOSE x \in MCInputs : x.S = M).snf]
====
"""
CFG_COV = """INIT CInit
NEXT CNext
CONSTANTS
 SSpace <- MCSSpace
 NPrims <- MCNPrims
 SNFTable <- MCSNFTable
CHECK_DEADLOCK FALSE
INVARIANT TypeOKC
INVARIANT InvAccepts
INVARIANT InvSites
INVARIANT InvDualGroup
INVARIANT InvPartition
INVARIANT InvDof
INVARIANT InvCollect
INVARIANT InvOrthonormal
INVARIANT InvModeCount
INVARIANT InvCanonicalCovariance
INVARIANT InvD2FIdentity
INVARIANT InvSomeImaginary
INVARIANT InvRows
INVARIANT InvTrace
"""


def run_cov_model(ctx):
    idx = (1, 2, 4, 8) if ctx.quick else (1, 2, 4, 8, 16)
    mats = [m for m in hnf_matrices(max(idx)) if det3(m) in idx]
    rng = random.Random(7 * ctx.seed + 2)
    if ctx.quick:
        big = [m for m in mats if det3(m) == 8]
        rng.shuffle(big)
        mats = [m for m in mats if det3(m) < 8] + big[:40]
    else:
        big = [m for m in mats if det3(m) == 16]
        rng.shuffle(big)
        mats = [m for m in mats if det3(m) < 16] + big[:150]
    extra = []
    for _ in range(25 if ctx.quick else 300):
        H = np.array(rng.choice(mats))
        M = np.array(rng.choice(UNIS)).T @ H @ np.array(rng.choice(UNIS))
        if np.abs(M).max() <= 30:
            extra.append(M.tolist())
    seen, inputs = set(), []
    for m in mats + extra:
        k = tuple(map(tuple, m))
        if k in seen:
            continue
        seen.add(k)
        inputs.append(dict(S=[list(map(int, r)) for r in m], snf=run_snf_T(m)))
    mc = MC_COV % ",\n".join(to_tla(x) for x in inputs)
    res = ctx.tlc("MC_RandomDispCov", cfg_text=CFG_COV, extra_files={"MC_RandomDispCov.tla": mc}, requirement=True,
                  coverage=True, what="the sampler's linear map does not have the canonical covariance on the exact model")
    cov = {k: v[1] for k, v in res.coverage.items()}
    ctx.extra["cov_model"] = dict(supercells=len(inputs), action_coverage=cov)
    if not res.violated:
        for a in ("Base", "Solve", "Combine"):
            if cov.get(a, 0) == 0:
                raise tlcmod.MachineryError("action %s of RandomDispCov never fired" % a)
    for x in inputs:
        ctx.count(("cov-model", tuple(map(tuple, x["S"]))))


def self_check_specs(ctx):
    """the model invariants are not vacuous: deliberately wrong variants of the specification's step
    machines (no sqrt 2; imaginary partner dropped; |e|^2 -> Re(e)^2) must violate them."""
    import os
    rd = open(os.path.join(tlcmod.SPEC, "RandomDisp.tla")).read()
    cv = open(os.path.join(tlcmod.SPEC, "RandomDispCov.tla")).read()
    td = open(os.path.join(tlcmod.SPEC, "ThermalDisp.tla")).read()
    inputs = [dict(S=m, snf=run_snf_T(m)) for m in hnf_matrices(4)]
    mc = MC_COV % ",\n".join(to_tla(x) for x in inputs)
    samples = td_samples(random.Random(7 * ctx.seed + 3))
    mct = MC_TDM % ",\n".join(to_tla(m) for m in samples)
    jobs = [
        ("no-sqrt2", "MC_RandomDispCov", CFG_COV, {"MC_RandomDispCov.tla": mc, "RandomDisp.tla": rd.replace(
            'kind |-> IF z % 2 = 0 THEN "re" ELSE "im", w |-> 2]', 'kind |-> IF z % 2 = 0 THEN "re" ELSE "im", w |-> 1]')},
         {"InvCanonicalCovariance", "InvOrthonormal"}),
        ("re-only", "MC_RandomDispCov", CFG_COV, {"MC_RandomDispCov.tla": mc, "RandomDispCov.tla": cv.replace(
            'IF m.kind = "im" THEN -z[2] ELSE z[1]', 'z[1]')}, {"InvCanonicalCovariance"}),
        ("abs-eigenvalue", "MC_RandomDispCov", CFG_COV, {"MC_RandomDispCov.tla": mc, "RandomDispCov.tla": cv.replace(
            "EigWeight(w) == w", "EigWeight(w) == Abs(w)")}, {"InvD2FIdentity"}),
        ("pairs-as-self", "MC_RandomDispCov", CFG_COV, {"MC_RandomDispCov.tla": mc, "RandomDisp.tla": rd.replace(
            'js == {j \\in 1..Len(P) : ModV(VAdd(P[i], P[j]), n) = Zero3}', 'js == {j \\in 1..Len(P) : ModV(VSub(P[i], P[j]), n) = Zero3}')},
         {"InvPartition"}),
        ("msd-real-part", "MC_ThermalDisp", CFG_TDM, {"MC_ThermalDisp.tla": mct, "ThermalDisp.tla": td.replace(
            "sample[valid[j]].w * GNorm2(sample[valid[j]].e[k][a])])]]", "sample[valid[j]].w * sample[valid[j]].e[k][a][1] * sample[valid[j]].e[k][a][1]])]]")},
         {"InvDiagonalIsMSD"}),
    ]
    report = {}
    for name, module, cfg, files, expect in jobs:
        if any(files[k] in (rd, cv, td) for k in files if k in ("RandomDisp.tla", "RandomDispCov.tla", "ThermalDisp.tla")):
            raise tlcmod.MachineryError("spec mutant %s did not change the module" % name)
        res = tlcmod.run(module, cfg_text=cfg, extra_files=files, extra_args=("-continue",), workers=4)
        tlcmod.cleanup(res)
        got = set(n for n, _ in res.violations)
        report[name] = sorted(got)
        if not expect <= got:
            raise tlcmod.MachineryError("wrong specification variant %s not rejected (%s)" % (name, sorted(got)))
    ctx.extra["spec_self_check"] = report


# ---------------------------------------------------------------------------
# histories on one instance (spec/RandomDispHistory.tla): TLC enumerates, the real class is driven along
# every history (spec -> code), the recorded provenances are validated by TLC (code -> spec)
# ---------------------------------------------------------------------------
HIST_TEMPS = {"T1": 300.0, "T2": 20.0}
HIST_SCALES = {"s1": 1.25, "s2": 0.7}
HIST_CRYSTALS = [("sc", [[2, 1, 0], [0, 2, 0], [0, 0, 1]], None), ("tric", [[3, 0, 0], [0, 1, 0], [0, 0, 1]], None)]

MC_HIST = """---- MODULE MC_RandomDispHistory ----
EXTENDS RandomDispHistory
MCTemps == {"T1", "T2"}
MCScales == {"s1", "s2"}
MCMaxLen == %d
MCInvalidate == %s
====
"""
CFG_HIST = """SPECIFICATION Spec
CONSTANTS
 Temps <- MCTemps
 Scales <- MCScales
 MaxLen <- MCMaxLen
 Invalidate <- MCInvalidate
CHECK_DEADLOCK FALSE
INVARIANT InvCanonicalAfterAnyHistory
INVARIANT InvEig
INVARIANT InvCacheCoherent
INVARIANT InvRunMatchesCorrelation
"""
MC_HISTT = """---- MODULE MC_RandomDispHistoryTrace ----
EXTENDS RandomDispHistoryTrace
MCTemps == {"T1", "T2"}
MCScales == {"s1", "s2"}
MCMaxLen == %d
MCInvalidate == TRUE
MCEvents == {%s}
====
"""
CFG_HISTT = """INIT TInit
NEXT TNext
CONSTANTS
 Temps <- MCTemps
 Scales <- MCScales
 MaxLen <- MCMaxLen
 Invalidate <- MCInvalidate
 Events <- MCEvents
CHECK_DEADLOCK FALSE
INVARIANT ImplCanonicalAfterAnyHistory
INVARIANT InvCanonicalAfterAnyHistory
INVARIANT InvCacheCoherent
INVARIANT ConformsHistory
INVARIANT ConformsObservations
"""
P_NONE = dict(T="-", eig=["-"])
P_UNKNOWN = dict(T="?", eig=["?"])


@contextlib.contextmanager
def single_omp_thread():
    """thousands of 4-9 atom kernel calls: OpenMP team start-up on a busy machine costs ~100 ms per call;
    the kernels' results do not depend on the thread count (C13's subject)."""
    import ctypes
    try:
        g = ctypes.CDLL("libgomp.so.1")
        nthr = g.omp_get_max_threads()
        g.omp_set_num_threads(1)
    except OSError:
        g = None
    try:
        yield
    finally:
        if g is not None:
            g.omp_set_num_threads(nthr)


class HistoryOracle:
    """canonical covariance and force constants of every (eigen-solution version, T) of a history, from the
    supercell modes of the exact force constants.  A modification acts on the frequencies mode by mode
    (scale: f -> s f; treat: f -> |f|, + 1 THz inside (0.01, 0.5) THz), i.e. as a matrix function of the
    supercell dynamical matrix, so it is applied to the supercell spectrum directly."""

    def __init__(self, fc, masses, cutoff=0.01):
        f, lam, self.V, self.msq = num.supercell_modes(fc, masses)
        self.f0 = f * np.sign(lam)
        self.n = len(masses)
        self.cutoff = cutoff
        self._cov, self._fc = {}, {}

    def freqs(self, ver):
        f = self.f0.copy()
        for m in ver:
            if m == "treat":
                a = np.abs(f)
                for edge in (0.01, 0.5):
                    if np.min(np.abs(a - edge) / edge) < 1e-7:
                        raise tlcmod.MachineryError("frequency on the edge of the treat_imaginary_modes window")
                f = np.where((a > 0.01) & (a < 0.5), a + 1.0, a)
            else:
                f = f * HIST_SCALES[m]
        return f

    def cov(self, ver, tid):
        key = (tuple(ver), tid)
        if key not in self._cov:
            f = np.abs(self.freqs(ver))
            keep = f > self.cutoff
            if np.min(np.abs(f - self.cutoff) / np.maximum(f, self.cutoff)) < 1e-5:
                raise tlcmod.MachineryError("frequency on the cutoff in a history")
            a2 = np.zeros_like(f)
            a2[keep] = num.mode_a2(f[keep], HIST_TEMPS[tid], "quantum")
            self._cov[key] = (self.V * a2) @ self.V.T / np.outer(self.msq, self.msq)
        return self._cov[key]

    def fc(self, ver):
        key = tuple(ver)
        if key not in self._fc:
            f = self.freqs(ver)
            lam = (f / num.freq_thz(1.0)) ** 2 * np.sign(f)
            self._fc[key] = num.to4((self.V * lam) @ self.V.T * np.outer(self.msq, self.msq), self.n)
        return self._fc[key]

    def match_cov(self, C, eig, tid, versions):
        """provenance of an observed covariance: the current (eig, T) first, then anything of the history."""
        cands = [(eig, tid)] + [(v, t) for v in versions for t in sorted(HIST_TEMPS) if (v, t) != (eig, tid)]
        for v, t in cands:
            if num.relerr(C, self.cov(v, t)) <= TOL * 1e-12:
                return dict(T=t, eig=list(v)), num.relerr(C, self.cov(eig, tid))
        return dict(P_UNKNOWN), num.relerr(C, self.cov(eig, tid))

    def match_fc(self, F, eig, versions):
        for v in [eig] + [v for v in versions if v != eig]:
            if num.relerr(F, self.fc(v)) <= TOL * 1e-12:
                return dict(T="-", eig=list(v)), num.relerr(F, self.fc(eig))
        return dict(P_UNKNOWN), num.relerr(F, self.fc(eig))


def perform_history(ph, fc, horc, hist, route, seed):
    """drive one real instance along `hist`; -> observed provenance after every action, worst deviation."""
    n = len(ph.supercell)
    if route == "api":
        with contextlib.redirect_stdout(io.StringIO()):
            ph.init_random_displacements()
        rd = ph.random_displacements
    else:
        rd = RandomDisplacements(ph.supercell, ph.primitive, fc.copy())
    eig = []
    versions = [[]]
    obs = []
    worst = 0.0
    for act in hist:
        a, arg = act["a"], act["arg"]
        if a == "run":
            T = HIST_TEMPS[arg]
            ok_lin = True
            if route == "api":
                if ph.random_displacements is not rd:
                    raise AssertionError("Phonopy replaced its RandomDisplacements instance")
                d = ph.get_random_displacements_at_temperature(T, 2, random_seed=seed)
            A = extract_linear_map(rd, T)
            if route == "api":
                nb = len(rd._eigvals_ii[0])
                xi = variates(seed, len(rd._ii), len(rd._ij), nb, 2)
                ok_lin = float(np.abs(d.reshape(2, -1) - xi @ A).max() / max(np.abs(A).max(), 1e-300)) <= TOL * 1e-12
            p, dev = horc.match_cov(A.T @ A, eig, arg, versions)
            if not ok_lin:
                p = dict(P_UNKNOWN)
            obs.append(p)
        elif a == "set":
            rd.frequencies = rd.frequencies * HIST_SCALES[arg]
            eig = eig + [arg]
            versions.append(eig)
            obs.append(dict(P_NONE))
            dev = 0.0
        elif a == "treat":
            rd.treat_imaginary_modes()
            eig = eig + ["treat"]
            versions.append(eig)
            p, dev = horc.match_fc(rd.force_constants, eig, versions)
            obs.append(p)
        elif a == "corr":
            rd.run_correlation_matrix(HIST_TEMPS[arg])
            p, dev = horc.match_cov(np.array(rd.uu).transpose(0, 2, 1, 3).reshape(3 * n, 3 * n), eig, arg, versions)
            obs.append(p)
        elif a == "d2f":
            rd.run_d2f()
            p, dev = horc.match_fc(rd.force_constants, eig, versions)
            obs.append(p)
        else:
            raise tlcmod.MachineryError("unknown action %s" % a)
        if obs[-1] == dict(T=arg if a in ("run", "corr") else "-", eig=eig) or a == "set":
            worst = max(worst, dev)
    return obs, worst


def run_history(ctx, oracles):
    with single_omp_thread():
        _run_history(ctx, oracles)


def _run_history(ctx, oracles):
    from harness import tla_values

    maxlen = 3 if ctx.quick else 4
    mc = MC_HIST % (maxlen, "TRUE")
    res = ctx.tlc("MC_RandomDispHistory", cfg_text=CFG_HIST, extra_files={"MC_RandomDispHistory.tla": mc},
                  requirement=True, dump=True, keep=True, coverage=True,
                  what="the history machine of RandomDisplacements violates its own requirement (specification defect)")
    cov = {k: v[1] for k, v in res.coverage.items()}
    states = [] if res.violated else tla_values.parse_dump(res.dump_path)
    tlcmod.cleanup(res)
    if not res.violated:
        for a in ("Run", "SetFrequencies", "TreatImaginary", "RunCorrelation", "RunD2F"):
            if cov.get(a, 0) == 0:
                raise tlcmod.MachineryError("action %s of RandomDispHistory never fired" % a)
    # the requirement is not vacuous: a cache keyed on the temperature only must violate it
    bad = tlcmod.run("MC_RandomDispHistory", cfg_text=CFG_HIST, extra_files={"MC_RandomDispHistory.tla": MC_HIST % (3, "FALSE")},
                     extra_args=("-continue",), workers=2)
    tlcmod.cleanup(bad)
    got = set(nm for nm, _ in bad.violations)
    if not {"InvCanonicalAfterAnyHistory", "InvCacheCoherent"} <= got:
        raise tlcmod.MachineryError("stale-cache variant of the history machine not rejected (%s)" % sorted(got))
    full = [st for st in states if len(st["hist"]) == maxlen]
    ctx.extra["history_model"] = dict(max_length=maxlen, states=len(states), histories=len(full), action_coverage=cov,
                                      stale_cache_variant_rejected_by=sorted(got))
    rng = random.Random(7 * ctx.seed + 4)
    plans = []      # (crystal, route, histories)
    observing = [st for st in full if any(x["a"] != "set" for x in st["hist"])]
    if ctx.quick:
        short = [st for st in states if len(st["hist"]) == 3]
        plans.append((HIST_CRYSTALS[0], "class", observing))
        plans.append((HIST_CRYSTALS[1], "class", rng.sample(observing, 96)))
        plans.append((HIST_CRYSTALS[0], "api", rng.sample(observing, 96)))
    else:
        len3 = [st for st in states if len(st["hist"]) == 3 and any(x["a"] != "set" for x in st["hist"])]
        plans.append((HIST_CRYSTALS[0], "class", observing))
        plans.append((HIST_CRYSTALS[1], "class", len3))
        plans.append((HIST_CRYSTALS[0], "api", len3))
        plans.append((HIST_CRYSTALS[1], "api", rng.sample(len3, 128)))
    events = []
    worst = 0.0
    nrep = 0
    for (entry, S, cent), route, hs in plans:
        orc = oracles[entry]
        with contextlib.redirect_stdout(io.StringIO()):
            ph = Phonopy(orc.unitcell(), supercell_matrix=S, primitive_matrix=cent, log_level=0)
        fc0 = orc.supercell_fc(S, ph.supercell)
        # stiffness scale: the upper edge (0.5 THz) of the treat_imaginary_modes window falls into a spectral gap
        f, lam, V, msq = num.supercell_modes(fc0, np.array(ph.supercell.masses))
        lv = num.levels(f)
        mid = num.gap_value(lv, max(1, len(lv) // 2))
        fc = fc0 * (0.5 / mid) ** 2
        horc = HistoryOracle(fc, np.array(ph.supercell.masses))
        if route == "api":
            with contextlib.redirect_stdout(io.StringIO()):
                ph.force_constants = fc.copy()
        for st in hs:
            hist = [dict(a=x["a"], arg=x["arg"]) for x in st["hist"]]
            want = [dict(T=o["T"], eig=list(o["eig"])) for o in st["obs"]]
            key = dict(crystal=entry, S=S, route=route, history=hist)
            try:
                obs, w = perform_history(ph, fc, horc, hist, route, 4000 + ctx.seed)
            except tlcmod.MachineryError:
                raise
            except Exception as e:
                ctx.violation("history:exception", "%s raised along a history on one instance" % type(e).__name__,
                              dict(key, exception="%s: %s" % (type(e).__name__, e)))
                continue
            worst = max(worst, w)
            nrep += 1
            ctx.count(("history", entry, route, to_tla(hist)))
            for k in range(len(hist)):
                if obs[k] != want[k]:
                    ctx.violation("history-replay:%s:%s" % (route, hist[k]["a"]),
                                  "after the history, %s on the same instance is not that of a fresh instance with the "
                                  "current eigen-solutions" % hist[k]["a"],
                                  dict(key, step=k + 1, expected=want[k], observed=obs[k]))
                    break
            events.append(dict(route=route, crystal=entry, hist=hist, obs=obs))
    ctx.traces += nrep
    ctx.extra["history_replay"] = dict(replayed=nrep, worst_relative_deviation=worst,
                                       plans=[(c[0], r, len(h)) for c, r, h in plans])
    if worst > 1e-3 * TOL * 1e-12:
        raise tlcmod.MachineryError("history deviation %g too close to the tolerance" % worst)
    ctx.sample(events[len(events) // 3])
    def wit(e):
        return dict(route=e.get("route"), crystal=e.get("crystal"), hist=e.get("hist"), obs=e.get("obs"))

    dist = list({to_tla(e): e for e in events}.values())
    chunk = 1200
    for c0 in range(0, len(dist), chunk):
        part = dist[c0:c0 + chunk]
        mct = MC_HISTT % (maxlen, ",\n".join(to_tla(e) for e in part))
        res = judge(ctx, "history", "MC_RandomDispHistoryTrace", CFG_HISTT, mct, part, wit,
                    coverage=(not ctx.quick and c0 == 0))
        want_states = sum(len(e["hist"]) + 1 for e in part)
        if not res.violations and res.distinct != want_states:
            raise tlcmod.MachineryError("history trace validation incomplete: %d of %d states" % (res.distinct, want_states))


def replay(ctx):
    """./check C19 --replay <file>: re-run the part of the check that produced the violation (same tier and seed
    as recorded) and print the recorded witness."""
    import json
    with open(ctx.replay_path) as f:
        rec = json.load(f)
    ctx.tier, ctx.seed = rec.get("tier", ctx.tier), rec.get("seed", ctx.seed)
    key = rec.get("key", "")
    print("replaying %s: %s" % (key, json.dumps(rec.get("detail", {}).get("witness", rec.get("detail")), default=str)[:600]))
    if key.startswith("thermal-replay") or key.startswith("tlc:MC_ThermalDisp"):
        run_td_model(ctx)
    elif key.startswith("thermal"):
        run_td(ctx, build_oracles(ctx))
    elif key.startswith("tlc:MC_RandomDispCov"):
        run_cov_model(ctx)
    elif key.startswith("history") or key.startswith("tlc:MC_RandomDispHistory"):
        run_history(ctx, build_oracles(ctx))
    else:
        oracles = build_oracles(ctx)
        run_points(ctx, run_rd(ctx, oracles))


def run(ctx):
    warnings.simplefilter("ignore")
    np.seterr(all="ignore")
    ctx.rule = ("sampling structure: every supercell matrix (all sublattices of index <= 8 (quick) / 12 (thorough) as "
                "Hermite normal forms plus random re-basings) is one case; canonical statistics: every (crystal, "
                "supercell, centring, temperature, statistics, cutoff kind, stiffness scale); thermal displacements: "
                "every (crystal, mesh, shift, temperature set, frequency window, direction); histories: every action sequence of "
                "length 3 (quick) / 4 (thorough) over run/run_correlation_matrix at 2 temperatures, 2 frequency scalings, "
                "treat_imaginary_modes, run_d2f on one instance (class and Phonopy routes)")
    if ctx.replay_path:
        return replay(ctx)
    oracles = build_oracles(ctx)
    rd_events = run_rd(ctx, oracles)
    self_check_trace(ctx, rd_events)
    run_points(ctx, rd_events)
    run_history(ctx, oracles)
    run_cov_model(ctx)
    run_td_model(ctx)
    run_td(ctx, oracles)
    if not ctx.quick:
        self_check_specs(ctx)
    ctx.exhaustive = False
    ctx.assumptions += [
        "real-valued primitives (exp, sqrt, eigh, cos/sin at angles outside twelfths of a turn) are interpreted by "
        "numpy on values the specification produced exactly (harness/c19_num.py); base constants are the repository's "
        "2006 CODATA values written out literally",
        "Smith normal forms (P, Q, D) are taken from the real SNF3x3 and checked against the contract D = P S^T Q, "
        "P, Q unimodular, D positive diagonal, by TLC",
        "cell geometry (positions, lattices, supercell-to-primitive classes) of the real Supercell/Primitive objects is "
        "trusted here (subject of C04); dynamical matrices of the real code are not used: the harness rebuilds D(q) from "
        "the oracle's force constants with minimum-image averaging",
        "unstable spring-model crystals (spec/C19Unstable.tla) are in scope for the run_d2f identity, the spectrum and the "
        "sampling structure; for them the covariance clauses are judged with |omega| as the code documents; "
        "thermal displacements use stable crystals only; max_distance clipping is out of scope",
        "mean-square displacement samples are closed under q -> -q (Gamma-centred or half-shifted meshes)",
    ]
