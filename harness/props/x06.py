"""X06 (extra) - cell utilities of phonopy/structure/cells.py and the PhonopyAtoms class.

Specification: spec/CellUtils.tla (pure requirements), CellCatalogue.tla, CellCat.tla, CellEstimate.tla, CellClose.tla,
CellUtilsTrace.tla, AtomsSM.tla.  Real-code drivers and projections: harness/x06_driver.py.

 (a) TLC model level: the centring table is a table of lattices and is what the catalogue crystals (one per letter /
     crystal system, exact space group computed by TLC) have as pure translations; the greedy loop of
     estimate_supercell_matrix meets the loop-free requirement (EstimateReq) for every case, ties broken either way;
     the definition of cell equivalence is an equivalence, invariant under permutations / lattice translations.
 (b) spec -> code: outcomes of the estimate machine, verdicts of the isclose definition for every enumerated pair of
     cells, rotation lists of the exact space groups (is_primitive_cell) are replayed on the real functions.
 (c) code -> spec: centring matrices, guess_primitive_matrix x get_primitive, estimates on real spglib datasets,
     Niggli / Delaunay reduced bases, cell parameters / angles / get_cell_matrix_from_lattice are recorded as exact
     integers and judged by TLC (CellUtilsTrace: Impl...).
 (d) PhonopyAtoms: histories of constructions / setters / copy() / mutations of caller-owned containers enumerated by
     TLC (AtomsSM) are replayed on the real class, comparing the projected state after every step; yaml text round
     trip to the printed precision recorded in the specification.
"""
from __future__ import annotations

import json
import os
from concurrent.futures import ThreadPoolExecutor

import numpy as np

from harness import tlc as tlcmod
from harness import tla_values

VERIF = tlcmod.VERIF


def printed(stdout, tag):
    out = []
    head = '"<<\\"%s\\"' % tag
    for line in stdout.splitlines():
        if line.startswith(head):
            out.append(tla_values.parse_value(json.loads(line)))
    return out


def account(ctx, module, res, note):
    ctx.states += res.distinct
    ctx.transitions += res.generated
    ctx.tlc_runs.append(dict(module=module, cfg=note, **res.summary(), coverage=None))


def unfreeze(x):
    if isinstance(x, dict):
        return {k: unfreeze(v) for k, v in x.items()}
    if isinstance(x, (list, tuple)):
        return [unfreeze(v) for v in x]
    return x


def toset(rows):
    return "{" + ",\n ".join(tla_values.to_tla(r) for r in rows) + "}"


# ---------------------------------------------------------------------------------------------
def catalogue_model(ctx):
    cfg = ("INIT KInit\nNEXT KNext\nCHECK_DEADLOCK FALSE\nINVARIANT TableIsLattices\nINVARIANT CentringIsDeclared\n"
           "INVARIANT PrimitiveIffNoCentring\nINVARIANT GroupHasIdentity\nINVARIANT FastIsAut\nINVARIANT Emit\nINVARIANT EmitTable\n")
    res = ctx.tlc("CellCat", cfg_text=cfg, requirement=True, workers=4, coverage=True,
                  what="TLC: centring table / catalogue inconsistent with the definition of a centred lattice")
    rows = printed(res.stdout, "XCELL")
    entries, prim_rows = [], []
    for _, e, rots, isprim in rows:
        e = unfreeze(e)
        entries.append(e)
        prim_rows.append((e["name"], unfreeze(rots), bool(isprim)))
    ctx.extra["_pmat_table"] = [tuple(t) for t in printed(res.stdout, "PMAT")[0][1]]
    ctx.extra["_shape_table"] = [unfreeze(list(t)) for t in printed(res.stdout, "SHAPE")[0][1]]
    if len(entries) < 17:
        raise tlcmod.MachineryError("x06: only %d catalogue entries emitted" % len(entries))
    entries.sort(key=lambda e: e["name"])
    return entries, prim_rows


# ---------------------------------------------------------------------------------------------
SYSTEMS = ["triclinic", "monoclinic", "orthorhombic", "tetragonal", "trigonal", "hexagonal", "cubic"]


def estimate_cases(ctx):
    rng = np.random.default_rng(1000 + ctx.seed)
    free = [[1, 4, 9], [2, 8, 18], [3, 4, 6], [9, 4, 1], [5, 5, 7], [1, 1, 30], [4, 9, 9], [7, 3, 5]]
    ac = [[4, 4, 5], [2, 2, 8], [9, 9, 1], [1, 1, 16], [3, 3, 3], [5, 5, 20]]
    cub = [[1, 1, 1], [7, 7, 7]]
    maxns = [1, 2, 7, 8, 11, 12, 16, 23, 27, 30, 48, 64, 100, 120]
    cases = []
    for sys_ in SYSTEMS:
        l2s = free if sys_ in SYSTEMS[:3] else (cub if sys_ == "cubic" else ac)
        for l2 in l2s:
            for n in (1, 2, 3, 5):
                for maxn in maxns:
                    for maxit in (2, 5, 20):
                        cases.append(dict(n=n, l2=l2, sys=sys_, maxn=maxn, maxit=maxit))
    if ctx.quick:
        idx = rng.permutation(len(cases))[:1500]
        cases = [cases[i] for i in sorted(idx)]
    return cases


def estimate_model(ctx):
    cases = estimate_cases(ctx)
    mc = "---- MODULE MC_CellEstimate ----\nEXTENDS CellEstimate\nMCCases == %s\n====\n" % toset(cases)
    cfg = ("INIT EInit\nNEXT ENext\nCONSTANTS\n Cases <- MCCases\nCHECK_DEADLOCK FALSE\nINVARIANT InvRequirement\nINVARIANT InvAlways\n"
           "INVARIANT Emit\n")
    res = ctx.tlc("MC_CellEstimate", cfg_text=cfg, extra_files={"MC_CellEstimate.tla": mc}, requirement=True, workers=6, coverage=True,
                  what="TLC: the greedy loop of estimate_supercell_matrix has an outcome that violates EstimateReq")
    outcomes = {}
    for _, c, m in printed(res.stdout, "EST"):
        c = unfreeze(c)
        key = (c["n"], tuple(c["l2"]), c["sys"], c["maxn"], c["maxit"])
        outcomes.setdefault(key, set()).add(tuple(m))
    if len(outcomes) != len(set((c["n"], tuple(c["l2"]), c["sys"], c["maxn"], c["maxit"]) for c in cases)):
        raise tlcmod.MachineryError("x06: estimate machine reported %d of %d cases" % (len(outcomes), len(cases)))
    ctx.extra["estimate_cases"] = dict(cases=len(outcomes), with_ties=sum(1 for v in outcomes.values() if len(v) > 1))
    return outcomes


def estimate_replay(ctx, outcomes):
    from harness import x06_driver as drv

    rng = np.random.default_rng(2000 + ctx.seed)
    bad = []
    n = 0
    for k, (key, allowed) in enumerate(sorted(outcomes.items())):
        natom, l2, sys_, maxn, maxit = key
        routes = [("spg", drv.SPG_OF_SYSTEM[sys_])]
        if natom == 1:
            routes.append(("pg", drv.PG_OF_SYSTEM[sys_]))
        for which, (lo, hi) in routes:
            for num in sorted({lo, hi, int(rng.integers(lo, hi + 1))}):
                got = drv.estimate_call(which, num, natom, list(l2), maxn, maxit, rng, sheared=(sys_ == "triclinic" and k % 2 == 0))
                n += 1
                ctx.count(("est", which, num, key))
                if tuple(got) not in allowed:
                    bad.append(dict(route=which, number=num, num_atoms=natom, lengths_squared=list(l2), max_num_atoms=maxn, max_iter=maxit,
                                    expected_one_of=sorted(allowed), got=got))
    ctx.traces += n
    ctx.extra["estimate_replayed_calls"] = n
    if bad:
        ctx.violation("estimate:replay", "estimate_supercell_matrix(_from_pointgroup) returns multiplicities that are not an outcome of "
                      "CellEstimate.tla (%d of %d calls)" % (len(bad), n), dict(mismatches=len(bad), witnesses=bad[:5]))


# ---------------------------------------------------------------------------------------------
CLOSE_D = 4


def close_model(ctx):
    bases = [dict(lat=1, atoms=[dict(sp=1, num=[0, 0, 0]), dict(sp=2, num=[2, 2, 2]), dict(sp=1, num=[1, 3, 0])]),
             dict(lat=1, atoms=[dict(sp=1, num=[0, 0, 0]), dict(sp=1, num=[2, 0, 0]), dict(sp=2, num=[1, 1, 1])]),
             dict(lat=2, atoms=[dict(sp=2, num=[3, 0, 1]), dict(sp=1, num=[0, 2, 0])])]
    if not ctx.quick:
        bases.append(dict(lat=1, atoms=[dict(sp=1, num=[0, 0, 0]), dict(sp=2, num=[2, 2, 2]), dict(sp=1, num=[2, 2, 0]), dict(sp=2, num=[0, 0, 2])]))
    shifts = [[1, 0, 0], [0, -1, 0], [0, 0, 2], [-1, 1, 0]] if not ctx.quick else [[1, 0, 0], [0, -1, 2]]
    moves = [[2, 0, 0], [0, 1, 0], [-1, 0, 1]] if not ctx.quick else [[2, 0, 0], [0, 1, -1]]
    mc = ("---- MODULE MC_CellClose ----\nEXTENDS CellClose\nMCBases == %s\nMCShifts == %s\nMCMoves == %s\n====\n"
          % (toset(bases), toset(shifts), toset(moves)))
    cfg = ("INIT CInit\nNEXT CNext\nCONSTANTS\n Bases <- MCBases\n DD = %d\n MaxOps = 2\n Shifts <- MCShifts\n Moves <- MCMoves\n"
           "CHECK_DEADLOCK FALSE\nINVARIANT InvEquivalence\nINVARIANT InvPermutation\nINVARIANT InvTranslation\nINVARIANT Emit\n" % CLOSE_D)
    res = ctx.tlc("MC_CellClose", cfg_text=cfg, extra_files={"MC_CellClose.tla": mc}, requirement=True, workers=6, coverage=True,
                  what="TLC: the definition of cell equivalence is not an equivalence / not invariant as stated")
    rows = []
    seen = set()
    for _, a, b, o, ao, order, conv in printed(res.stdout, "ISC"):
        a, b = unfreeze(a), unfreeze(b)
        k = json.dumps([a, b], sort_keys=True)
        if k not in seen:
            seen.add(k)
            rows.append((a, b, bool(o), bool(ao), unfreeze(order), set(conv)))
    if len(rows) < 200:
        raise tlcmod.MachineryError("x06: only %d isclose pairs emitted" % len(rows))
    return rows


def close_replay(ctx, rows):
    from harness import x06_driver as drv

    rng = np.random.default_rng(3000 + ctx.seed)
    bad = drv.isclose_replay(rows, CLOSE_D, rng)
    for a, b, o, ao, _, _ in rows:
        ctx.count(("isc", json.dumps([a, b], sort_keys=True)))
    cbad, cn = drv.convert_replay(rows, CLOSE_D, rng)
    ctx.traces += cn
    ctx.extra["convert_to_phonopy_primitive_calls"] = cn
    if cbad:
        ctx.violation("convert_to_phonopy_primitive:replay", "convert_to_phonopy_primitive differs from ConvertReq / the definition of its "
                      "result (%d of %d calls)" % (len(cbad), cn), dict(mismatches=len(cbad), witnesses=cbad[:4]))
    ctx.traces += len(rows)
    ctx.extra["isclose_pairs"] = dict(pairs=len(rows), ordered_true=sum(1 for r in rows if r[2]), any_order_true=sum(1 for r in rows if r[3]))
    if bad:
        ctx.violation("isclose:replay", "isclose differs from the definition of CellUtils.tla (%d of %d pairs)" % (len(bad), len(rows)),
                      dict(mismatches=len(bad), witnesses=bad[:4]))


# ---------------------------------------------------------------------------------------------
TRACE_INV = ["ImplCentring", "ImplGuess", "ImplEstimate", "ImplReduce", "ImplParams", "ImplTolerance", "ImplYaml"]


def trace_run(events):
    rundir = tlcmod.new_rundir("CellUtilsTrace")
    path = os.path.join(rundir, "events.ndjson")
    with open(path, "w") as f:
        for e in events:
            f.write(json.dumps(e) + "\n")
    mc = "---- MODULE MC_CellUtilsTrace ----\nEXTENDS CellUtilsTrace\nMCEventFile == \"%s\"\n====\n" % path
    cfg = ("INIT TInit\nNEXT TNext\nCONSTANTS\n EventFile <- MCEventFile\nCHECK_DEADLOCK FALSE\nINVARIANT Report\n"
           + "".join("INVARIANT %s\n" % i for i in TRACE_INV))
    res = tlcmod.run("MC_CellUtilsTrace", cfg_text=cfg, extra_files={"MC_CellUtilsTrace.tla": mc}, extra_args=("-continue",),
                     workers=4, rundir=rundir, keep=True)
    tlcmod.cleanup(res)
    return res


EVENT_FIELDS = dict(
    centring=("id", "kind", "letter", "Mn", "den", "exact"),
    guess=("id", "kind", "crystal", "Mn", "den", "exact", "natomprim", "primisprim", "convisprim", "nrot"),
    estsys=("id", "kind", "which", "num", "n", "l2", "maxn", "maxit", "res"),
    estxtal=("id", "kind", "crystal", "Pm", "runs"),
    reduce=("id", "kind", "method", "Gin", "Tm", "exact", "det"),
    yaml=("id", "kind", "field", "shown", "err", "ulp", "same"),
    tol=("id", "kind", "cls", "mode", "verdict"),
    params=("id", "kind", "Gin", "l2", "c23", "c13", "c12", "exact", "lower", "G2"),
)


def validate(ctx, events):
    """One TLC run per event kind (homogeneous records), in parallel."""
    bykind = {}
    for e in events:
        bykind.setdefault(e["kind"], []).append(e)
    byid = {e["id"]: e for e in events}

    def one(kind):
        evs = [{k: e[k] for k in EVENT_FIELDS[kind]} for e in bykind[kind]]
        return kind, trace_run(evs)

    verdict = {}
    with ThreadPoolExecutor(max_workers=3) as ex:
        for kind, res in ex.map(one, sorted(bykind)):
            account(ctx, "MC_CellUtilsTrace", res, "(generated, %d %s events)" % (len(bykind[kind]), kind))
            got = {}
            for _, eid, failed in printed(res.stdout, "V"):
                got[eid] = sorted(failed)
            if set(got) != set(e["id"] for e in bykind[kind]):
                raise tlcmod.MachineryError("x06: TLC reported on %d of %d %s events\n%s" % (len(got), len(bykind[kind]), kind, res.stdout[-1500:]))
            inv_failed = bool([n for n, _ in res.violations if n.startswith("Impl")])
            if inv_failed != any(got.values()):
                raise tlcmod.MachineryError("x06: invariant verdicts differ from the per-event report (%s)" % kind)
            verdict.update(got)
    groups = {}
    for eid, failed in verdict.items():
        byid[eid]["failed_clauses"] = failed
        for clause in failed:
            groups.setdefault("%s:%s" % (byid[eid]["kind"], clause.split(" (")[0]), []).append(eid)
    for key, ids in sorted(groups.items()):
        ctx.violation("cells:" + key, "requirement clause '%s' of CellUtils.tla fails on what the real function returned (%d events)"
                      % (key, len(ids)), dict(events=len(ids), witnesses=[byid[i] for i in ids[:4]]))
    ctx.extra["trace_events"] = {k: len(v) for k, v in sorted(bykind.items())}
    ctx.extra["trace_events_violating"] = sum(1 for v in verdict.values() if v)
    return verdict


def binding_demos(ctx):
    """Corrupted events must be rejected by TLC (otherwise the trace specification would be vacuous)."""
    demos = [
        ("F matrix with one entry changed", dict(id=1, kind="centring", letter="F", Mn=[[0, 3, 3], [3, 0, 3], [3, 3, 3]], den=6, exact=True), "volume"),
        ("I matrix given for letter F", dict(id=2, kind="centring", letter="F", Mn=[[-3, 3, 3], [3, -3, 3], [3, 3, -3]], den=6, exact=True), "columns-in-lattice"),
        ("reduced basis of a sublattice", dict(id=3, kind="reduce", method="niggli", Gin=[[1, 0, 0], [0, 1, 0], [0, 0, 1]],
                                               Tm=[[2, 0, 0], [0, 1, 0], [0, 0, 1]], exact=True, det=2), "same-lattice"),
        ("unreduced basis reported as Niggli", dict(id=4, kind="reduce", method="niggli", Gin=[[1, 0, 0], [0, 1, 0], [0, 0, 1]],
                                                    Tm=[[1, 1, 0], [0, 1, 0], [0, 0, 1]], exact=True, det=1), "niggli:order"),
        ("unreduced basis reported as shortest", dict(id=5, kind="reduce", method="delaunay", Gin=[[1, 0, 0], [0, 1, 0], [0, 0, 1]],
                                                      Tm=[[1, 1, 0], [0, 1, 0], [0, 0, 1]], exact=True, det=1), "minima:third"),
        ("estimate one step short", dict(id=6, kind="estsys", which="spg", num=47, n=1, l2=[1, 4, 9], maxn=100, maxit=100, res=[5, 3, 2]), "terminal"),
        ("estimate not spherical", dict(id=7, kind="estsys", which="spg", num=47, n=1, l2=[1, 4, 9], maxn=36, maxit=100, res=[3, 3, 3]), "balanced"),
        ("tetragonal estimate with a # b", dict(id=8, kind="estsys", which="pg", num=10, n=1, l2=[4, 4, 9], maxn=12, maxit=100, res=[3, 2, 2]), "symmetry"),
    ]
    with ThreadPoolExecutor(max_workers=4) as ex:
        results = list(ex.map(lambda d: trace_run([{k: d[1][k] for k in EVENT_FIELDS[d[1]["kind"]]}]), demos))
    for (name, ev, expect), res in zip(demos, results):
        account(ctx, "MC_CellUtilsTrace", res, "(binding demonstration: %s)" % name)
        got = [sorted(f) for _, _, f in printed(res.stdout, "V")]
        ok = bool(got) and expect in got[0] and bool([n for n, _ in res.violations if n.startswith("Impl")])
        ctx.extra.setdefault("binding_demos", []).append(dict(demo=name, expected=expect, rejected_for=got[0] if got else None, ok=ok))
        if not ok:
            raise tlcmod.MachineryError("x06: corrupted event '%s' was not rejected for '%s' (got %s)" % (name, expect, got))


def real_events(ctx, entries):
    from harness import x06_driver as drv

    rng = np.random.default_rng(4000 + ctx.seed)
    counter = [0]

    def next_id():
        counter[0] += 1
        return counter[0]

    events = drv.centring_events(next_id)
    events += drv.guess_events(entries, rng, next_id)
    maxns = [1, 8, 20, 50, 120, 300] if ctx.quick else [1, 2, 8, 16, 20, 50, 64, 120, 200, 300, 500]
    ex, skipped = drv.estimate_xtal_events(entries, rng, next_id, maxns, [None, 3] if ctx.quick else [None, 1, 3, 7])
    events += ex
    ctx.extra["estimate_crystals_not_in_standard_setting"] = skipped
    if len(entries) - len(skipped) < 14:
        raise tlcmod.MachineryError("x06: only %d catalogue crystals are returned by spglib in the setting they are given in"
                                    % (len(entries) - len(skipped)))
    # free-standing estimate calls with the default iteration limit (the replay uses small limits)
    for k in range(40 if ctx.quick else 200):
        sys_ = SYSTEMS[k % 7]
        a, b, c = (int(x) for x in rng.integers(1, 30, size=3))
        l2 = [a, b, c] if k % 7 < 3 else ([a, a, a] if sys_ == "cubic" else [a, a, c])
        which = "pg" if k % 2 else "spg"
        n = 1 if which == "pg" else int(rng.integers(1, 7))
        lo, hi = (drv.PG_OF_SYSTEM if which == "pg" else drv.SPG_OF_SYSTEM)[sys_]
        num = int(rng.integers(lo, hi + 1))
        maxn = int(rng.choice([5, 17, 40, 120, 333, 1000]))
        res = drv.estimate_call(which, num, n, l2, maxn, 100, rng, sheared=(sys_ == "triclinic"))
        events.append(dict(id=next_id(), kind="estsys", which=which, num=num, n=n, l2=l2, maxn=maxn, maxit=100, res=res))
    events += drv.reduce_events(rng, next_id, 6 if ctx.quick else 40, 4 if ctx.quick else 8)
    events += drv.tolerance_events(rng, next_id)
    events += drv.yaml_events(entries, rng, next_id)
    pe, worst = drv.params_events(rng, next_id, 6 if ctx.quick else 40)
    events += pe
    ctx.extra["params_projection_error_over_tolerance"] = worst / 1e-9
    if worst / 1e-9 > 1e-3:
        raise tlcmod.MachineryError("x06: projection margin of cell parameters exhausted: %g" % worst)
    for e in events:
        ctx.count(("ev", e["kind"], json.dumps({k: e[k] for k in EVENT_FIELDS[e["kind"]] if k != "id"}, sort_keys=True)))
    ctx.traces += len(events)
    return events


def run(ctx):
    ctx.rule = ("one case = one call of a real function of structure/cells.py on an exact input (centring letter, catalogue crystal, "
                "estimate case, integer Gram matrix and unimodular change of basis, pair of cells) or one step of a PhonopyAtoms history")
    ctx.assumptions += [
        "lattices are integer Gram matrices realised as doubles (Cholesky, random rotation and scale); the projection back to integers is "
        "checked to be lossless (1e-9) and recorded in each event",
        "sqrt / arccos in get_cell_parameters / get_angles are named primitives: the harness squares the lengths and takes cosines",
        "Niggli / Delaunay reductions are spglib's; the requirement is on what get_reduced_bases returns",
        "isclose is decided on exact cells (distances 0 or >= 1/4 of a basis vector); the tolerance is probed by displacement classes "
        "(0, < atol, between atol and sqrt(atol), > sqrt(atol))",
        "yaml round trip: read-back error per field in units of the last printed decimal, one ulp of a double allowed on top of half a unit",
        "PhonopyAtoms histories use three elements (H, Si, Fe: IUPAC 2005 masses), dyadic numbers and lower-triangular cells so that every "
        "comparison is exact; the deprecated symbols/numbers setters and the atoms= / magmoms= / pbc= constructor arguments are not driven",
    ]
    with ThreadPoolExecutor(max_workers=4) as ex:
        futs = [ex.submit(f, ctx) for f in (catalogue_model, estimate_model, close_model, atoms_model)]
        (entries, prim_rows), outcomes, rows, (arows, decimals) = [f.result() for f in futs]
    from harness import x06_driver as drv

    bad = drv.primitive_list_replay(prim_rows)
    ctx.traces += len(prim_rows)
    if bad:
        ctx.violation("is_primitive_cell:replay", "is_primitive_cell differs from 'exactly one pure translation' on TLC's exact space groups",
                      dict(witnesses=bad[:4]))
    table = sorted(ctx.extra.pop("_pmat_table"))
    bad, n = drv.pmat_replay(table, np.random.default_rng(ctx.seed))
    ctx.traces += n
    ctx.extra["get_primitive_matrix_calls"] = n
    sbad = drv.shape_replay(sorted(ctx.extra.pop("_shape_table"), key=repr))
    ctx.traces += 12
    if sbad:
        ctx.violation("shape_supercell_matrix:replay", "shape_supercell_matrix differs from ShapeReq of CellUtils.tla", dict(witnesses=sbad[:5]))
    if len(table) != 40:
        raise tlcmod.MachineryError("x06: %d rows of the get_primitive_matrix table" % len(table))
    if bad:
        ctx.violation("get_primitive_matrix:replay:" + "+".join(sorted(set(b["kind"] for b in bad))), "get_primitive_matrix differs from PMatReq of CellUtils.tla (%d of %d calls)" % (len(bad), n),
                      dict(witnesses=bad[:5]))
    estimate_replay(ctx, outcomes)
    close_replay(ctx, rows)
    events = real_events(ctx, entries)
    validate(ctx, events)
    atoms_replay(ctx, arows, decimals)
    if ctx.seed == 0 or not ctx.quick:
        binding_demos(ctx)
    fired = {r["module"]: r["coverage"] for r in ctx.tlc_runs if r.get("coverage")}
    ctx.extra["every_action_fires"] = all(v > 0 for cov in fired.values() for v in cov.values())
    if not ctx.extra["every_action_fires"]:
        raise tlcmod.MachineryError("x06: an action of a model never fired: %s" % fired)
    ctx.sample(dict(event=events[0]))
    ctx.sample(dict(event=[e for e in events if e["kind"] == "reduce"][3]))


# ---------------------------------------------------------------------------------------------
ATOMS_INV = ["InvLengths", "InvNumbersSymbols", "InvExtendedHaveMasses", "InvTableMass"]


def atoms_model(ctx):
    mc = "---- MODULE MC_AtomsSM ----\nEXTENDS AtomsSM\nMCCtors == AllCtors\nMCFmt == PrintT(ToString(<<\"FMT\", FormatDecimals>>))\nASSUME MCFmt\n====\n"
    cfg = ("INIT AInit\nNEXT ANext\nCONSTANTS\n Ctors <- MCCtors\n MaxOps = %d\nCHECK_DEADLOCK FALSE\nPROPERTY Independent\nINVARIANT Emit\n"
           % (2 if ctx.quick else 3) + "".join("INVARIANT %s\n" % i for i in ATOMS_INV))
    res = ctx.tlc("MC_AtomsSM", cfg_text=cfg, extra_files={"MC_AtomsSM.tla": mc}, requirement=True, workers=6, coverage=True,
                  what="TLC: a reachable PhonopyAtoms state of AtomsSM.tla violates a class invariant")
    fmt = printed(res.stdout, "FMT")
    rows = [(unfreeze(h), s, unfreeze(o), unfreeze(d)) for _, h, s, o, d in printed(res.stdout, "AT")]
    if not fmt or len(rows) < 1000:
        raise tlcmod.MachineryError("x06: AtomsSM emitted %d histories" % len(rows))
    # longer histories: random walks of the same machine
    cfg2 = cfg.replace("MaxOps = %d" % (2 if ctx.quick else 3), "MaxOps = 7").replace("PROPERTY Independent\n", "")
    sim = ctx.tlc("MC_AtomsSM", cfg_text=cfg2, extra_files={"MC_AtomsSM.tla": mc}, requirement=True, workers=2,
                  simulate=dict(num=150 if ctx.quick else 1500), depth=9, seed=ctx.seed + 1)
    seen = set(json.dumps(r[0], sort_keys=True) for r in rows)
    extra = 0
    for _, h, s, o, d in printed(sim.stdout, "AT"):
        h = unfreeze(h)
        k = json.dumps(h, sort_keys=True)
        if k not in seen:
            seen.add(k)
            rows.append((h, s, unfreeze(o), unfreeze(d)))
            extra += 1
    ctx.extra["atoms_random_walk_histories"] = extra
    return rows, unfreeze(fmt[0][1])


def atoms_replay(ctx, rows, decimals):
    from harness import x06_driver as drv

    if len(rows) > 60000:      # a prefix-closed sample: a diverging history is blamed on its first diverging step
        bykey = {json.dumps(r[0], sort_keys=True): r for r in rows}
        idx = np.random.default_rng(5000 + ctx.seed).permutation(len(rows))[:45000]
        keep = {}
        for i in sorted(idx):
            h = rows[i][0]
            for n in range(len(h), 0, -1):
                k = json.dumps(h[:n], sort_keys=True)
                if k in keep:
                    break
                if k in bykey:
                    keep[k] = bykey[k]
        rows = list(keep.values())
    bad = drv.atoms_replay(rows, decimals)
    ctx.traces += len(rows)
    for h, s, _, _ in rows:
        ctx.count(("atoms", json.dumps(h, sort_keys=True)))
    ctx.extra["atoms_histories"] = dict(replayed=len(rows), refused=sum(1 for r in rows if r[1] == "error"),
                                        with_copy=sum(1 for r in rows if any(h["op"] == "copy" for h in r[0])),
                                        with_yaml=sum(1 for r in rows if any(h["op"] == "yaml" for h in r[0])))
    for cls, items in sorted(bad.items()):
        ctx.violation("atoms:" + cls, "PhonopyAtoms leaves the behaviour of AtomsSM.tla at a '%s' step (%d histories)" % (cls, len(items)),
                      dict(histories=len(items), witnesses=items[:3]))
