"""C11 - densities of states are non-negative, normalised and additive.

Specs: spec/TetRat.tla (exact rationals), spec/Tetrahedron.tla (kernel level:
definition of the linear tetrahedron weights as geometric integrals vs the
closed forms of the code as a step machine), spec/TetrahedronTrace.tla,
spec/TetraMesh.tla (+Trace) (periodic grid: table of relative grid addresses,
neighbour lookup, integration, accumulation, projections), spec/DosApi.tla
(API sessions on spring-model crystals).  See DESIGN.md section 5/C11.

Steps
  A  TLC model-checks Tetrahedron (all vertex tuples x frequencies x I/J):
     closed forms = definition, range, sum rule, monotone, derivative.
     The dump of that run is REPLAYED on the real kernels (spec -> code) and
     validates the numpy realisation of the definition.
  B  kernel traces (code -> spec): compiled and Python weights for every tuple
     are judged by TLC against the definition (TetrahedronTrace).
  C  TLC model-checks TetraMesh on small periodic meshes.
  D  mesh traces: the real table / lookup / TetrahedronMesh / dos kernel on
     integer fields are judged by TLC (TetraMeshTrace).
  E  API sessions on spring-model crystals (DosApi).
  F  memory layouts / containers of the arrays handed to the public tetrahedron
     functions: the weights depend on the values only (TetrahedronLayoutTrace).
"""
from __future__ import annotations

import itertools
import os

# The kernels under test are called tens of thousands of times on tiny inputs; an OpenMP team per
# call costs ~0.1 s each on a busy machine.  C11 is not about threading (C13 is): one thread, set
# before the extension (and with it the OpenMP runtime) is loaded by bootstrap.
os.environ["OMP_NUM_THREADS"] = os.environ.get("C11_OMP_THREADS", "1")
os.environ.setdefault("OMP_WAIT_POLICY", "PASSIVE")

import numpy as np  # noqa: E402

from harness import bootstrap  # noqa: F401,E402
from harness import tlc as tlcmod
from harness import c11_tetra as T
from harness.tla_values import to_tla, parse_dump

TOL_KERNEL = 1e-13
WORKERS = int(os.environ.get("C11_WORKERS", "8"))

# ---------------------------------------------------------------------------
# A. kernel model + replay

MC_TET = """---- MODULE MC_Tetrahedron ----
EXTENDS Tetrahedron
MCValues == %s
MCOmegas == %s
MCFns == {"I", "J"}
====
"""
CFG_TET = """SPECIFICATION Spec
CONSTANTS
 Values <- MCValues
 Omegas <- MCOmegas
 Fns <- MCFns
 TieRule = "%s"
CHECK_DEADLOCK FALSE
INVARIANT TypeOK
INVARIANT InvSortContract
INVARIANT InvWeightIsDefinitionOffTie
INVARIANT InvWeightIsDefinition
INVARIANT InvRange
INVARIANT InvBelowAbove
INVARIANT InvSumRule
INVARIANT InvVolumeFraction
INVARIANT InvMonotone
INVARIANT InvDefContinuous
INVARIANT InvTieBreakIrrelevant
INVARIANT InvFundamental
"""
TET_ACTIONS = ["Choose", "SortVertices", "CaseSplit", "Weight"]


def value_sets(ctx):
    """(values, omegas) pairs: integers = the half-integer grid of the design scaled by 2"""
    if ctx.quick:
        return [([0, 2, 4, 6], list(range(-1, 8)))]
    return [([0, 2, 4, 6, 8], list(range(-2, 11))), ([0, 1, 3, 7], list(range(-1, 9)))]


def step_a(ctx, K):
    replayed = 0
    worst = 0.0
    worst_real = 0.0
    for values, omegas in value_sets(ctx):
        mc = MC_TET % (to_tla(set(values)), to_tla(set(omegas)))
        res = ctx.tlc("MC_Tetrahedron", cfg_text=CFG_TET % "closed", extra_files={"MC_Tetrahedron.tla": mc},
                      dump=True, coverage=not ctx.quick, workers=WORKERS, keep=True, timeout=1500,
                      what="kernel model: closed forms vs definition")
        try:
            if not ctx.quick:
                missing = [a for a in TET_ACTIONS if res.coverage.get(a, (0, 0))[1] == 0]
                if missing and not res.violated:
                    raise tlcmod.MachineryError("Tetrahedron: actions never taken: %s" % missing)
                ctx.extra.setdefault("coverage", {})["Tetrahedron"] = {a: res.coverage.get(a, (0, 0))[1] for a in TET_ACTIONS}
            if res.violated:
                return
            allstates = parse_dump(res.dump_path)
            pcs = {}
            for s_ in allstates:
                pcs[s_["pc"]] = pcs.get(s_["pc"], 0) + 1
            states = [s_ for s_ in allstates if s_["pc"] == "done"]
        finally:
            tlcmod.cleanup(res)
        if len(states) != len(values) ** 4 * len(omegas) * 2:
            raise tlcmod.MachineryError("Tetrahedron dump: %d final states" % len(states))
        # every action fired: its target control state occurs in the dump once per input
        ctx.extra.setdefault("coverage", {}).setdefault(
            "Tetrahedron(dump)", dict(Choose=pcs.get("sort", 0), SortVertices=pcs.get("case", 0),
                                      CaseSplit=pcs.get("weight", 0), Weight=pcs.get("done", 0)))
        if min(pcs.get(k, 0) for k in ("sort", "case", "weight", "done")) != len(states):
            raise tlcmod.MachineryError("Tetrahedron: an action never fired: %r" % pcs)
        # realisation of the definition against the exact machine values
        v = np.array([s["verts"] for s in states], dtype=float)
        w = np.array([s["omega"] for s in states], dtype=float)
        exact = np.array([s["wt"][0] / s["wt"][1] for s in states])
        isJ = np.array([s["fn"] == "J" for s in states])
        lo = np.where(isJ, T.def_weight("J", v, w, "L"), T.def_weight("I", v, w, "L"))
        hi = np.where(isJ, T.def_weight("J", v, w, "R"), T.def_weight("I", v, w, "R"))
        out = np.maximum(np.minimum(lo, hi) - exact, exact - np.maximum(lo, hi))
        worst = max(worst, float(out.max()))
        if out.max() > 1e-13:
            k = int(out.argmax())
            raise tlcmod.MachineryError("numpy realisation of the definition disagrees with TLC at %r (%g)"
                                        % (states[k], out.max()))
        # spec -> code replay: the real kernels on every enumerated input
        by = {}
        for s in states:
            by.setdefault((s["fn"], tuple(s["verts"])), []).append(s)
        for (fn, vt), ss in by.items():
            ss.sort(key=lambda s: s["omega"])
            ws = [s["omega"] for s in ss]
            got = dict(C=[K.weight_c(vt, x, fn) for x in ws], CA=K.weights_ca(vt, ws, fn),
                       Py=[K.weight_py(vt, x, fn) for x in ws], PyRun=K.weights_py_run(vt, ws, fn))
            for j, s in enumerate(ss):
                e = s["wt"][0] / s["wt"][1]
                tie = s["omega"] in vt
                replayed += 1
                ctx.count(("kernel", fn, vt, s["omega"]))
                for impl, arr in got.items():
                    d = abs(float(arr[j]) - e)
                    if not np.isfinite(d) or d > TOL_KERNEL:
                        ctx.violation("tie:kernel-replay" if tie else "kernel-replay",
                                      "tetrahedron weight of the real %s kernel differs from the specification%s"
                                      % (impl, " at a frequency equal to a vertex value" if tie else ""),
                                      dict(impl=impl, fn=fn, verts=list(vt), omega=s["omega"], expected=s["wt"],
                                           got=float(arr[j]), case=s["kind"], central_index=s["ci"]))
                    elif not tie:
                        worst_real = max(worst_real, d)
        ctx.sample(dict(step="A", state=states[len(states) // 3]))
    if not ctx.quick:
        # documentation of the tie defect on the specification itself: the pinned rule ("open") violates
        # the requirement in the model; not a verdict on the code (that is steps A replay / B / D)
        values, omegas = [0, 2, 4, 6], list(range(-1, 8))
        mc = MC_TET % (to_tla(set(values)), to_tla(set(omegas)))
        res = ctx.tlc("MC_Tetrahedron", cfg_text=CFG_TET % "open", extra_files={"MC_Tetrahedron.tla": mc},
                      requirement=False, extra_args=("-continue",), workers=WORKERS, timeout=1500)
        ctx.extra["A_open_rule_model_violates"] = sorted(set(n for n, _ in res.violations))
    ctx.traces += replayed
    ctx.extra["A_replayed_inputs"] = replayed
    ctx.extra["A_margin_realisation"] = worst / 1e-13
    ctx.extra["A_margin_kernels"] = worst_real / TOL_KERNEL


# ---------------------------------------------------------------------------
# B. kernel traces

MC_TTR = """---- MODULE MC_TetrahedronTrace ----
EXTENDS TetrahedronTrace
MCEvents == {%s}
====
"""
CFG_TTR = """INIT TInit
NEXT TNext
CONSTANTS
 Values = {}
 Omegas = {}
 Fns = {}
 TieRule = "closed"
 Events <- MCEvents
CHECK_DEADLOCK FALSE
INVARIANT ImplExact
INVARIANT ImplWeight
INVARIANT ImplRange
INVARIANT ImplMonotone
INVARIANT ImplPointwise
INVARIANT ImplAgree
INVARIANT ConformsMachine
INVARIANT InvSortContract
"""


def witness_of(trace, var="ev"):
    if not trace:
        return None
    st = trace[-1][1]
    return st


def report(ctx, res, prefix, cls, describe, varname):
    """Impl*/Inv* -> violations keyed by event class and invariant; Conforms* -> drift."""
    req = {}
    drift = set()
    for name, tr in res.violations:
        st = witness_of(tr) or {}
        e = st.get(varname, {}) or {}
        if not isinstance(e, dict):
            e = {}
        if name.startswith("Conforms"):
            drift.add(name)
            continue
        key = "%s%s:%s" % ("tie:" if cls == "tie" else "", prefix, name)
        if key not in req:
            req[key] = (name, describe(e, st))
    if res.violated and not res.violations:
        req["%s%s:%s" % ("tie:" if cls == "tie" else "", prefix, res.violated)] = (res.violated, None)
    for key, (name, det) in sorted(req.items()):
        ctx.violation(key, "C11 requirement %s fails on values logged from the real code%s"
                      % (name, " (frequency equal to a vertex / grid value)" if cls == "tie" else ""),
                      dict(invariant=name, event_class=cls, witness=det))
    if drift:
        ctx.extra.setdefault("conformance_failures", []).extend(sorted("%s:%s:%s" % (prefix, n, cls) for n in drift))
        if not req:
            print("SPEC-DRIFT C11 %s (%s events): %s (requirement intact)" % (prefix, cls, sorted(drift)))
    return req


def step_b(ctx, K):
    from harness.c11_steps import reorder
    values, omegas = value_sets(ctx)[0]
    rng = np.random.default_rng(ctx.seed)
    tuples = list(itertools.product(values, repeat=4))
    events = []
    # frequencies equal to a vertex value: every such input is replayed in step A; as traces a sample
    # in the quick tier (all in the thorough tier)
    tie_sel = set(range(len(tuples))) if not ctx.quick else set(int(i) for i in rng.choice(len(tuples), 40, replace=False))
    for it, vt in enumerate(tuples):
        for fn in ("I", "J"):
            for cls in ("offtie", "tie"):
                if cls == "tie" and it not in tie_sel:
                    continue
                ws = [w for w in omegas if (w not in vt)] if cls == "offtie" else list(omegas)
                if cls == "tie" and not any(w in vt for w in ws):
                    continue
                # the frequency list in ascending / descending / shuffled / repeated order: the vectorised
                # kernel (CA) gets the list as it is, C and Py are called point by point
                ws = reorder(ws, it + (fn == "J"), rng)
                vals = dict(C=[K.weight_c(vt, x, fn) for x in ws], CA=list(K.weights_ca(vt, ws, fn)),
                            Py=[K.weight_py(vt, x, fn) for x in ws])
                val, exact = {}, {}
                for k, arr in vals.items():
                    pr = [T.to_rat(x, tol=1e-13) for x in arr]
                    val[k] = [p[0] for p in pr]
                    exact[k] = [bool(p[1]) for p in pr]
                events.append(dict(v=list(vt), fn=fn, ws=ws, val=val, exact=exact, cls=cls))
                ctx.count(("ktrace", fn, vt, cls))
    # irregularly spaced values (other ratios in the closed forms): a sample in the quick tier
    values2, omegas2 = [0, 1, 3, 7], list(range(-1, 9))
    tuples2 = list(itertools.product(values2, repeat=4))
    if ctx.quick:
        tuples2 = [tuples2[i] for i in sorted(rng.choice(len(tuples2), 48, replace=False))]
    for vt in tuples2:
        ws = reorder([w for w in omegas2 if w not in vt], len(events), rng)
        for fn in ("I", "J"):
            vals = dict(C=[K.weight_c(vt, x, fn) for x in ws], CA=list(K.weights_ca(vt, ws, fn)),
                        Py=[K.weight_py(vt, x, fn) for x in ws])
            val, exact = {}, {}
            for k, arr in vals.items():
                pr = [T.to_rat(x, tol=1e-13) for x in arr]
                val[k] = [p[0] for p in pr]
                exact[k] = [bool(p[1]) for p in pr]
            events.append(dict(v=list(vt), fn=fn, ws=ws, val=val, exact=exact, cls="offtie"))
            ctx.count(("ktrace", fn, vt, "irregular"))
    # one TLC run per event class: the class of a violation is then known from the run itself
    for cls in ("offtie", "tie"):
        evs = [e for e in events if e["cls"] == cls]
        for i in range(0, len(evs), 3000):
            ch = evs[i:i + 3000]
            mc = MC_TTR % ",\n".join(to_tla(e) for e in ch)
            res = ctx.tlc("MC_TetrahedronTrace", cfg_text=CFG_TTR, extra_files={"MC_TetrahedronTrace.tla": mc},
                          requirement=False, extra_args=("-continue",), workers=WORKERS, timeout=1500)
            report(ctx, res, "kernel", cls,
                   lambda e, st: dict(verts=e.get("v"), fn=e.get("fn"), omega=st.get("omega"),
                                      logged={k: (e.get("val", {}).get(k) or [None])[max(st.get("wi", 1), 1) - 1]
                                              for k in (e.get("val") or {})},
                                      machine=st.get("wt")), "ev")
    ctx.traces += len(events)
    ctx.extra["B_kernel_events"] = len(events)
    ctx.sample(dict(step="B", event=events[7]))


def run(ctx):
    ctx.rule = ("kernel level: every ordered 4-tuple of vertex values from the value set x every frequency of the grid "
                "x {I, J} (distinct (fn, tuple, frequency) counted), for the compiled, the vectorised compiled and "
                "the Python implementation; mesh level: distinct (mesh, lattice, mapping, field, frequency list) cases; "
                "API level: distinct (crystal, mesh, symmetry, method, projection) sessions")
    import time
    from harness import c11_steps
    K = T.Kernels()
    from harness import c11_layout
    steps = os.environ.get("C11_STEPS", "ABCDEF")
    table = dict(A=lambda: step_a(ctx, K), B=lambda: step_b(ctx, K), C=lambda: c11_steps.step_c(ctx),
                 D=lambda: c11_steps.step_d(ctx), E=lambda: c11_steps.step_e(ctx), F=lambda: c11_layout.step_f(ctx))
    for name in "ABCDEF":
        if name in steps:
            t0 = time.time()
            table[name]()
            ctx.extra.setdefault("step_wall_s", {})[name] = round(time.time() - t0, 1)
    if steps != "ABCDEF":
        print("C11: only steps %s were run (C11_STEPS)" % steps)
    print("C11 step times:", ctx.extra.get("step_wall_s"))
    ctx.assumptions.append("frequencies of spring-model crystals are real numbers: at API level the named comparisons "
                           "are evaluated in binary64 by the harness against the numpy realisation of the definition "
                           "(validated against TLC's exact values in step A) and judged by TLC as classes")
    ctx.assumptions.append("mesh frequencies / eigenvectors / grid tables handed to the DOS code are taken from "
                           "phonopy's Mesh (properties C02/C09), the DOS is recomputed from them independently")
