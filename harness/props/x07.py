"""X07 (extra) - band paths and band-structure book-keeping.

Specification: spec/BandPath.tla (+BandPathTrace), spec/BandBook.tla (+BandBookTrace), spec/BandApi.tla.

 (a) band paths.  TLC: the step machine of get_band_qpoints / get_band_qpoints_and_path_connections against the
     documented rule over all small requests (segments per band path, npoints per segment or proportional to the exact
     segment length with exact rounding, end points exact, equal spacing, connections = same band path).  Real calls
     are projected to exact rationals and judged by TLC (BandPathTrace).
 (b) BandStructure book-keeping.  TLC: the machine of BandStructure.__init__ / _set_band / _write_yaml and of the
     phonopy-bandplot reader against the requirement over all small cases (default and given path_connections, label
     count rule, label pairs per segment, running distances, what the reader recovers).  Real Phonopy.run_band_structure
     runs on oracle crystals (ragged segment lengths, polylines, all option switches, band.yaml plain/gzip/lzma) are
     projected (squared distance increments as integers of the exact reciprocal metric) and judged by TLC
     (BandBookTrace); TLC also says which variant of the reader machine reproduces the logged values.
 (c) API histories (BandApi): run_band_structure / getters / writers / plot on one Phonopy object; every history to a
     fixed depth is replayed on the real API and compared after every step; band.hdf5 layout and its reader.
"""
from __future__ import annotations

import json
import os
import shutil
import subprocess
import sys

import numpy as np

from harness import tlc as tlcmod
from harness import tla_values
from harness.oracle import adj3

VERIF = tlcmod.VERIF
GRAMS = {
    "cubic": [[1, 0, 0], [0, 1, 0], [0, 0, 1]],
    "tetragonal": [[4, 0, 0], [0, 4, 0], [0, 0, 5]],
    "hexagonal": [[2, -1, 0], [-1, 2, 0], [0, 0, 5]],
    "triclinic": [[4, 1, 1], [1, 5, 2], [1, 2, 6]],
}
WORLD_NAMES = ["cscl", "tric", "tetab", "wz", "naclF"]
LABELS = ["G", "X", "L", "K", "$\\Gamma$", "M_1", "W"]
DEFECT_KEY = "bandplot:reader-last-label-pair"


def printed(stdout, tag):
    out = []
    head = '"<<\\"%s\\"' % tag
    for line in stdout.splitlines():
        if line.startswith(head):
            out.append(tla_values.parse_value(json.loads(line)))
    return out


def account(ctx, module, res, note):
    ctx.states += res.distinct
    ctx.transitions += res.generated
    ctx.tlc_runs.append(dict(module=module, cfg=note, **res.summary(), coverage=None))


def unfreeze(x):
    if isinstance(x, dict):
        return {k: unfreeze(v) for k, v in x.items()}
    if isinstance(x, (list, tuple)):
        return [unfreeze(v) for v in x]
    if isinstance(x, frozenset):
        return sorted(unfreeze(v) for v in x)
    return x


def qform(metric, v):
    m = np.array(metric, dtype=np.int64)
    v = np.array(v, dtype=np.int64)
    return int(v @ m @ v)


# ------------------------------------------------------------------------------------------------ models
BP_INV = ["InvCount", "InvNpts", "InvEndpoints", "InvSpacing", "InvPointwise", "InvConn", "InvJoin", "InvLastOpen", "InvLongest"]


def bandpath_model(ctx):
    pts = "{<<0,0,0>>,<<1,0,0>>,<<1,1,0>>,<<1,1,1>>,<<0,0,2>>}" if ctx.quick else "{<<0,0,0>>,<<1,0,0>>,<<1,1,0>>,<<1,1,1>>,<<0,0,2>>,<<2,1,0>>}"
    nps = "{2,3,5}" if ctx.quick else "{1,2,3,4,5,7,9}"
    mc = ("---- MODULE MC_BandPath ----\nEXTENDS BandPath\nP == %s\nPaths2 == {<<a,b>> : a \\in P, b \\in P}\n"
          "Paths3 == {<<a,b,c>> : a \\in P, b \\in P, c \\in P}\n"
          "Metrics == {<<<<1,0,0>>,<<0,1,0>>,<<0,0,1>>>>, Adj(<<<<4,1,1>>,<<1,5,2>>,<<1,2,6>>>>), Adj(<<<<2,-1,0>>,<<-1,2,0>>,<<0,0,5>>>>)}\n"
          "NonZero(ps) == \\E s \\in DOMAIN Segs(ps) : Segs(ps)[s].a # Segs(ps)[s].b\n"
          "MCR == {[metric |-> m, den |-> 2, paths |-> ps, np |-> n, uselen |-> u] : m \\in Metrics, n \\in %s, u \\in BOOLEAN,\n"
          "  ps \\in {q \\in ({<<p>> : p \\in Paths2 \\cup Paths3} \\cup {<<p, r>> : p \\in Paths3, r \\in Paths2}) : NonZero(q)}}\n====\n"
          % (pts, nps))
    cfg = "INIT Init\nNEXT Next\nCONSTANTS\n Requests <- MCR\nCHECK_DEADLOCK FALSE\n" + "".join("INVARIANT %s\n" % i for i in BP_INV)
    ctx.tlc("MC_BandPath", cfg_text=cfg, extra_files={"MC_BandPath.tla": mc}, requirement=True, workers=6,
            what="the step machine of get_band_qpoints leaves the documented sampling rule")


BB_INV = ["InvConn", "InvLabels", "InvInc", "InvPairs", "InvReaderSegments", "InvReaderNoLabels", "InvReaderConn", "InvLabelCount",
          "InvReaderLabels"]


def mc_bandbook(variant, quick):
    labs = '{"G", "X", "L"}' if quick else '{"G", "X", "L"}'
    mx = 4 if quick else 5
    return ("---- MODULE MC_BandBook ----\nEXTENDS BandBook\nQ1 == <<<<0,0,0>>,<<1,0,0>>>>\nQ2 == <<<<1,0,0>>,<<1,1,0>>,<<1,2,0>>>>\n"
            "Q3 == <<<<0,0,2>>,<<0,0,0>>>>\nQ4 == <<<<3,1,0>>>>\n"
            "SegSets == {<<[den |-> 2, q |-> Q1]>>, <<[den |-> 2, q |-> Q1], [den |-> 2, q |-> Q2]>>,\n"
            "  <<[den |-> 2, q |-> Q1], [den |-> 4, q |-> Q3]>>, <<[den |-> 2, q |-> Q1], [den |-> 2, q |-> Q2], [den |-> 4, q |-> Q3]>>,\n"
            "  <<[den |-> 2, q |-> Q1], [den |-> 4, q |-> Q3], [den |-> 2, q |-> Q2]>>, <<[den |-> 4, q |-> Q4], [den |-> 2, q |-> Q2]>>}\n"
            "L == %s\nLabSeqs == UNION {[1..n -> L] : n \\in 2..%d}\n"
            "ConnOf(n) == {None} \\cup {Some(f) : f \\in {g \\in [1..n -> BOOLEAN] : ~ g[n]}}\n"
            "MCCases == {[metric |-> Adj(<<<<4,1,1>>,<<1,5,2>>,<<1,2,6>>>>), nb |-> 3, segs |-> sg,\n"
            "  args |-> [conn |-> cn, labels |-> lb, legacy |-> lg, ev |-> FALSE, gv |-> FALSE, bc |-> FALSE]] :\n"
            "  sg \\in SegSets, lg \\in BOOLEAN, lb \\in {None} \\cup {Some(f) : f \\in LabSeqs}, cn \\in UNION {ConnOf(n) : n \\in 1..3}}\n"
            "MCC == {c \\in MCCases : WellFormed(c)}\nMCCodes == {[lastPair |-> \"%s\"]}\n====\n" % (labs, mx, variant))


BB_CFG = ("INIT Init\nNEXT Next\nCONSTANTS\n Cases <- MCC\n Codes <- MCCodes\nCHECK_DEADLOCK FALSE\n"
          + "".join("INVARIANT %s\n" % i for i in BB_INV))


def bandbook_model(ctx):
    """the machine with the repaired reader meets the requirement; the pinned reader does not (InvReaderLabels)"""
    ctx.tlc("MC_BandBook", cfg_text=BB_CFG, extra_files={"MC_BandBook.tla": mc_bandbook("all", ctx.quick)}, requirement=True, workers=6,
            what="the BandStructure / band.yaml / reader machine (reader taking both labels of the last pair) leaves the requirement")
    pinned = tlcmod.run("MC_BandBook", cfg_text=BB_CFG, extra_files={"MC_BandBook.tla": mc_bandbook("end", ctx.quick)}, workers=6)
    account(ctx, "MC_BandBook", pinned, "(generated) Codes={lastPair=end}")
    tlcmod.cleanup(pinned)
    ctx.extra["reader_machine_lastPair_end_violates"] = pinned.violated
    if pinned.violated != "InvReaderLabels":
        raise tlcmod.MachineryError("x07: the reader machine with lastPair=end violates %s (expected InvReaderLabels)" % pinned.violated)
    return pinned


# ------------------------------------------------------------------------------------------------ plans
def rand_point(rng, den, lo=None):
    lo = -den // 2 if lo is None else lo
    return [int(x) for x in rng.integers(lo, den + 1, size=3)]


def gen_plan(ctx, n):
    rng = np.random.default_rng(1000 + ctx.seed)
    cases = []
    names = list(GRAMS)
    k = 0
    # exact rounding ties (npoints * 1/2, * 1/6) on axis-aligned and rotated lattices
    for npo, dens in ((51, (2, 1)), (49, (2, 1)), (5, (2, 1)), (9, (6, 1)), (3, (6, 1)), (15, (6, 1))):
        for rot in (False, True):
            k += 1
            big, small = dens
            cases.append(dict(id=k, gram=GRAMS["cubic"], a=2.0, rotate=rot, withconn=True, style="list", tie=True,
                              rq=dict(metric=adj3(np.array(GRAMS["cubic"])).tolist(), den=12, np=npo, uselen=True,
                                      paths=[[[0, 0, 0], [12 // 2, 0, 0]], [[0, 0, 0], [0, 12 // (2 * big // small), 0]]])))
    while len(cases) < n:
        gname = names[int(rng.integers(len(names)))]
        gram = GRAMS[gname]
        metric = adj3(np.array(gram)).tolist()
        den = int(rng.choice([2, 3, 4, 6, 8]))
        npaths = int(rng.choice([1, 1, 2, 2, 3]))
        paths = []
        for _ in range(npaths):
            m = int(rng.choice([2, 2, 3, 3, 4]))
            pth = [rand_point(rng, den)]
            while len(pth) < m:
                p = rand_point(rng, den)
                if rng.random() < 0.05:
                    p = list(pth[-1])            # a zero-length segment
                pth.append(p)
            paths.append(pth)
        if rng.random() < 0.25 and len(paths) > 1:
            paths[1][0] = list(paths[0][-1])      # a second band path that happens to start where the first ends
        npo = int(rng.choice([1, 2, 2, 3, 4, 5, 7, 11, 21, 51, 101]))
        if ctx.quick and npo > 21 and rng.random() < 0.6:
            npo = int(rng.choice([3, 5, 9]))
        uselen = bool(rng.random() < 0.55)
        a2 = [qform(metric, np.subtract(p[i + 1], p[i])) for p in paths for i in range(len(p) - 1)]
        if uselen and max(a2) == 0:
            continue
        if max(a2) * (2 * npo + 3) ** 2 >= 2 ** 31 - 1:
            continue
        k += 1
        cases.append(dict(id=k, gram=gram, a=float(rng.choice([1.0, 2.0, 3.7])), rotate=bool(rng.random() < 0.8),
                          withconn=bool(rng.random() < 0.5), style=str(rng.choice(["list", "array", "tuple"])), tie=False,
                          rq=dict(metric=metric if uselen else [[1, 0, 0], [0, 1, 0], [0, 0, 1]], den=den, np=npo, uselen=uselen, paths=paths)))
    return cases


def straight(a, b, den, n):
    return dict(den=den * (n - 1), q=[[a[i] * (n - 1) + (b[i] - a[i]) * j for i in range(3)] for j in range(n)])


def bs_args(rng, nseg, segs, point_labels):
    legacy = bool(rng.random() < 0.22)
    geo = [segs[s]["q"][-1][i] * segs[s + 1]["den"] == segs[s + 1]["q"][0][i] * segs[s]["den"] for s in range(nseg - 1) for i in range(3)]
    geo = [all(geo[3 * s:3 * s + 3]) for s in range(nseg - 1)] + [False]
    r = rng.random()
    if r < 0.35:
        conn = None
    elif r < 0.75:
        conn = geo
    else:
        conn = [bool(x) for x in rng.integers(0, 2, size=nseg)]
        conn[-1] = False
    eff = [True] * nseg if legacy else (conn if conn is not None else [True] * (nseg - 1) + [False])
    want = nseg + 1 if legacy else sum(1 if c else 2 for c in eff)
    r = rng.random()
    if r < 0.2:
        labels = None
    else:
        cnt = want if r < 0.8 else max(0, want + int(rng.choice([-1, 1, 2])))
        if rng.random() < 0.5 and point_labels is not None:
            seq = []
            for s in range(nseg):
                seq.append(point_labels[s][0])
                if not eff[s]:
                    seq.append(point_labels[s][1])
            if legacy:
                seq.append(point_labels[-1][1])
            seq = (seq + [LABELS[0]] * cnt)[:cnt]
            labels = seq
        else:
            small = LABELS[:int(rng.choice([2, 3, 7]))]
            labels = [small[int(rng.integers(len(small)))] for _ in range(cnt)]
    return dict(conn=dict(has=conn is not None, v=conn or []), labels=dict(has=labels is not None, v=labels or []), legacy=legacy,
                ev=bool(rng.random() < 0.3), gv=bool(rng.random() < 0.2), bc=bool(rng.random() < 0.2))


def bs_plan(ctx, n):
    rng = np.random.default_rng(2000 + ctx.seed)
    cases = []
    k = 0
    # constructed: the label patterns that decide between the reader variants (and their harmless neighbours)
    for lab, conn in ((["X", "G", "L", "G"], [False, False]), (["G", "X", "K", "G", "L", "G"], [True, True, False, False]),
                      (["G", "X", "G"], [True, False]), (["X", "G", "G", "L"], [False, False]), (["G", "X", "L", "X"], [False, False])):
        k += 1
        nseg = len(conn)
        segs = [straight([s, 0, 0], [s + 1, 1, 0], 4, 3) for s in range(nseg)]
        cases.append(dict(id=k, world=WORLD_NAMES[k % len(WORLD_NAMES)], segs=segs, comp=None, style="list", script=True,
                          args=dict(conn=dict(has=True, v=conn), labels=dict(has=True, v=lab), legacy=False, ev=False, gv=False, bc=False)))
    while len(cases) < n:
        world = WORLD_NAMES[int(rng.integers(len(WORLD_NAMES)))]
        nseg = int(rng.choice([1, 2, 2, 3, 3, 4, 5]))
        segs, plabels = [], []
        kind = "straight" if rng.random() < 0.6 else "poly"
        last = None
        lab_of = {}
        for s in range(nseg):
            if kind == "straight":
                den = int(rng.choice([2, 3, 4, 6]))
                a = rand_point(rng, den, lo=0)
                if last is not None and rng.random() < 0.6 and last[1] == den:
                    a = list(last[0])
                b = rand_point(rng, den, lo=0)
                npt = int(rng.choice([2, 3, 5, 9] if ctx.quick else [2, 3, 5, 9, 21, 51]))
                segs.append(straight(a, b, den, npt))
                last = (b, den)
                for p in (a, b):
                    lab_of.setdefault((tuple(p), den), LABELS[len(lab_of) % len(LABELS)])
                plabels.append((lab_of[(tuple(a), den)], lab_of[(tuple(b), den)]))
            else:
                m = int(rng.choice([1, 2, 3, 4, 6]))
                q = [rand_point(rng, 12, lo=-12)]
                if last is not None and rng.random() < 0.5:
                    q = [list(last[0])]
                while len(q) < m:
                    q.append(list(q[-1]) if rng.random() < 0.12 else rand_point(rng, 12, lo=-12))
                segs.append(dict(den=12, q=q))
                last = (q[-1], 12)
                plabels = None
        args = bs_args(rng, nseg, segs, plabels)
        if kind == "poly" and any(len(s["q"]) < 2 for s in segs) and args["gv"]:
            args["gv"] = False
        k += 1
        cases.append(dict(id=k, world=world, segs=segs, args=args, comp=[None, None, None, "gzip", "lzma"][int(rng.integers(5))],
                          style=str(rng.choice(["list", "array"])), script=bool(k % 2 == 0)))
    return cases


def cli_plan(ctx, n):
    """phonopy --band / BAND = ... runs: band paths, BAND_POINTS, BAND_LABELS, BAND_CONST_INTERVAL, LEGACY_PLOT, options or conf file"""
    rng = np.random.default_rng(4000 + ctx.seed)
    cases = []
    worlds = ["cscl", "tric", "tetab"]
    grams = {"cscl": GRAMS["cubic"], "tric": GRAMS["triclinic"], "tetab": GRAMS["tetragonal"]}
    while len(cases) < n:
        world = worlds[len(cases) % 3]
        metric = adj3(np.array(grams[world])).tolist()
        den = int(rng.choice([2, 3, 4, 6]))
        paths = []
        for _ in range(int(rng.choice([1, 2, 2, 3]))):
            m = int(rng.choice([2, 2, 3]))
            pth = [rand_point(rng, den, lo=0)]
            while len(pth) < m:
                p = rand_point(rng, den, lo=0)
                if p != pth[-1]:
                    pth.append(p)
            paths.append(pth)
        if rng.random() < 0.4 and len(paths) > 1:
            paths[-1][-1] = list(paths[-2][-1])     # the last two band paths end at the same special point
            if paths[-1][-1] == paths[-1][-2]:
                continue
        npo = [None, 2, 3, 5, 11][int(rng.integers(5))]
        uselen = bool(rng.random() < 0.5)
        legacy = bool(rng.random() < 0.25)
        nseg = sum(len(p) - 1 for p in paths)
        conn = [i < len(p) - 2 for p in paths for i in range(len(p) - 1)]
        want = nseg + 1 if legacy else sum(1 if c else 2 for c in conn)
        r = rng.random()
        if r < 0.2:
            labels = None
        else:
            cnt = want if r < 0.85 else want + int(rng.choice([-1, 1]))
            lab_of = {}
            seq = []
            flat = [(p[i], p[i + 1]) for p in paths for i in range(len(p) - 1)]
            for s_, (p0, p1) in enumerate(flat):
                for pt in (p0, p1):
                    lab_of.setdefault(tuple(pt), LABELS[len(lab_of) % len(LABELS)])
                seq.append(lab_of[tuple(p0)])
                if not (True if legacy else conn[s_]):
                    seq.append(lab_of[tuple(p1)])
            if legacy:
                seq.append(lab_of[tuple(flat[-1][1])])
            labels = (seq + ["G"] * cnt)[:cnt]
        cases.append(dict(id=500000 + len(cases) + 1, world=world, via=str(rng.choice(["option", "conf"])),
                          rq=dict(metric=metric if uselen else [[1, 0, 0], [0, 1, 0], [0, 0, 1]], den=den, np=npo, uselen=uselen, paths=paths),
                          args=dict(labels=dict(has=labels is not None, v=labels or []), legacy=legacy, ev=bool(rng.random() < 0.2)),
                          gram=grams[world]))
    return cases


def cli_fold(ctx, cli_events, cli_cases, data, gcases, bcases):
    """the two events of every command-line run join the band-path and the book-keeping traces"""
    bycase = {c["id"]: c for c in cli_cases}
    n = 0
    for e in cli_events:
        c = bycase[e["id"]]
        ctx.count(("cli", c["world"], c["via"], json.dumps(c["rq"], sort_keys=True), json.dumps(c["args"], sort_keys=True)))
        if "exc" in e:
            if e.get("phonopy_exc") is False:
                raise tlcmod.MachineryError("x07 driver (cli): %s" % e["exc"])
            ctx.violation("cli:exception", "phonopy --band ... failed where the specification expects a band.yaml",
                          dict(crystal=c["world"], argv=e.get("argv"), conf=e.get("conf"), error=e["exc"]))
            continue
        n += 1
        data["gen"].append(dict(e["gen"], worst=0.0, cli=True))
        gcases.append(dict(id=c["id"], rq=e["gen"]["rq"], gram=c["gram"], withconn=False, tie=False, cli=dict(argv=e["argv"], conf=e["conf"])))
        data["bs"].append(dict(e["bs"], world=c["world"], comp=None, margins=dict(inc=0.0, acc=0.0)))
        bcases.append(dict(id=c["id"], world=c["world"], segs=e["bs"]["cs"]["segs"], args=e["bs"]["cs"]["args"], comp=None, script=True,
                           cli=dict(argv=e["argv"], conf=e["conf"])))
        if e["eigvecs_in_file"] != c["args"]["ev"]:
            ctx.violation("cli:eigenvectors", "band.yaml of phonopy --band carries eigenvectors iff requested", dict(argv=e["argv"], conf=e["conf"]))
    ctx.extra["cli"] = dict(runs=len(cli_events), with_band_yaml=n, via_conf_file=sum(1 for c in cli_cases if c["via"] == "conf"),
                            const_interval=sum(1 for c in cli_cases if c["rq"]["uselen"]), labelled=sum(1 for c in cli_cases if c["args"]["labels"]["has"]))


# ------------------------------------------------------------------------------------------------ driver
def run_driver(ctx, plan, rundir):
    pj = os.path.join(rundir, "plan.json")
    with open(pj, "w") as f:
        json.dump(plan, f)
    out = os.path.join(rundir, "events.json")
    env = dict(os.environ, OMP_NUM_THREADS="1", PYTHONWARNINGS="ignore", PYTHONDONTWRITEBYTECODE="1", MPLBACKEND="Agg")
    return subprocess.Popen([sys.executable, "-m", "harness.x07_driver", pj, out], cwd=VERIF, env=env,
                            stdout=subprocess.PIPE, stderr=subprocess.STDOUT), out


def collect(proc, out):
    so, _ = proc.communicate(timeout=3000)
    if proc.returncode != 0:
        raise tlcmod.MachineryError("x07 driver failed:\n%s" % so.decode(errors="replace")[-3000:])
    with open(out) as f:
        return json.load(f)


def trace_run(module, cfg_text, events, constants, workers=4):
    rundir = tlcmod.new_rundir(module)
    path = os.path.join(rundir, "events.ndjson")
    with open(path, "w") as f:
        for e in events:
            f.write(json.dumps(e) + "\n")
    mc = "---- MODULE MC_%s ----\nEXTENDS %s\n%sMCEventFile == \"%s\"\n====\n" % (module, module, constants, path)
    res = tlcmod.run("MC_" + module, cfg_text=cfg_text, extra_files={"MC_%s.tla" % module: mc}, workers=workers, rundir=rundir, keep=True)
    tlcmod.cleanup(res)
    return res


def actions_fired(ctx, module, res, actions):
    """The machines are linear (pc runs npts -> seg* -> done, args -> band -> yaml -> read -> done): TLC printed the final Report of
    every event, so every action fired for every event (the callers check that the Report set equals the event set)."""
    ctx.extra.setdefault("actions_fired", {})[module] = dict(actions=actions, evidence="every event reached pc = done (Report printed)")


# ------------------------------------------------------------------------------------------------ validation
def gen_validate(ctx, events, cases):
    bycase = {c["id"]: c for c in cases}
    for e in events:
        if "exc" in e:
            ctx.violation("gen:exception", "get_band_qpoints raised where the specification expects a result",
                          dict(request=bycase[e["id"]], exception=e["exc"]))
    cfg = ("INIT TInit\nNEXT TNext\nCONSTANTS\n Requests <- MCE\n EventFile <- MCEventFile\nCHECK_DEADLOCK FALSE\n"
           "INVARIANT ReportReq\nINVARIANT Report\n")
    res = trace_run("BandPathTrace", cfg, [dict(id=e["id"], rq=e["rq"], got=e["got"]) for e in events], "MCE == {}\n")
    account(ctx, "MC_BandPathTrace", res, "(generated, %d events)" % len(events))
    if res.violated:
        raise tlcmod.MachineryError("x07: BandPathTrace: unexpected %s" % res.violated)
    actions_fired(ctx, "BandPathTrace", res, ["StepNpts", "StepSeg", "StepConn"])
    failed = {eid: sorted(names) for _, eid, names in printed(res.stdout, "Q")}
    conf = {eid: bool(ok) for _, eid, ok in printed(res.stdout, "R")}
    ids = set(e["id"] for e in events)
    if set(failed) != ids or set(conf) != ids:
        raise tlcmod.MachineryError("x07: TLC reported on %d/%d of %d band-path events" % (len(failed), len(conf), len(events)))
    groups = {}
    for eid, names in failed.items():
        for nme in names:
            groups.setdefault("gen:%s" % nme, []).append(eid)
    byid = {e["id"]: e for e in events}
    for key, lst in sorted(groups.items()):
        wit = [dict(request=bycase[i]["rq"], lattice=bycase[i]["gram"], with_connections=bycase[i]["withconn"], command_line=bycase[i].get("cli"),
                    returned=byid[i]["got"]) for i in lst[:3]]
        ctx.violation(key, "requirement %s of BandPath.tla fails on what get_band_qpoints returned (%d calls)" % (key.split(":")[1], len(lst)),
                      dict(events=len(lst), witnesses=wit))
    bad = [i for i in conf if not conf[i]]
    if bad and not groups:
        ctx.violation("conformance:gen", "get_band_qpoints results are not those of the step machine",
                      dict(witnesses=[dict(request=bycase[i]["rq"], returned=byid[i]["got"]) for i in bad[:3]]))
    worst = max([e.get("worst", 0.0) or 0.0 for e in events] + [0.0])
    ctx.extra["gen"] = dict(events=len(events), violating=sum(1 for v in failed.values() if v), nonconforming=len(bad),
                            ties=sum(1 for c in cases if c["tie"]), from_command_line=sum(1 for c in cases if c.get("cli")), projection_error_over_tolerance=worst / 1e-9,
                            length_mode=sum(1 for c in cases if c["rq"]["uselen"]))
    if worst / 1e-9 > 1e-2 and not groups:
        raise tlcmod.MachineryError("x07: band-path projection margin exhausted: %g" % worst)
    ctx.sample(dict(band_path_event=dict(rq=events[len(events) // 2]["rq"], npts=events[len(events) // 2]["got"]["npts"],
                                         conn=events[len(events) // 2]["got"]["conn"])))


def bs_validate(ctx, events, cases, pinned):
    bycase = {c["id"]: c for c in cases}
    good = []
    for e in events:
        if "exc" in e:
            if not e.get("phonopy_exc", True):
                raise tlcmod.MachineryError("x07 driver: %s\n%s" % (e["exc"], e.get("tb")))
            ctx.violation("bs:exception", "run_band_structure / write_yaml / the bandplot reader raised where the specification expects a result",
                          dict(case=bycase[e["id"]], exception=e["exc"], traceback=e.get("tb")))
        else:
            good.append(e)
    cfg = ("INIT TInit\nNEXT TNext\nCONSTANTS\n Cases <- MCE\n Codes <- MCCodes\n EventFile <- MCEventFile\nCHECK_DEADLOCK FALSE\n"
           "INVARIANT ReportReq\nINVARIANT Report\n")
    res = trace_run("BandBookTrace", cfg, [dict(id=e["id"], cs=e["cs"], ob=e["ob"], **({"only": e["only"]} if "only" in e else {})) for e in good],
                    "MCE == {}\nMCCodes == {[lastPair |-> \"end\"], [lastPair |-> \"all\"]}\n")
    account(ctx, "MC_BandBookTrace", res, "(generated, %d events)" % len(good))
    if res.violated:
        raise tlcmod.MachineryError("x07: BandBookTrace: unexpected %s" % res.violated)
    actions_fired(ctx, "BandBookTrace", res, ["StepArgs", "StepBand", "StepYaml", "StepRead"])
    failed = {eid: sorted(names) for _, eid, names in printed(res.stdout, "Q")}
    conf = {}
    for _, eid, var, ok in printed(res.stdout, "R"):
        conf.setdefault(eid, {})[var] = bool(ok)
    ids = set(e["id"] for e in good)
    full = [e for e in good if "only" not in e]
    if set(failed) != ids or set(conf) != set(e["id"] for e in full) or any(len(v) != 2 for v in conf.values()):
        raise tlcmod.MachineryError("x07: TLC reported on %d/%d of %d band-structure events" % (len(failed), len(conf), len(good)))
    byid = {e["id"]: e for e in good}
    groups = {}
    for eid, names in failed.items():
        for nme in names:
            key = "bs:%s" % nme
            if nme == "ReaderLabels" and eid in conf and conf[eid]["end"] and not conf[eid]["all"]:
                key = DEFECT_KEY
            groups.setdefault(key, []).append(eid)

    def witness(i):
        c = bycase[i]
        return dict(crystal=c["world"], command_line=c.get("cli"), segments=[dict(den=s["den"], q=s["q"]) for s in c["segs"]], arguments=c["args"],
                    compression=c["comp"],
                    observed={k: v for k, v in byid[i]["ob"].items() if k not in ("inc2", "sgn")}, script_plots=c.get("script"), failed=failed[i])
    for key, lst in sorted(groups.items()):
        what = ("requirement %s of BandBook.tla fails on what BandStructure / band.yaml / the bandplot reader reported (%d runs)"
                % (key.split(":")[1], len(lst)))
        if key == DEFECT_KEY:
            what = ("phonopy-bandplot's _arrange_band_data drops the start label of the last segment when the last two label pairs end "
                    "with the same label (requirement ReaderLabels of BandBook.tla, %d runs)" % len(lst))
        ctx.violation(key, what, dict(events=len(lst), witnesses=[witness(i) for i in lst[:3]]))
    okv = [v for v in ("end", "all") if all(conf[i][v] for i in conf)]
    distinguished = [i for i in conf if conf[i]["end"] != conf[i]["all"]]
    ctx.extra["bs"] = dict(events=len(good), violating=sum(1 for v in failed.values() if v), conforms_to_reader_lastPair=okv,
                           events_distinguishing_reader_variants=len(distinguished),
                           worst_increment_projection=max([e["margins"]["inc"] for e in good] + [0.0]),
                           worst_accumulation=max([e["margins"]["acc"] for e in good] + [0.0]),
                           labelled=sum(1 for e in full if e["ob"]["labels"]["has"]), legacy=sum(1 for e in good if e["cs"]["args"]["legacy"]),
                           ragged=sum(1 for e in good if len(set(len(s["q"]) for s in e["cs"]["segs"])) > 1),
                           bandplot_runs_new_style=sum(1 for e in good if e["ob"]["sp"]["has"]),
                           bandplot_runs_legacy=sum(1 for e in good if e["ob"]["so"]["has"]))
    if ctx.extra["bs"]["bandplot_runs_new_style"] < len(good) // 5 and not ctx.violations:
        raise tlcmod.MachineryError("x07: only %d phonopy-bandplot runs" % ctx.extra["bs"]["bandplot_runs_new_style"])
    if not distinguished and not ctx.violations:
        raise tlcmod.MachineryError("x07: no band-structure event distinguishes the two reader variants")
    if okv == ["end"]:
        st = pinned.trace[-1][1] if pinned.trace else {}
        ctx.violation(DEFECT_KEY, "TLC: the variant of the reader machine this tree conforms to (last label pair compared by its end labels) "
                      "violates InvReaderLabels of BandBook.tla",
                      dict(variant="lastPair = end", counterexample=dict(labels=unfreeze(st.get("mlabels")), pairs=unfreeze(st.get("mpairs")),
                                                                         reader=unfreeze(st.get("mrd")))))
    elif not okv and not groups:
        nonconf = [i for i in conf if not any(conf[i].values())]
        ctx.violation("conformance:bs-no-variant", "band-structure observations are not those of any variant of the machine",
                      dict(witnesses=[witness(i) for i in nonconf[:3]]))
    if ctx.extra["bs"]["worst_increment_projection"] > 1e-9 and not groups:
        raise tlcmod.MachineryError("x07: distance projection margin exhausted: %g" % ctx.extra["bs"]["worst_increment_projection"])
    e = full[len(full) // 3]
    ctx.sample(dict(band_structure_event=dict(crystal=e["world"], args=e["cs"]["args"], seglens=[len(s["q"]) for s in e["cs"]["segs"]],
                                              yaml={k: e["ob"]["y"][k] for k in ("nqpoint", "npath", "segn", "labels")}, reader=e["ob"]["rd"])))


# ------------------------------------------------------------------------------------------------
def run(ctx):
    ctx.rule = ("band paths: one case = one get_band_qpoints(_and_path_connections) call (band paths, npoints, lattice, length mode); "
                "book-keeping: one case = one run_band_structure on a crystal (segments, path_connections, labels, legacy, eigenvector / "
                "group-velocity / band-connection switches, yaml compression) with its band.yaml and the bandplot reader; "
                "API: one case = one history of band-structure calls on a Phonopy object")
    ctx.assumptions += [
        "frequencies, eigenvectors and group velocities themselves are C14's / C12's: only their presence, shapes and the yaml copy are judged here",
        "real-valued primitive Sqrt: the squared distance increments are decided exactly by TLC on integers; the harness evaluates the square roots and their running sum (1e-10)",
        "the reader's q-point comparison |dq| < 1e-5 is modelled as exact equality: the generated special points differ by >= 1/24 or coincide",
        "get_band_qpoints_by_seekpath / auto_band_structure are not covered (seekpath is not installed)",
        "labels are plain strings without quotes (band.yaml writes them between single quotes)",
    ]
    from harness import x07_apiplan
    api_cases, h5_cases = x07_apiplan.plan(ctx)
    gcases = gen_plan(ctx, 260 if ctx.quick else 2500)
    bcases = bs_plan(ctx, 160 if ctx.quick else 1500)
    rundir = tlcmod.new_rundir("x07drv")
    nproc = 3
    ccases = cli_plan(ctx, 36 if ctx.quick else 300)
    plans = [dict(seed=ctx.seed, gen=gcases, bs=bcases, api=[], h5=h5_cases, cli=ccases)]
    plans += [dict(seed=ctx.seed, gen=[], bs=[], api=api_cases[k::nproc - 1], h5=[]) for k in range(nproc - 1)]
    procs = []
    data = dict(gen=[], bs=[], api=[], h5=[], cli=[], wall=0.0)
    try:
        for k, pl in enumerate(plans):
            sub = os.path.join(rundir, "p%d" % k)
            os.makedirs(sub)
            procs.append(run_driver(ctx, pl, sub))
        # the models are checked while the real code runs
        bandpath_model(ctx)
        pinned = bandbook_model(ctx)
        for proc, out in procs:
            d = collect(proc, out)
            for key in ("gen", "bs", "api", "h5", "cli"):
                data[key] += d.get(key, [])
            data["wall"] = max(data["wall"], d["wall"])
    finally:
        for proc, _ in procs:
            if proc.poll() is None:
                proc.kill()
        shutil.rmtree(rundir, ignore_errors=True)
    ctx.extra["driver_wall_s"] = round(data["wall"], 1)
    ctx.traces += len(data["gen"]) + len(data["bs"]) + len(data["api"]) + len(data["h5"]) + len(data["cli"])
    for c in gcases:
        ctx.count(("gen", json.dumps(c["rq"], sort_keys=True), c["withconn"]))
    for c in bcases:
        ctx.count(("bs", c["world"], json.dumps(c["segs"]), json.dumps(c["args"], sort_keys=True)))
    cli_fold(ctx, data["cli"], ccases, data, gcases, bcases)
    gen_validate(ctx, data["gen"], gcases)
    bs_validate(ctx, data["bs"], bcases, pinned)
    x07_apiplan.validate(ctx, data["api"], data["h5"], api_cases, h5_cases)
