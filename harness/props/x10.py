"""X10 (extra) - force-constant utilities of phonopy/harmonic/force_constants.py that C01/C06/C07 do not reach.

Specification: spec/FCCutoff.tla, spec/FCDrift.tla, spec/FCRearrange.tla, spec/FCSiteOps.tla.

 (a) cut-off radius (cutoff_force_constants, Phonopy.set_force_constants_zero_with_radius).  TLC computes the
     exact squared minimum-image distance of every pair of the integer crystal (image box proved sufficient per
     pair), states "block kept iff distance <= r, zero block otherwise" and decides on the logged statuses of
     real calls: kept set, idempotence, composition of two radii = the smaller one, compact = rows p2s of full;
     model side: symmetric, periodic (a function of the separation class), monotone, everything kept beyond the
     diameter.  The expected status matrices TLC prints are replayed on the arrays the code returned.
 (b) drift (show_drift_force_constants) on integer arrays that are invariant under the exact pure translations:
     printed maxima and component labels against the definition (both layouts), array left unchanged, text
     prefix; compact -> full expansion by translations (distribute_force_constants_by_translations) and back.
 (c) rearrange_force_constants_array between two presentations of one supercell (permutation, lattice shifts,
     the two atom orders of get_supercell): indices = the exact identification of atoms, array = relabelled
     array, inverse restores, agreement with the TLC-computed spring-model force constants of the second cell,
     refusal for cells that are not the same structure.
 (d) site-symmetry helpers (similarity_transformation, get_rotated_displacement, get_positions_sent_by_rot_inv)
     with the exact space group of the oracle crystals.
"""
from __future__ import annotations

import os

os.environ.setdefault("OMP_NUM_THREADS", "1")

import json
import time
from concurrent.futures import ThreadPoolExecutor

import numpy as np

from harness import tlc as tlcmod
from harness import tla_values
from harness.tla_values import to_tla

CUT_INV = ["ReqBoxSound", "ReqRebase", "ReqAtomsDistinct", "ReqSelfZero", "ReqSymmetric", "ReqPeriodic", "ReqOffBoundary", "ReqMonotone", "ReqSymmetricKept",
           "ReqAllKeptBeyondDiameter", "ImplKeptIffWithin", "ImplIdempotent", "ImplCompose", "ImplDirect", "ImplCompactIsRowsOfFull"]
DRIFT_INV = ["HypTransConsistent", "HypArrayIsLayout", "ReqCompactSuffices", "ImplParsed", "ImplDrift1Value", "ImplDrift1Where", "ImplDrift1WhereCompact", "ImplDrift1WhereUpToTranspose",
             "ImplDrift2Value", "ImplDrift2Where", "ImplUnchanged", "ImplPrefix", "ImplExpand"]
REARR_INV = ["ReqSameStructure", "ImplRefuses", "ImplIndices", "ImplArray", "ImplInverseIndices", "ImplInverseArray", "ImplOracle",
             "ImplInputUntouched"]

# (entry, supercell matrix, primitive matrix letter)
GEOMS_CUT = [
    ("nacl", [[2, 0, 0], [0, 1, 0], [0, 0, 1]], "F"),
    ("nacl", [[1, 1, 0], [-1, 1, 0], [0, 0, 1]], "F"),
    ("bcc", [[2, 0, 0], [0, 2, 0], [0, 0, 2]], "I"),
    ("bcc", [[2, 1, 0], [0, 2, 0], [0, 0, 1]], "I"),
    ("tric", [[2, 0, 0], [0, 2, 0], [0, 0, 1]], "P"),
    ("tric", [[1, 1, 0], [0, 2, 1], [-1, 0, 2]], "P"),
    ("hcp", [[2, 1, 0], [0, 2, 0], [0, 0, 2]], "P"),
    ("wz", [[2, 0, 0], [0, 2, 0], [0, 0, 1]], "P"),
    ("tetab", [[1, -1, 0], [1, 1, 0], [0, 0, 2]], "P"),
    ("cscl", [[3, 0, 0], [0, 2, 0], [0, 0, 1]], "P"),
    ("naclg", [[1, 0, 1], [0, 1, 0], [-1, 0, 1]], "F"),
    ("nacl", [[2, 0, 0], [0, 2, 0], [0, 0, 2]], "F"),
]
GEOMS_CUT_THOROUGH = [
    ("naclg", [[2, 0, 0], [0, 2, 0], [0, 0, 1]], "P"),
    ("hcp", [[3, 0, 0], [0, 3, 0], [0, 0, 2]], "P"),
    ("tric", [[2, 1, 0], [0, 2, 1], [1, 0, 2]], "P"),
    ("bcc", [[3, 0, 0], [0, 3, 0], [0, 0, 2]], "I"),
    ("wz", [[2, 1, 0], [0, 2, 0], [0, 0, 2]], "P"),
    ("nacl", [[3, 0, 0], [0, 2, 0], [0, 0, 2]], "F"),
    ("naclg", [[2, 0, 0], [0, 2, 0], [0, 0, 2]], "P"),
    ("wz", [[3, 0, 0], [0, 3, 0], [0, 0, 2]], "P"),
    ("hcp", [[4, 1, 0], [0, 4, 0], [1, 0, 2]], "P"),
    ("tetab", [[3, -1, 0], [1, 3, 0], [0, 1, 3]], "P"),
    ("bcc", [[2, 2, 0], [-2, 2, 0], [0, 0, 3]], "I"),
]
GEOMS_DRIFT = [
    ("nacl", [[2, 0, 0], [0, 1, 0], [0, 0, 1]], "F"),
    ("bcc", [[2, 0, 0], [0, 2, 0], [0, 0, 2]], "I"),
    ("tric", [[2, 0, 0], [0, 1, 0], [0, 0, 1]], "P"),
    ("cscl", [[2, 0, 0], [0, 2, 0], [0, 0, 1]], "P"),
    ("tetab", [[1, -1, 0], [1, 1, 0], [0, 0, 2]], "P"),
    ("naclg", [[1, 1, 0], [-1, 1, 0], [0, 0, 1]], "F"),
    ("hcp", [[2, 1, 0], [0, 2, 0], [0, 0, 1]], "P"),
]
GEOMS_REARR = [
    ("tric", [[2, 0, 0], [0, 1, 0], [0, 0, 1]]),
    ("cscl", [[2, 0, 0], [0, 2, 0], [0, 0, 1]]),
    ("tetab", [[1, -1, 0], [1, 1, 0], [0, 0, 2]]),
    ("hcp", [[2, 1, 0], [0, 2, 0], [0, 0, 1]]),
    ("nacl", [[1, 1, 0], [-1, 1, 0], [0, 0, 1]]),
    ("bcc", [[2, 0, 0], [0, 2, 0], [0, 0, 2]]),
]


def account(ctx, module, res, note):
    ctx.states += res.distinct
    ctx.transitions += res.generated
    ctx.tlc_runs.append(dict(module=module, cfg=note, **res.summary(), coverage=None))


def thaw(x):
    if isinstance(x, dict):
        return {k: thaw(v) for k, v in x.items()}
    if isinstance(x, (list, tuple)):
        return [thaw(v) for v in x]
    if isinstance(x, (set, frozenset)):
        return sorted(thaw(v) for v in x)
    return x


def judge(ctx, module, tag, invs, events, chunks=4):
    """Hand the events to TLC (sets of records, one behaviour per event); returns {id: printed report}."""
    if not events:
        raise tlcmod.MachineryError("x10: no %s events" % module)
    cfg = ("INIT Init\nNEXT Next\nCONSTANTS\n Events <- MCEvents\nCHECK_DEADLOCK FALSE\nINVARIANT Report\n"
           + "".join("INVARIANT %s\n" % i for i in invs))
    parts = [events[k::chunks] for k in range(chunks) if events[k::chunks]]

    def one(part):
        mc = ("---- MODULE MC_%s ----\nEXTENDS %s\nMCEvents == {\n%s}\n====\n"
              % (module, module, ",\n".join(to_tla(e) for e in part)))
        return tlcmod.run("MC_" + module, cfg_text=cfg, extra_files={"MC_%s.tla" % module: mc}, workers=1,
                          extra_args=("-continue",))

    reports, violated = {}, set()
    with ThreadPoolExecutor(max_workers=chunks) as ex:
        for part, res in zip(parts, ex.map(one, parts)):
            account(ctx, "MC_" + module, res, "(generated, %d events)" % len(part))
            if res.kind not in (None, "invariant") and not res.violations and res.distinct == 0:
                raise tlcmod.MachineryError("x10: TLC failed on %s:\n%s" % (module, res.stdout[-3000:]))
            if res.distinct != 3 * len(part) and not res.violations:
                # every event is one behaviour load -> judge -> done: both actions fired for every event
                raise tlcmod.MachineryError("x10: %s: %d states for %d events (expected 3 per event)" % (module, res.distinct, len(part)))
            for v in tlcmod.printed_values(res.stdout):
                if isinstance(v, (list, tuple)) and v and v[0] == tag:
                    reports[v[1]] = v
            violated |= set(n for n, _ in res.violations)
            tlcmod.cleanup(res)
    if set(reports) != set(e["id"] for e in events):
        raise tlcmod.MachineryError("x10: TLC reported on %d of %d %s events" % (len(reports), len(events), module))
    named = set(n for v in reports.values() for n in v[2])
    # with -continue TLC names only the first violated invariant of a state: a subset of the per-event report
    if not (violated <= named and bool(violated) == bool(named)):
        raise tlcmod.MachineryError("x10: %s invariant verdicts %s differ from the per-event report %s" % (module, sorted(violated), sorted(named)))
    return reports


def demo(ctx, name, module, invs, event, expect):
    """A deliberately corrupted event must be rejected by the named judgement (the trace spec is bound to the log)."""
    cfg = ("INIT Init\nNEXT Next\nCONSTANTS\n Events <- MCEvents\nCHECK_DEADLOCK FALSE\n" + "".join("INVARIANT %s\n" % i for i in invs))
    mc = "---- MODULE MC_%s ----\nEXTENDS %s\nMCEvents == {\n%s}\n====\n" % (module, module, to_tla(event))
    ctx.binding_demo(name, "MC_" + module, cfg, mc, expect)


def report_failures(ctx, prefix, reports, byid, describe):
    groups = {}
    for eid, v in reports.items():
        for nm in v[2]:
            groups.setdefault(nm, []).append(eid)
    for nm, ids in sorted(groups.items()):
        side = "model" if nm.startswith(("Req", "Hyp")) else "implementation"
        ctx.violation("%s:%s" % (prefix, nm), "%s-side judgement %s of the specification fails (%d events)" % (side, nm, len(ids)),
                      dict(events=len(ids), witnesses=[describe(byid[i]) for i in sorted(ids)[:3]]))


# ---------------------------------------------------------------------------------------------------
def cutoff_part(ctx, lib, Oracle):
    geoms = [(e, S, pm, False) for e, S, pm in GEOMS_CUT + ([] if ctx.quick else GEOMS_CUT_THOROUGH)]
    # the family of ALL sublattices of small index (one Hermite basis each, re-based by unimodular matrices)
    hnf = lib.hnf_matrices(4 if ctx.quick else 6)
    fam_entries = ["tric", "hcp", "tetab", "cscl"]
    for k, H in enumerate(hnf):
        ents = [fam_entries[(k + ctx.seed) % 4]] if ctx.quick else fam_entries
        for en in ents:
            U = lib.REBASE[(k + len(en) + ctx.seed) % len(lib.REBASE)]
            geoms.append((en, (np.array(H) @ np.array(U)).tolist(), "P", True))
    rng = np.random.default_rng(1000 + ctx.seed)
    events, keep = [], {}
    eid = 0
    classes = ["self", "mid", "mid", "mid", "all", "beyond"]
    orcs = {}
    for g, (entry, S, pm, family) in enumerate(geoms):
        if family:
            orc = orcs.setdefault(entry, Oracle(entry, [lib.ID3], seed=ctx.seed + 7, ctx=None))
        else:
            orc = Oracle(entry, [lib.ID3], seed=ctx.seed + g, ctx=None)
        G = [[int(x) for x in r] for r in orc.cr["G"]]
        if family:
            denses = (bool((g + ctx.seed) % 2),)
        else:
            denses = (True, False) if (g + ctx.seed) % 2 == 0 or not ctx.quick else (bool((g + ctx.seed) % 4 // 2),)
        for dense in denses:
            noisy = (g + ctx.seed) % 3 == 1
            ph = lib.build(orc, S, pm, dense, noise=(rng, 2e-8) if noisy else None)
            upos = lib.project(orc, ph.supercell)
            n = len(upos)
            p2s = [int(x) for x in ph.primitive.p2s_map]
            for layout in (("full", "compact") if not family else (("full", "compact")[(g + ctx.seed) % 2],)):
                rows = list(range(n)) if layout == "full" else p2s
                B, tab, U, R = lib.choose_box(G, S, orc.D, upos, rows)
                vals = sorted(set(int(x) for x in tab.ravel()))
                if len(vals) < 3:
                    continue                       # a single cell: nothing between the self distance and the diameter
                reps = 1 if family else 2 if ctx.quick else 4
                for rep in range(reps):
                    def pick(cls):
                        if cls == "self":
                            return 1, 2
                        if cls == "all":
                            return 2 * vals[-1] + 1, 2
                        if cls == "beyond":
                            return 8 * vals[-1], 1
                        return 2 * vals[int(rng.integers(1, len(vals) - 1))] + 1, 2
                    c1 = classes[int(rng.integers(len(classes)))] if rep else "mid"
                    c2 = classes[int(rng.integers(len(classes)))]
                    (rn, rd), (qn, qd) = pick(c1), pick(c2)
                    scale = orc.a / orc.D
                    radii = (float(np.sqrt(rn / rd)) * scale, float(np.sqrt(qn / qd)) * scale)
                    route = "api" if (eid + ctx.seed) % 2 == 0 else "function"
                    try:
                        out, fc0, first = lib.cutoff_calls(ph, layout, route, rng, radii)
                    except Exception as exc:  # noqa: BLE001
                        ctx.violation("cutoff:raised", "cutoff of force constants raised %r" % (exc,),
                                      dict(entry=entry, S=S, pm=pm, layout=layout, route=route, radii=radii))
                        continue
                    eid += 1
                    ev = dict(id=eid, gram=G, dd=orc.D, smat=S, umat=U, rbas=R, upos=upos, nunit=len(orc.num), rows=[r + 1 for r in rows], lay=layout, box=B,
                              rnum=rn, rden=rd, qnum=qn, qden=qd, st=out["st"], st2=out["st2"], st3=out["st3"], sd3=out["sd3"],
                              sf=out["sf"])
                    events.append(ev)
                    keep[eid] = dict(entry=entry, S=S, pm=pm, dense=dense, noisy=noisy, layout=layout, route=route, radii=radii, r2=[rn, rd],
                                     q2=[qn, qd], fc0=fc0, first=first, natom=n)
                    ctx.count(("cutoff", entry, json.dumps(S), pm, dense, noisy, layout, route, c1, c2))
    reports = judge(ctx, "FCCutoff", "X10C", CUT_INV, events, chunks=6)
    desc = lambda k: {x: k[x] for x in ("entry", "S", "pm", "dense", "noisy", "layout", "route", "radii", "r2", "q2")}  # noqa: E731
    report_failures(ctx, "cutoff", reports, keep, desc)
    # spec -> code: the status matrix TLC printed, applied to the input array, is the array the code returned
    kept_total = zero_total = 0
    for i, v in reports.items():
        k = keep[i]
        mask = np.array(thaw(v[3]), dtype=int)
        want = k["fc0"].copy()
        want[mask == 1] = 0.0
        kept_total += int((mask == 0).sum())
        zero_total += int((mask == 1).sum())
        if not np.array_equal(want, k["first"]):
            bad = np.argwhere(np.any(want != k["first"], axis=(2, 3)))[:5].tolist()
            ctx.violation("replay:cutoff", "the array returned by the cutoff differs from the input array with TLC's zero set applied",
                          dict(case=desc(k), first_wrong_pairs=bad))
    bad = json.loads(json.dumps(events[0]))
    bad["st"][0][-1] = 1 - bad["st"][0][-1] if bad["st"][0][-1] < 2 else 0
    demo(ctx, "cutoff: one status flipped", "FCCutoff", ["ImplKeptIffWithin"], bad, "ImplKeptIffWithin")
    ctx.traces += len(events)
    ctx.extra["cutoff"] = dict(events=len(events), geometries=len(geoms), sublattice_family=len(hnf), boxes=sorted(set(e["box"] for e in events)), pairs_kept=kept_total, pairs_zeroed=zero_total,
                               max_atoms=max(k["natom"] for k in keep.values()))
    if kept_total == 0 or zero_total == 0:
        raise tlcmod.MachineryError("x10: cutoff events are vacuous (kept %d, zeroed %d)" % (kept_total, zero_total))
    ctx.sample(dict(cutoff_event=dict(desc(keep[1]), kept_pairs=reports[1][4], largest_d2=reports[1][5])))


# ---------------------------------------------------------------------------------------------------
def drift_part(ctx, lib, Oracle):
    from phonopy.harmonic.force_constants import compact_fc_to_full_fc, full_fc_to_compact_fc

    rng = np.random.default_rng(2000 + ctx.seed)
    events, keep = [], {}
    eid = 0
    kinds = ["rand", "tie", "sparse", "rand", "zero"]
    for g, (entry, S, pm) in enumerate(GEOMS_DRIFT):
        orc = Oracle(entry, [lib.ID3], seed=ctx.seed + 50 + g, ctx=None)
        ph = lib.build(orc, S, pm, True)
        ph_log = lib.build(orc, S, pm, True, log_level=1)
        upos = lib.project(orc, ph.supercell)
        n = len(upos)
        species = list(ph.supercell.numbers)
        perms = lib.translations(S, orc.D, upos, species)
        p2s = [int(x) for x in ph.primitive.p2s_map]
        if len(perms) * len(p2s) != n:
            raise tlcmod.MachineryError("x10: %d exact translations x %d primitive atoms != %d atoms (%s)" % (len(perms), len(p2s), n, entry))
        nk = 3 if ctx.quick else 10
        for t in range(nk):
            kind = kinds[(t + g + ctx.seed) % len(kinds)] if t else "rand"
            F = lib.invariant_int_array(rng, perms, n, kind)
            for layout in ("full", "compact"):
                name = [None, "fc2 test"][(eid + g) % 2]
                vo = bool((eid // 2 + g) % 2)
                den = [1, 4][(t + g + ctx.seed) % 2]              # entries are multiples of 1/den: sums and "%f" stay exact
                arr = np.ascontiguousarray(F if layout == "full" else F[p2s], dtype="double") / den
                handed = np.rint(arr * den).astype(int).tolist()
                api = name is None and not vo and (eid + ctx.seed) % 3 != 2
                try:
                    out = lib.drift_call(arr, ph.primitive, name, vo, api=ph_log if api else None, den=den)
                    xa = compact_fc_to_full_fc(ph.primitive, arr.copy()) if layout == "compact" else full_fc_to_compact_fc(ph.primitive, arr.copy())
                except Exception as exc:  # noqa: BLE001
                    ctx.violation("drift:raised", "show_drift_force_constants / layout conversion raised %r" % (exc,),
                                  dict(entry=entry, S=S, pm=pm, layout=layout))
                    continue
                xi = lib.to_int_array(xa * den)
                eid += 1
                events.append(dict(id=eid, lay=layout, prows=[p + 1 for p in p2s], farr=handed, fullarr=F.tolist(),
                                   tperms=[[p + 1 for p in pp] for pp in perms], parsed=out["parsed"], rv1=out["rv1"], rc1=out["rc1"],
                                   rv2=out["rv2"], rc2=out["rc2"], same=out["same"], pfx=out["pfx"], nm=name or "force constants", vo=vo,
                                   xarr=(xi.tolist() if xi is not None else [])))
                keep[eid] = dict(entry=entry, S=S, pm=pm, layout=layout, kind=kind, text=out["text"], name=name, values_only=vo, unit="1/%d" % den,
                                 route="Phonopy.set_force_constants" if api else "show_drift_force_constants",
                                 array=handed if n <= 8 else "(%d atoms, seed %d)" % (n, ctx.seed))
                ctx.count(("drift", entry, json.dumps(S), pm, layout, kind, name, vo, api, den))
    reports = judge(ctx, "FCDrift", "X10D", DRIFT_INV, events, chunks=4)

    def desc(k):
        return k
    for i, v in reports.items():
        keep[i]["definition"] = dict(max1=v[3], where1=thaw(v[4]), max2=v[5], where2=thaw(v[6]))
    report_failures(ctx, "drift", reports, keep, desc)
    bad = json.loads(json.dumps(events[0]))
    bad["rv1"] += 1
    demo(ctx, "drift: reported value off by one unit", "FCDrift", ["ImplDrift1Value"], bad, "ImplDrift1Value")
    ctx.traces += len(events)
    nz = sum(1 for v in reports.values() if v[3] != 0 or v[5] != 0)
    asym = sum(1 for v in reports.values() if any((b, a) not in v[4] for (a, b) in v[4]))
    ctx.extra["drift"] = dict(events=len(events), nonzero_drift=nz, maxima_with_asymmetric_location_set=asym)
    if nz < len(events) // 2 or asym == 0:
        raise tlcmod.MachineryError("x10: drift events are vacuous (%d non-zero, %d asymmetric of %d)" % (nz, asym, len(events)))
    ctx.sample(dict(drift_event={x: keep[1][x] for x in ("entry", "S", "layout", "text", "definition")}))


# ---------------------------------------------------------------------------------------------------
def rearrange_part(ctx, lib, Oracle):
    from phonopy.harmonic.force_constants import rearrange_force_constants_array
    from phonopy.structure.atoms import PhonopyAtoms
    from phonopy.structure.cells import get_supercell

    rng = np.random.default_rng(3000 + ctx.seed)
    events, keep = [], {}
    eid = 0
    geoms = GEOMS_REARR if not ctx.quick else GEOMS_REARR[:5]
    for g, (entry, S) in enumerate(geoms):
        with_oracle = g < (3 if ctx.quick else 5)
        orc = Oracle(entry, [S] if with_oracle else [lib.ID3], seed=ctx.seed + 80 + g, ctx=ctx if with_oracle else None)
        unit = orc.unitcell()
        a_old = get_supercell(unit, S, is_old_style=True)
        a_new = get_supercell(unit, S, is_old_style=False)
        n = len(a_old)
        Sn = np.array(S)

        def shifted(cell, kind):
            sigma = rng.permutation(n) if kind != "shift" else np.arange(n)
            pos = cell.scaled_positions[sigma].copy()
            if kind != "perm":
                pos += rng.integers(-2, 3, size=(n, 3))
            sym = [cell.symbols[k] for k in sigma]
            mass = cell.masses[sigma]
            if kind == "alien-move":
                k = int(rng.integers(n))
                # a unit-cell lattice vector that is not a supercell lattice vector (in supercell coordinates)
                for unitvec in np.eye(3, dtype=int):
                    frac = np.linalg.solve(Sn.astype(float), unitvec.astype(float))
                    if np.abs(frac - np.rint(frac)).max() > 1e-6:
                        pos[k] += frac
                        break
            if kind == "alien-species":
                syms = sorted(set(sym))
                k = int(rng.integers(n))
                sym[k] = [s for s in syms + ["Si"] if s != sym[k]][0]
                mass = None
            return PhonopyAtoms(symbols=sym, scaled_positions=pos, cell=cell.cell, masses=mass)

        pres = [("old->new", a_old, a_new), ("new->old", a_new, a_old), ("perm+shift", a_old, shifted(a_old, "both")),
                ("perm", a_new, shifted(a_new, "perm")), ("shift", a_old, shifted(a_old, "shift")),
                ("alien-move", a_old, shifted(a_old, "alien-move")), ("alien-species", a_new, shifted(a_new, "alien-species"))]
        if ctx.quick:
            pres = [pres[(g + ctx.seed) % 2]] + pres[2:]
        for kind, a, b in pres:
            codes = (np.arange(n * n * 9).reshape(n, n, 3, 3) + 1).astype("double")
            if with_oracle and not kind.startswith("alien"):
                fa = orc.supercell_fc(S, a)
                fb = orc.supercell_fc(S, b)
            else:
                fa = fb = None
            ua, ub = lib.project(orc, a), lib.project(orc, b)
            before = codes.copy()
            ev = dict(idx=[], rarr=[], bidx=[], barr=[], orok=True)
            try:
                re_fc, idx = rearrange_force_constants_array(codes, a, b)
                ev["outc"] = "ok"
            except Exception as exc:  # noqa: BLE001
                ev["outc"] = "raised"
                ev["exc"] = repr(exc)
            worst = None
            if ev["outc"] == "ok":
                try:
                    back, bidx = rearrange_force_constants_array(re_fc, b, a)
                    ev.update(idx=[int(x) + 1 for x in idx], rarr=re_fc.astype(int).reshape(n, n, 9).tolist(),
                              bidx=[int(x) + 1 for x in bidx], barr=back.astype(int).reshape(n, n, 9).tolist())
                    if fa is not None:
                        got, _ = rearrange_force_constants_array(fa, a, b)
                        worst = float(np.abs(got - fb).max())
                        ev["orok"] = bool(worst <= 1e-11 * max(1.0, float(np.abs(fb).max())))
                except Exception as exc:  # noqa: BLE001
                    ev["outc"] = "raised"
                    ev["exc"] = repr(exc)
            eid += 1
            exc = ev.pop("exc", None)
            ev.update(id=eid, dd=orc.D, smat=S, ua=ua, ub=ub, spa=[int(x) for x in a.numbers], spb=[int(x) for x in b.numbers],
                      farr=before.astype(int).reshape(n, n, 9).tolist(), alien=kind.startswith("alien"),
                      same=bool(np.array_equal(codes, before)))
            events.append(ev)
            keep[eid] = dict(entry=entry, S=S, presentation=kind, outcome=ev["outc"], exception=exc, indices=ev["idx"],
                             oracle_max_abs_err=worst, a_positions=ua, b_positions=ub)
            ctx.count(("rearrange", entry, json.dumps(S), kind))
    reports = judge(ctx, "FCRearrange", "X10R", REARR_INV, events, chunks=4)
    report_failures(ctx, "rearrange", reports, keep, lambda k: k)
    # spec -> code: TLC's identification of the atoms against the returned indices
    nontrivial = 0
    for i, v in reports.items():
        pi = list(thaw(v[3]))
        k = keep[i]
        if pi and k["outcome"] == "ok":
            if pi != k["indices"]:
                ctx.violation("replay:rearrange", "indices returned by rearrange_force_constants_array differ from TLC's identification",
                              dict(case=k, expected=pi))
            if pi != sorted(pi):
                nontrivial += 1
    bad = json.loads(json.dumps(next(e for e in events if e["outc"] == "ok")))
    bad["idx"][0], bad["idx"][1] = bad["idx"][1], bad["idx"][0]
    demo(ctx, "rearrange: two indices exchanged", "FCRearrange", ["ImplIndices"], bad, "ImplIndices")
    ctx.traces += len(events)
    errs = [k["oracle_max_abs_err"] for k in keep.values() if k["oracle_max_abs_err"] is not None]
    ctx.extra["rearrange"] = dict(events=len(events), nontrivial_permutations=nontrivial, oracle_compared=len(errs),
                                  oracle_worst_abs_err=max(errs) if errs else None,
                                  refused=sum(1 for k in keep.values() if k["outcome"] == "raised"))
    if nontrivial < 3 or not errs:
        raise tlcmod.MachineryError("x10: rearrangement events are vacuous")
    ctx.sample(dict(rearrange_event={x: keep[1][x] for x in ("entry", "S", "presentation", "indices")}))



# ---------------------------------------------------------------------------------------------------
SITE_INV = ["ReqUnimodular", "ReqSimAction", "ReqSimMultiplicative", "ReqSimInvariants", "ReqSitePermutes", "ImplAnswer"]
GEOMS_SITE = [
    ("nacl", [[2, 0, 0], [0, 1, 0], [0, 0, 1]], "F"),
    ("bcc", [[2, 0, 0], [0, 2, 0], [0, 0, 2]], "I"),
    ("hcp", [[2, 0, 0], [0, 2, 0], [0, 0, 1]], "P"),
    ("tetab", [[1, -1, 0], [1, 1, 0], [0, 0, 2]], "P"),
    ("wz", [[2, 0, 0], [0, 2, 0], [0, 0, 1]], "P"),
    ("tric", [[2, 0, 0], [0, 1, 0], [0, 0, 1]], "P"),
]


def siteops_part(ctx, lib, Oracle):
    from phonopy.harmonic.force_constants import get_positions_sent_by_rot_inv, get_rotated_displacement
    from phonopy.utils import similarity_transformation
    from harness.oracle import adj3, class_key, det3

    rng = np.random.default_rng(4000 + ctx.seed)
    events, keep = [], {}
    eid = 0
    pool = []
    nontrivial_maps = 0
    for g, (entry, S, pm) in enumerate(GEOMS_SITE):
        orc = Oracle(entry, [lib.ID3], seed=ctx.seed + 120 + g, ctx=None)
        Ws = []
        for W, _ in orc.o["aut"]:
            W = [[int(x) for x in r] for r in W]
            if W not in Ws:
                Ws.append(W)
        pool += Ws
        ph = lib.build(orc, S, pm, True)
        cell = ph.supercell
        upos = lib.project(orc, cell)
        n = len(upos)
        species = [int(x) for x in cell.numbers]
        Sn = np.array(S, dtype=np.int64)
        dS = det3(S)
        key = {(sp, class_key(S, orc.D, u)): k for k, (u, sp) in enumerate(zip(upos, species))}
        for c in sorted(set(int(x) for x in rng.integers(0, n, size=2 if ctx.quick else 4))):
            ops = []
            for W in Ws:
                Wn = np.array(W, dtype=np.int64)
                num = adj3(S) @ Wn @ Sn
                if np.any(num % dS):
                    continue                       # does not map the supercell lattice to itself
                uc = np.array(upos[c])
                if all(key.get((species[k], class_key(S, orc.D, Wn @ (np.array(upos[k]) - uc) + uc))) is not None for k in range(n)):
                    ops.append((W, (num // dS).tolist()))
            rng.shuffle(ops)
            ops = ops[:6]
            pos = cell.scaled_positions - cell.scaled_positions[c]
            ev = dict(kind="rotmap", dd=orc.D, smat=S, upos=upos, spec=species, ctr=c + 1, wmats=[o[0] for o in ops], got=[], outc="ok")
            try:
                rm = get_positions_sent_by_rot_inv(cell.cell.T, pos, np.array([o[1] for o in ops], dtype="intc"), 1e-5)
                ev["got"] = (np.array(rm, dtype=int) + 1).tolist()
                nontrivial_maps += sum(1 for r in rm if list(r) != list(range(n)))
            except Exception as exc:  # noqa: BLE001
                ev["outc"] = "raised: %r" % (exc,)
            eid += 1
            ev["id"] = eid
            events.append(ev)
            keep[eid] = dict(kind="rotmap", entry=entry, S=S, centre=c, operations_supercell_coords=[o[1] for o in ops], got=ev["got"], outcome=ev["outc"])
            ctx.count(("rotmap", entry, json.dumps(S), c, len(ops)))
    shears = [[[1, 1, 0], [0, 1, 0], [0, 0, 1]], [[1, 0, 0], [0, 1, 0], [2, -1, 1]], [[0, 1, 0], [0, 0, 1], [1, 0, 0]],
              [[2, 1, 0], [1, 1, 0], [0, 0, -1]], [[1, 0, -1], [0, 1, 1], [0, 0, 1]]]
    pool = [w for k, w in enumerate(pool) if w not in pool[:k]] + shears

    def rmat():
        a = np.array(pool[int(rng.integers(len(pool)))], dtype=int)
        if rng.random() < 0.5:
            a = a @ np.array(shears[int(rng.integers(len(shears)))], dtype=int)
        return a

    for t in range(40 if ctx.quick else 400):
        R, R2 = rmat(), rmat()
        M, M2 = rng.integers(-3, 4, size=(3, 3)), rng.integers(-3, 4, size=(3, 3))
        got = lib.to_int_array(similarity_transformation(R.astype(float), M.astype(float)))
        eid += 1
        events.append(dict(id=eid, kind="sim", rmat=R.tolist(), rtwo=R2.tolist(), mmat=M.tolist(), mtwo=M2.tolist(),
                           got=got.tolist() if got is not None else []))
        keep[eid] = dict(kind="sim", R=R.tolist(), M=M.tolist(), got=got.tolist() if got is not None else None)
        ctx.count(("sim", t))
    for t in range(20 if ctx.quick else 150):
        us = rng.integers(-4, 5, size=(int(rng.integers(1, 4)), 3))
        syms = np.array([rmat() for _ in range(int(rng.integers(1, 5)))])
        res = get_rotated_displacement(us.astype(float), syms.astype(float))
        got = lib.to_int_array(res)
        eid += 1
        events.append(dict(id=eid, kind="rotdisp", us=us.tolist(), syms=syms.tolist(), got=got.tolist() if got is not None else []))
        keep[eid] = dict(kind="rotdisp", us=us.tolist(), syms=syms.tolist(), got=got.tolist() if got is not None else None,
                         c_contiguous_double=bool(res.flags.c_contiguous and res.dtype == np.float64))
        ctx.count(("rotdisp", t))
    reports = judge(ctx, "FCSiteOps", "X10S", SITE_INV, events, chunks=4)
    report_failures(ctx, "siteops", reports, keep, lambda k: k)
    # spec -> code: TLC's exact answers against what the functions returned
    for i, v in reports.items():
        k = keep[i]
        if k["kind"] != "rotmap" and thaw(v[3]) != k["got"]:
            ctx.violation("replay:siteops:" + k["kind"], "%s differs from TLC's exact value" % k["kind"], dict(case=k, expected=thaw(v[3])))
    bad = json.loads(json.dumps(next(e for e in events if e["kind"] == "rotmap" and len(e["got"]) > 1)))
    bad["got"][0], bad["got"][1] = bad["got"][1], bad["got"][0]
    if bad["got"][0] != bad["got"][1]:
        demo(ctx, "rotmap: maps of two operations exchanged", "FCSiteOps", ["ImplAnswer"], bad, "ImplAnswer")
    ctx.traces += len(events)
    ctx.extra["siteops"] = dict(events=len(events), rotmap_events=sum(1 for k in keep.values() if k["kind"] == "rotmap"),
                                nontrivial_rot_maps=nontrivial_maps, unimodular_matrices=len(pool))
    if nontrivial_maps < 10:
        raise tlcmod.MachineryError("x10: site-symmetry events are vacuous (%d non-trivial maps)" % nontrivial_maps)

# ---------------------------------------------------------------------------------------------------
def run(ctx):
    from harness import bootstrap  # noqa: F401
    from harness import x10_lib as lib
    from harness.oracle import Oracle

    ctx.rule = ("cutoff keeps exactly the pairs whose exact minimum-image distance is within the radius; reported drift = "
                "definition; rearranged array = relabelled array")
    t0 = time.time()
    cutoff_part(ctx, lib, Oracle)
    t1 = time.time()
    drift_part(ctx, lib, Oracle)
    t2 = time.time()
    rearrange_part(ctx, lib, Oracle)
    t3 = time.time()
    siteops_part(ctx, lib, Oracle)
    t4 = time.time()
    ctx.extra["wall_s"] = dict(cutoff=round(t1 - t0, 1), drift=round(t2 - t1, 1), rearrange=round(t3 - t2, 1), siteops=round(t4 - t3, 1))
    ctx.extra["actions"] = "every event is a behaviour Load -> Judge -> done; 3 distinct states per event asserted for every TLC run"
    ctx.assumptions += [
        "radii lie strictly between two exact squared distances (ReqOffBoundary decided by TLC); the float comparison at the "
        "boundary itself is outside the claim",
        "integer crystals realised on a randomly rotated real lattice; positions are projected back to integers with residual < 1e-6",
        "drift arrays are small integers so that sums and the %f text are exact",
        "agreement with the spring-model force constants of the second cell is a float comparison (1e-11) of TLC-computed integers "
        "mapped to Cartesian components by the harness",
    ]
