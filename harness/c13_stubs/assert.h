#ifndef C13_ASSERT_H
#define C13_ASSERT_H
#define assert(x) ((void)0)
#endif
