#ifndef C13_STDDEF_H
#define C13_STDDEF_H
#include <stdint.h>
#ifdef __cplusplus
#define NULL 0L
#else
#define NULL ((void *)0)
#endif
#endif
