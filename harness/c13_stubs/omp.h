#ifndef C13_OMP_H
#define C13_OMP_H
int omp_get_max_threads(void);
int omp_get_thread_num(void);
int omp_get_num_threads(void);
#endif
