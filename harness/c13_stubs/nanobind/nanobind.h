// C13 AST stub of nanobind: just enough for clang to type-check c/_phonopy.cpp.
#pragma once
#include <stdint.h>
namespace nanobind {
template <typename... Ts>
class ndarray {
   public:
    void *data() const;
    size_t shape(size_t i) const;
    size_t ndim() const;
};
class module_ {
   public:
    template <typename F>
    module_ &def(const char *name, F f);
};
}  // namespace nanobind
#define NB_MODULE(name, var) void nb_module_##name(nanobind::module_ &var)
