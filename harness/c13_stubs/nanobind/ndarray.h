#pragma once
