#ifndef C13_STDIO_H
#define C13_STDIO_H
#include <stddef.h>
typedef struct c13_FILE FILE;
extern FILE *stderr;
int printf(const char *fmt, ...);
int fprintf(FILE *f, const char *fmt, ...);
#endif
