#ifndef C13_STDLIB_H
#define C13_STDLIB_H
#include <stddef.h>
void *malloc(size_t n);
void free(void *p);
#endif
