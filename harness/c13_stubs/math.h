#ifndef C13_MATH_H
#define C13_MATH_H
double sqrt(double); double exp(double); double log(double); double sin(double);
double cos(double); double sinh(double); double cosh(double); double fabs(double);
double pow(double, double); double floor(double); double ceil(double);
#endif
