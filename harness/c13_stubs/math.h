#ifndef C13_MATH_H
#define C13_MATH_H
double sqrt(double); double exp(double); double log(double); double sin(double);
double cos(double); double sinh(double); double cosh(double); double fabs(double);
double pow(double, double); double expm1(double); double log1p(double); double tanh(double);
double atan2(double, double); double round(double); double floor(double); double ceil(double);
#endif
