/* C13 AST stubs: minimal declarations so that clang can build a typed AST of
   phonopy's C sources with -nostdinc (small JSON, no system headers). */
#ifndef C13_STDINT_H
#define C13_STDINT_H
typedef long int64_t;
typedef int int32_t;
typedef unsigned long uint64_t;
typedef unsigned long size_t;
#endif
