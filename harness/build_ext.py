"""Build phonopy's compiled extension from /repo's *current* C sources.

Content-addressed: the hash of c/*.c, c/*.h, c/_phonopy.cpp, the stand-in
nanobind header and the flag set names the build directory, so an edited
/repo/c always gives a fresh build.  Nothing is written under /repo.
"""
from __future__ import annotations

import hashlib
import os
import shutil
import subprocess
import sys
import sysconfig
import time

VERIF = os.path.dirname(os.path.dirname(os.path.abspath(__file__)))
REPO = os.environ.get("VERIF_REPO", "/repo")
CACHE = os.path.join(VERIF, ".cache", "ext")
SHIM = os.path.join(VERIF, "harness", "nbshim")

VARIANTS = {
    "omp": dict(cc="gcc", cxx="g++", flags=["-O2", "-fopenmp"], ld=["-fopenmp"]),
    "serial": dict(cc="gcc", cxx="g++", flags=["-O2"], ld=[]),
    "asan": dict(
        cc="clang",
        cxx="clang++",
        flags=["-O1", "-g", "-fsanitize=address,undefined", "-fno-omit-frame-pointer"],
        ld=["-fsanitize=address,undefined", "-shared-libasan"],
    ),
}


def _sources(repo):
    cdir = os.path.join(repo, "c")
    return sorted(
        os.path.join(cdir, f)
        for f in os.listdir(cdir)
        if f.endswith((".c", ".h", ".cpp"))
    )


def source_hash(repo=REPO):
    h = hashlib.blake2b(digest_size=10)
    for p in _sources(repo) + [
        os.path.join(SHIM, "nanobind", "nanobind.h"),
        os.path.join(SHIM, "nanobind", "ndarray.h"),
    ]:
        h.update(os.path.basename(p).encode())
        with open(p, "rb") as f:
            h.update(f.read())
    h.update(repr(sorted((k, sorted(v.items())) for k, v in VARIANTS.items())).encode())
    h.update(sys.version.encode())
    return h.hexdigest()


def ext_suffix():
    return sysconfig.get_config_var("EXT_SUFFIX")


def build(variant="omp", repo=REPO, verbose=False):
    """Return the directory holding _phonopy<EXT_SUFFIX> for this variant."""
    v = VARIANTS[variant]
    hh = source_hash(repo)
    outdir = os.path.join(CACHE, hh, variant)
    so = os.path.join(outdir, "_phonopy" + ext_suffix())
    if os.path.exists(so):
        return outdir
    tmp = outdir + ".tmp%d" % os.getpid()
    os.makedirs(tmp, exist_ok=True)
    inc = sysconfig.get_paths()["include"]
    cdir = os.path.join(repo, "c")
    objs = []
    t0 = time.time()
    procs = []
    for src in _sources(repo):
        if src.endswith(".h"):
            continue
        obj = os.path.join(tmp, os.path.basename(src) + ".o")
        objs.append(obj)
        if src.endswith(".cpp"):
            cmd = [v["cxx"], "-std=c++17", "-fvisibility=hidden", "-I" + SHIM]
        else:
            cmd = [v["cc"], "-std=c99"]
        cmd += v["flags"] + [
            "-fPIC", "-DTHM_EPSILON=1e-10", "-I" + cdir, "-I" + inc, "-c", src, "-o", obj,
        ]
        procs.append((cmd, subprocess.Popen(cmd, stdout=subprocess.PIPE, stderr=subprocess.STDOUT)))
    for cmd, p in procs:
        out, _ = p.communicate()
        if p.returncode != 0:
            shutil.rmtree(tmp, ignore_errors=True)
            raise RuntimeError("compile failed: %s\n%s" % (" ".join(cmd), out.decode()))
    so_tmp = os.path.join(tmp, "_phonopy" + ext_suffix())
    cmd = [v["cxx"], "-shared", "-o", so_tmp] + objs + v["ld"] + ["-lm"]
    r = subprocess.run(cmd, stdout=subprocess.PIPE, stderr=subprocess.STDOUT)
    if r.returncode != 0:
        shutil.rmtree(tmp, ignore_errors=True)
        raise RuntimeError("link failed: %s\n%s" % (" ".join(cmd), r.stdout.decode()))
    for o in objs:
        os.remove(o)
    os.makedirs(os.path.dirname(outdir), exist_ok=True)
    try:
        os.rename(tmp, outdir)
    except OSError:
        shutil.rmtree(tmp, ignore_errors=True)  # lost a race: other build is fine
    if verbose:
        print("built %s/%s in %.1fs" % (hh, variant, time.time() - t0), file=sys.stderr)
    _prune(keep=hh)
    return outdir


def _prune(keep, n=4):
    try:
        ds = [os.path.join(CACHE, d) for d in os.listdir(CACHE)]
    except FileNotFoundError:
        return
    ds = [d for d in ds if os.path.isdir(d) and os.path.basename(d) != keep]
    ds.sort(key=os.path.getmtime, reverse=True)
    for d in ds[n - 1:]:
        shutil.rmtree(d, ignore_errors=True)


if __name__ == "__main__":
    for var in sys.argv[1:] or ["omp"]:
        print(build(var, verbose=True))
