"""pytest plugin (-p harness.c15_pytest_trace): every Phonopy object created by
the repository's own tests becomes a history for spec/ApiHistoryTrace.tla.

Instrumentation is external (no source change): the public state-changing
operations and queries of phonopy.api_phonopy.Phonopy that are actions of
spec/ApiHistory.tla are wrapped; only the outermost wrapped call of a nest is
logged (phonopy calls its own setters internally).  After each call the real
state is projected with harness.c15_driver.project_core; after each query the
same call is repeated on a freshly constructed object given the current
structure, force constants, NAC parameters and masses, and the results are
compared.  Histories are written as JSON lines to $C15_TRACE_OUT.

A history is cut (and the cut counted) where the test itself provokes an
exception, changes the object behind the API's back (content fingerprint
differs between two calls: the test mutated an aliased array / private
attribute), or uses an operation the specification does not model.
"""
from __future__ import annotations

import copy
import functools
import json
import os
import threading

import numpy as np

from harness import bootstrap  # noqa: F401
from harness import c15_driver as D

from phonopy import Phonopy
from phonopy.structure.atoms import PhonopyAtoms

_tl = threading.local()
_objs = {}  # id(ph) -> record
_order = []
MAX_EVENTS = 60


def _depth():
    return getattr(_tl, "d", 0)


class Rec:
    def __init__(self, ph):
        self.ph = ph  # keeps the object alive: ids stay unique
        self.events = []
        self.cut = None
        self.sr_memo = {}
        self.book = D.ResultBook()
        self.mesh_call = None  # (name, args, kwargs) of the call that set up the mesh the object holds
        self.rd_call = None
        self.fp = None
        try:
            self.s2pp, self.u2pp = D.index_maps(ph)
        except Exception as e:  # noqa
            self.cut = "maps: %s" % e
        self.test = os.environ.get("PYTEST_CURRENT_TEST", "")


def _rec(ph):
    return _objs.get(id(ph))


def _project(r, building=None):
    core = D.project_core(r.ph, r.s2pp, r.u2pp, r.sr_memo, building)
    return dict(core, cp=dict(on=False, ok=True, shared=False), held=[], rs=r.book.project(r.ph))


def _event(r, op, **kw):
    rewritten = kw.pop("rewritten", ())
    ev = dict(op=op, lay="none", m="none", keep=False, f=False, typ="none", cls="none", k="none", i=0, chg=True,
              own=True, via="copy", snapok=True, refused=False, err=False, stored=True, qok=True, frame=True, errtext="")
    ev.update(kw)
    ev["obs"] = _project(r, ev["k"] if op == "Query" else None)
    ev["snapok"] = r.book.check_frozen(r.ph, rewritten)
    ev["test"] = os.environ.get("PYTEST_CURRENT_TEST", "")[:120]
    r.events.append(ev)
    r.fp = D.content_fingerprint(r.ph)
    if len(r.events) >= MAX_EVENTS:
        r.cut = "length"
    return ev


def _fresh(ph, r):
    pm = np.array(ph._primitive._masses)
    uc = ph._unitcell
    cell = PhonopyAtoms(symbols=list(uc.symbols), cell=np.array(uc.cell), scaled_positions=np.array(uc.scaled_positions),
                        masses=pm[r.u2pp], magnetic_moments=uc.magnetic_moments)
    fr = Phonopy(cell, supercell_matrix=ph._supercell_matrix, primitive_matrix=ph._primitive_matrix, factor=ph._factor,
                 frequency_scale_factor=ph._frequency_scale_factor, dynamical_matrix_decimals=ph._dynamical_matrix_decimals,
                 force_constants_decimals=ph._force_constants_decimals, group_velocity_delta_q=ph._gv_delta_q,
                 symprec=ph._symprec, is_symmetry=ph._is_symmetry, store_dense_svecs=ph._store_dense_svecs,
                 use_SNF_supercell=ph._use_SNF_supercell, calculator=ph._calculator, log_level=0)
    if ph._nac_params is not None:
        fr.nac_params = copy.deepcopy(ph._nac_params)
    fr.force_constants = np.array(ph._force_constants, dtype="double", order="C")
    return fr


def _result(ph, name, ret):
    if name == "run_qpoints":
        d = ph.get_qpoints_dict()
        return {k: d[k] for k in ("frequencies", "group_velocities", "dynamical_matrices")}
    if name == "run_mesh":
        d = ph.get_mesh_dict()
        return {k: d[k] for k in ("frequencies", "group_velocities", "weights")}
    if name == "run_band_structure":
        d = ph.get_band_structure_dict()
        return {k: d[k] for k in ("frequencies", "group_velocities")}
    if name == "get_frequencies_with_eigenvectors":
        return {"frequencies": ret[0]}
    if name == "get_dynamical_matrix_at_q":
        return {"dynamical_matrices": ret}
    if name == "get_frequencies":
        return {"frequencies": ret}
    if name == "get_group_velocity_at_q":
        return {"group_velocities": ret}
    if name == "get_mesh_dict":
        return {k: ret[k] for k in ("frequencies", "weights", "group_velocities")}
    if name == "run_thermal_properties":
        d = ph.get_thermal_properties_dict()
        return {k: d[k] for k in ("free_energy", "entropy", "heat_capacity")}
    if name == "run_total_dos":
        d = ph.get_total_dos_dict()
        return {k: d[k] for k in ("frequency_points", "total_dos")}
    if name == "run_projected_dos":
        d = ph.get_projected_dos_dict()
        return {k: d[k] for k in ("frequency_points", "projected_dos")}
    if name == "run_thermal_displacements":
        return {"thermal_displacements": ph.get_thermal_displacements_dict()["thermal_displacements"]}
    if name == "run_thermal_displacement_matrices":
        return {"thermal_displacement_matrices": ph.get_thermal_displacement_matrices_dict()["thermal_displacement_matrices"]}
    if name == "run_moment":
        return {"moment": np.array([ph.get_moment()])}
    if name == "get_random_displacements_at_temperature":
        return {"random_displacements": ret}
    return {}


def _compare(a, b):
    worst = 0.0
    for k in a:
        x, y = a[k], b[k]
        if x is None and y is None:
            continue
        if x is None or y is None:
            return float("inf")
        try:
            xs = [np.nan_to_num(np.asarray(v, dtype=complex)) for v in (x if isinstance(x, (list, tuple)) else [x])]
            ys = [np.nan_to_num(np.asarray(v, dtype=complex)) for v in (y if isinstance(y, (list, tuple)) else [y])]
        except Exception:
            return float("inf")
        if len(xs) != len(ys):
            return float("inf")
        for u, v in zip(xs, ys):
            if u.shape != v.shape:
                return float("inf")
            if u.size:
                worst = max(worst, float(np.abs(u - v).max()) / D.Driver.TOL.get(k, 1e-8))
    return worst


def _wrap(name, orig, kind, describe):
    @functools.wraps(orig)
    def w(self, *a, **k):
        r = _rec(self)
        if r is None or r.cut or _depth() > 0:
            if r is not None and _depth() == 0 and r.cut is None:
                pass
            _tl.d = _depth() + 1
            try:
                return orig(self, *a, **k)
            finally:
                _tl.d -= 1
        # the test changed the object behind the API's back?
        if r.fp is not None and D.content_fingerprint(self) != r.fp:
            r.cut = "external-mutation before %s" % name
            return orig(self, *a, **k)
        _tl.d = _depth() + 1
        try:
            ret = orig(self, *a, **k)
        except BaseException as e:
            r.cut = "exception in %s: %s" % (name, type(e).__name__)
            raise
        finally:
            _tl.d -= 1
        try:
            ops = describe(self, a, k, ret)
            if ops is None:
                r.cut = "unmodelled use of %s" % name
                return ret
            if ops == "skip":
                r.fp = D.content_fingerprint(self)
                return ret
            compare = ops.pop("compare", True)
            fp_now = r.book.epoch(self)
            kq = ops.get("k", "none")
            if ops["op"] == "Query":
                if kq in ("qp", "qpgv"):
                    r.book.qp = fp_now
                    ops["rewritten"] = ("qpoints",)
                elif kq in ("band", "bandgv"):
                    r.book.qp = fp_now
                    ops["rewritten"] = ("band",)
                elif kq in D.MESH_KINDS:
                    r.book.mesh[id(self._mesh)] = fp_now
                    r.book.keep.append(self._mesh)
                    r.mesh_call = (name, a, k)
                    ops["rewritten"] = ("mesh",)
                elif kq in D.CONSUMERS:
                    if kq != "meshdict":
                        r.book.tp = r.book.mesh.get(id(self._mesh))
                    ops["rewritten"] = ("mesh", "tp", "tdos", "pdos", "td")
            elif ops["op"] == "InitRD":
                g = self._random_displacements
                r.book.rd[id(g)] = r.book.epoch(self, ("fc", "mass"))
                r.book.keep.append(g)
                r.rd_call = (a, k)
            ev = _event(r, **ops)
            if kind == "query" and compare is not False:
                _tl.d = _depth() + 1
                try:
                    fr = _fresh(self, r)
                    if kq in D.CONSUMERS:
                        mname, ma, mk = r.mesh_call
                        getattr(Phonopy, mname).__wrapped__(fr, *ma, **mk)
                    elif kq == "rdq":
                        Phonopy.init_random_displacements.__wrapped__(fr, *r.rd_call[0], **r.rd_call[1])
                    fret = getattr(Phonopy, name).__wrapped__(fr, *a, **k)
                    worst = _compare(_result(self, name, ret), _result(fr, name, fret))
                finally:
                    _tl.d -= 1
                ev["qmargin"] = worst
                ev["qok"] = bool(worst <= D.Driver.BOUND)
            ev.pop("compare", None)
        except Exception as e:  # machinery problem of the tracer: cut, never disturb the test
            r.cut = "tracer: %s: %s" % (type(e).__name__, str(e)[:100])
        return ret
    return w


def _lay(ph):
    fc = ph._force_constants
    if fc is None:
        return "none"
    fc = np.asarray(fc)
    return "full" if fc.shape[0] == fc.shape[1] else "compact"


def _d_setfc(ph, a, k, ret):
    return None if ph._force_constants is None else dict(op="SetFC", lay=_lay(ph))


def _d_setnac(ph, a, k, ret):
    nac = ph._nac_params
    if nac is None:
        r = _rec(ph)
        prev = r.events[-1]["obs"]["nacm"] if r.events else "none"
        return "skip" if prev == "none" else dict(op="ClearNAC")
    return dict(op="SetNAC", m="wang" if nac.get("method") == "wang" else "gonze")


def _d_dataset(ph, a, k, ret):
    ds = ph._dataset
    if ds is None:
        return None
    if "first_atoms" not in ds and "displacements" not in ds:
        return None
    return dict(op="SetDataset", typ="t1" if "first_atoms" in ds else "t2", f=D.ds_forces_content(ds) is not None)


def _d_forces(ph, a, k, ret):
    return dict(op="SetForces") if D.ds_forces_content(ph._dataset) is not None else None


def _d_produce(ph, a, k, ret):
    if k.get("fc_calculator") not in (None, "traditional") or k.get("forces") is not None or (len(a) > 0 and a[0] is not None):
        return None
    return dict(op="ProduceFC", lay=_lay(ph))


def _gvflag(a, k, pos):
    return bool(k.get("with_group_velocities", a[pos] if len(a) > pos else False))


def _mesh_kind(ph, a, k):
    from phonopy.phonon.mesh import IterMesh
    m = ph._mesh
    full = bool(m.with_eigenvectors and np.prod(m.mesh_numbers) == len(m.ir_grid_points))
    gvf = _gvflag(a, k, 5)
    if isinstance(m, IterMesh):
        return "meshiter" if full and not gvf else None
    if m._frequencies is None:
        return "meshlazy" if not full and not gvf else None
    if gvf:
        return "meshgv" if not full else None
    return "meshfull" if full else "mesh"


def _d_mesh(ph, a, k, ret):
    kind = _mesh_kind(ph, a, k)
    return None if kind is None else dict(op="Query", k=kind)


def _consumer(kq):
    def d(ph, a, k, ret):
        r = _rec(ph)
        if r.mesh_call is None:
            return None
        return dict(op="Query", k=kq)
    return d


def _d_rdq(ph, a, k, ret):
    r = _rec(ph)
    if r.rd_call is None:
        return None
    seed = k.get("random_seed", a[3] if len(a) > 3 else None)
    return dict(op="Query", k="rdq", compare=seed is not None)


def _d_dataset_setter(ph, a, k, ret):
    if ph._dataset is None:
        r = _rec(ph)
        prev = r.events[-1]["obs"]["dsT"] if r.events else "none"
        return "skip" if prev == "none" else dict(op="ClearDataset")
    return _d_dataset(ph, a, k, ret)


WRAPS = {
    "produce_force_constants": ("op", _d_produce),
    "symmetrize_force_constants": ("op", lambda ph, a, k, r: dict(op="Symmetrize")),
    "symmetrize_force_constants_by_space_group": ("op", lambda ph, a, k, r: dict(op="SymmetrizeSG") if _lay(ph) == "full" else None),
    "set_force_constants_zero_with_radius": ("op", lambda ph, a, k, r: dict(op="Cutoff")),
    "generate_displacements": ("op", lambda ph, a, k, r: None if k.get("temperature") is not None else _d_dataset(ph, a, k, r)),
    "run_qpoints": ("query", lambda ph, a, k, r: dict(op="Query", k="qpgv" if _gvflag(a, k, 2) else "qp")),
    "run_mesh": ("query", _d_mesh),
    "run_band_structure": ("query", lambda ph, a, k, r: dict(op="Query", k="bandgv" if _gvflag(a, k, 2) else "band")),
    "get_dynamical_matrix_at_q": ("query", lambda ph, a, k, r: dict(op="Query", k="dmq")),
    "get_frequencies": ("query", lambda ph, a, k, r: dict(op="Query", k="dmq")),
    "get_frequencies_with_eigenvectors": ("query", lambda ph, a, k, r: dict(op="Query", k="dmq")),
    "get_group_velocity_at_q": ("query", lambda ph, a, k, r: dict(op="Query", k="gvq")),
    "init_mesh": ("query", _d_mesh),
    "get_mesh_dict": ("query", _consumer("meshdict")),
    "run_thermal_properties": ("query", _consumer("tp")),
    "run_total_dos": ("query", _consumer("tdos")),
    "run_projected_dos": ("query", _consumer("pdos")),
    "run_thermal_displacements": ("query", _consumer("td")),
    "run_thermal_displacement_matrices": ("query", _consumer("td")),
    "run_moment": ("query", _consumer("moment")),
    "set_group_velocity": ("op", lambda ph, a, k, r: dict(op="SetGV")),
    "init_random_displacements": ("op", lambda ph, a, k, r: dict(op="InitRD")),
    "get_random_displacements_at_temperature": ("query", _d_rdq),
    # operations the specification does not model: the history ends there
    "develop_mlp": ("op", lambda ph, a, k, r: None),
    "evaluate_mlp": ("op", lambda ph, a, k, r: None),
    "load_mlp": ("op", lambda ph, a, k, r: None),
}
PROPS = {
    "force_constants": _d_setfc,
    "nac_params": _d_setnac,
    "masses": lambda ph, a, k, r: dict(op="SetMasses"),
    "dataset": _d_dataset_setter,
    "displacements": lambda ph, a, k, r: dict(op="SetDisplacements"),
    "forces": _d_forces,
}


def install():
    if getattr(Phonopy, "_c15_traced", False):
        return
    Phonopy._c15_traced = True
    for name, (kind, desc) in WRAPS.items():
        orig = getattr(Phonopy, name)
        setattr(Phonopy, name, _wrap(name, orig, kind, desc))
    for name, desc in PROPS.items():
        p = Phonopy.__dict__[name]
        setattr(Phonopy, name, property(p.fget, _wrap(name + ".setter", p.fset, "op", desc), p.fdel, p.__doc__))
    # supercells_with_displacements: a getter with a cache
    p = Phonopy.__dict__["supercells_with_displacements"]
    setattr(Phonopy, "supercells_with_displacements",
            property(_wrap("supercells_with_displacements", p.fget, "op",
                           lambda ph, a, k, r: dict(op="GetSCD") if ph._dataset is not None else "skip"), p.fset, p.fdel, p.__doc__))
    orig_init = Phonopy.__init__

    @functools.wraps(orig_init)
    def init(self, *a, **k):
        _tl.d = _depth() + 1
        try:
            orig_init(self, *a, **k)
        finally:
            _tl.d -= 1
        if _depth() == 0:  # not the objects phonopy (or this tracer) creates inside a wrapped call
            r = Rec(self)
            _objs[id(self)] = r
            _order.append(r)
            if r.cut is None:
                try:
                    r.fp = D.content_fingerprint(self)
                    if self._nac_params is not None:  # deprecated constructor argument
                        _event(r, op="SetNAC", m="wang" if self._nac_params.get("method") == "wang" else "gonze")
                except Exception as e:  # noqa
                    r.cut = "tracer-init: %s" % e
    Phonopy.__init__ = init


def dump(path):
    n = 0
    with open(path, "w") as f:
        for r in _order:
            if not r.events:
                continue
            f.write(json.dumps(dict(events=r.events, cut=r.cut, test=r.test),
                               default=lambda o: bool(o) if isinstance(o, np.bool_) else float(o)) + "\n")
            n += 1
    return n


install()


def pytest_sessionfinish(session, exitstatus):
    out = os.environ.get("C15_TRACE_OUT")
    if out:
        dump(out)
