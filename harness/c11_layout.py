"""C11 step F: memory layout of the arrays handed to the public tetrahedron
functions (spec/TetrahedronLayoutTrace.tla).  The weights must depend on the
values only."""
from __future__ import annotations

import os

import numpy as np

from harness import bootstrap  # noqa: F401
from harness import c11_tetra as T
from harness import tlc as tlcmod
from harness.tla_values import to_tla

from phonopy.structure.tetrahedron_method import TetrahedronMethod, get_tetrahedra_integration_weight

WORKERS = int(os.environ.get("C11_WORKERS", "8"))


def layouts(A, rng):
    """the same (24,4) values in different memory layouts / containers"""
    A = np.ascontiguousarray(A, dtype="double")
    band = rng.integers(0, 9, size=(24, 4, 3)).astype("double")
    band[:, :, 1] = A
    big = rng.integers(0, 9, size=(48, 8)).astype("double")
    big[::2, ::2] = A
    out = {
        "c": A.copy(),
        "fortran": np.asfortranarray(A),
        "tview": np.ascontiguousarray(A.T).T,
        "bandslice": band[:, :, 1],
        "strided": big[::2, ::2],
        "float32": A.astype("float32"),
        "list": A.tolist(),
    }
    for k, v in out.items():
        if not isinstance(v, list) and not np.array_equal(np.asarray(v, dtype="double"), A):
            raise tlcmod.MachineryError("layout %s changed the values" % k)
    if out["fortran"].flags["C_CONTIGUOUS"] or out["bandslice"].flags["C_CONTIGUOUS"] or out["strided"].flags["C_CONTIGUOUS"]:
        raise tlcmod.MachineryError("a layout that should not be C-contiguous is")
    return out


def omega_forms(ws):
    ws = [float(w) for w in ws]
    pad = np.zeros(2 * len(ws))
    pad[::2] = ws
    pad[1::2] = 99.0
    return {
        "c": np.array(ws, dtype="double"),
        "strided": pad[::2],
        "reversedview": np.array(ws[::-1], dtype="double")[::-1],
        "float32": np.array(ws, dtype="float32"),
        "list": list(ws),
    }


def make_events(ctx):
    rng = np.random.default_rng(4000 + ctx.seed)
    tm_c = TetrahedronMethod(None, lang="C")
    tm_py = TetrahedronMethod(None, lang="Py")
    ci = [int(c) for c in tm_py._central_indices]
    n = 10 if ctx.quick else 80
    events = []
    for i in range(n):
        vals = [0, 2, 4, 6] if i % 2 else [0, 2, 4]
        rows = rng.choice(vals, size=(24, 4)).astype(int)      # central vertex first
        cls = "offtie" if i % 3 else "tie"
        top = int(rows.max())
        ws = [1, 3, top + 1, top + 3] if cls == "offtie" else [2, 3, top, top + 2]
        if i % 4 == 1:
            ws = ws[::-1]
        fn = "J" if i % 2 == 0 else "I"
        A_c = rows.astype("double")
        A_py = np.array([np.insert(rows[t][1:], ci[t], rows[t][0]) for t in range(24)], dtype="double")
        lay_c, lay_py = layouts(A_c, rng), layouts(A_py, rng)
        wf = omega_forms(ws)
        wnames = list(wf)
        val = {}
        for li, (lname, arr) in enumerate(lay_c.items()):
            wform = wnames[(li + i) % len(wnames)]
            val["gw_%s_w%s" % (lname, wform)] = get_tetrahedra_integration_weight(wf[wform], arr, function=fn)
            val["gs_%s" % lname] = [get_tetrahedra_integration_weight(float(w), arr, function=fn) for w in ws]
            tm_c.set_tetrahedra_omegas(arr)
            tm_c.run(wf[wform], value=fn)
            val["tmC_%s_w%s" % (lname, wform)] = np.array(tm_c.get_integration_weight())
        for li, (lname, arr) in enumerate(lay_py.items()):
            if lname in ("list", "float32"):
                # the Python implementation indexes the rows with arrays (ndarray input is its contract) and
                # computes in the precision of the array it is given (float32 in, 1e-7 out): not layouts
                continue
            wform = wnames[(li + i + 2) % len(wnames)]
            tm_py.set_tetrahedra_omegas(arr)
            tm_py.run(wf[wform], value=fn)
            val["tmPy_%s_w%s" % (lname, wform)] = np.array(tm_py.get_integration_weight())
        ev = dict(rows=rows.tolist(), fn=fn, ws=[int(w) for w in ws], cls=cls, val={}, exact={})
        for k, arr in val.items():
            # true values have denominators below 2*10^5 here; a number read from the wrong memory is not such a
            # rational: it is logged as inexact (and as 0) instead of as a huge fraction TLC cannot multiply
            pr = [T.to_rat(x, maxden=2_000_000, tol=2e-13) for x in np.asarray(arr, dtype=float)]
            ev["val"][k] = [p[0] for p in pr]
            ev["exact"][k] = [bool(p[1]) for p in pr]
        events.append(ev)
        ctx.count(("layout", fn, cls, str(rows.tolist()), tuple(ws)))
    return events


MC = """---- MODULE MC_TetrahedronLayoutTrace ----
EXTENDS TetrahedronLayoutTrace
MCEvents == {%s}
====
"""
CFG = """INIT LInit
NEXT LNext
CONSTANTS
 Values = {}
 Omegas = {}
 Fns = {}
 TieRule = "closed"
 LEvents <- MCEvents
CHECK_DEADLOCK FALSE
INVARIANT ImplLayoutExact
INVARIANT ImplLayoutIndependent
INVARIANT ImplLayoutsAgree
INVARIANT ImplAboveTop
INVARIANT ConformsLayout
"""


def step_f(ctx):
    from harness.props.c11 import report
    events = make_events(ctx)
    routes = sorted(events[0]["val"])
    for cls in ("offtie", "tie"):
        evs = [e for e in events if e["cls"] == cls]
        if not evs:
            continue
        mc = MC % ",\n".join(to_tla(e) for e in evs)
        res = ctx.tlc("MC_TetrahedronLayoutTrace", cfg_text=CFG, extra_files={"MC_TetrahedronLayoutTrace.tla": mc},
                      requirement=False, extra_args=("-continue",), workers=WORKERS, timeout=1500)

        def describe(e, st):
            bad = {}
            d = st.get("ldef") or []
            for r, vs in (e.get("val") or {}).items():
                for j, v in enumerate(vs):
                    if j < len(d) and isinstance(d[j], list) and v != d[j][0] and v != d[j][1]:
                        bad.setdefault(r, []).append(dict(omega=(e.get("ws") or [None] * 9)[j], got=v, want=d[j]))
            return dict(rows=e.get("rows"), fn=e.get("fn"), ws=e.get("ws"), differing_routes=dict(list(bad.items())[:6]))

        report(ctx, res, "layout", cls, describe, "lev")
    ctx.traces += len(events) * len(routes)
    ctx.extra["F_layout_events"] = len(events)
    ctx.extra["F_routes_x_layouts"] = routes
