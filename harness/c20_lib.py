"""Helpers of the C20 check (equations of state and quasi-harmonic analysis).

Interpretation side of spec/Eos.tla and spec/Qha.tla:
  * interpreter of the EOS expression trees printed by TLC (EosDump),
  * measurement of the Taylor jet of the REAL get_eos() functions at V0,
  * construction of abstract inputs (tables of rationals) and of the concrete
    arrays given to PhonopyQHA under the hypothesis stated in Qha.tla,
  * the wrapper around phonopy.qha.core.fit_to_eos (observes the rows that reach
    the fit; in 'stub' mode interprets the uninterpreted Fit of the specification),
  * projection of the real results to the abstract state.
Nothing here decides the property: decisions are taken by TLC on the events.
"""
from __future__ import annotations

import io
import contextlib
import math
from fractions import Fraction as Fr

import numpy as np

SENTINEL = [7, 1]  # a value that is never expected (not representable / not a number)
INT_MAX = 2 ** 31 - 1


# ----------------------------------------------------------------------------- rationals
def rat(x):
    x = Fr(x)
    return [x.numerator, x.denominator]


def unrat(r):
    return Fr(r[0], r[1])


def par_rat(p):
    return {k: rat(v) for k, v in p.items()}


def par_float(p):
    """(E0, B0, Bp, V0) in the argument order of phonopy's EOS functions."""
    return [float(p["E0"]), float(p["B0"]), float(p["Bp"]), float(p["V0"])]


def poly_eval(c, x):
    r = Fr(0)
    for a in reversed(c):
        r = r * x + a
    return r


# ----------------------------------------------------------------------------- EOS trees
def ast_eval(t, V, p):
    """Interpret an expression tree of Eos.tla with IEEE doubles (V: float / complex / ndarray)."""
    op = t["op"]
    if op == "const":
        return t["v"][0] / t["v"][1]
    if op == "par":
        return p[t["name"]]
    if op == "V":
        return V
    if op == "exp":
        return np.exp(ast_eval(t["a"], V, p))
    a = ast_eval(t["a"], V, p)
    b = ast_eval(t["b"], V, p)
    if op == "add":
        return a + b
    if op == "sub":
        return a - b
    if op == "mul":
        return a * b
    if op == "div":
        return a / b
    if op == "pow":
        return a ** b
    raise ValueError(op)


def curve(forms, name, p, V):
    """EOS curve of the specification at volumes V for rational parameters p."""
    pf = {k: float(v) for k, v in p.items()}
    return ast_eval(forms[name], np.asarray(V, dtype=float), pf)


def measured_jet(f, pf, npts=96, rfrac=0.3):
    """Taylor coefficients c0..c3 at V0 of the real function f(v, *pf) by the Cauchy
    integral on a circle of radius rfrac*V0 (trapezoid rule: spectrally accurate)."""
    V0 = pf[3]
    r = rfrac * V0
    th = 2 * np.pi * np.arange(npts) / npts
    z = V0 + r * np.exp(1j * th)
    vals = np.asarray(f(z, *pf), dtype=complex)
    cs = []
    imag = 0.0
    for k in range(4):
        c = np.mean(vals * np.exp(-1j * k * th)) / r ** k
        cs.append(float(c.real))
        imag = max(imag, abs(c.imag) * r ** k)
    return cs, imag


def project_free(x, tol_abs, maxden=10 ** 6):
    """Nearest rational with a small denominator; (rational, exact?, residual)."""
    if not np.isfinite(x):
        return SENTINEL, False, float("inf")
    r = Fr(float(x)).limit_denominator(maxden)
    res = abs(float(x) - float(r))
    if abs(r.numerator) >= INT_MAX:
        return SENTINEL, False, res
    return rat(r), bool(res <= tol_abs), res


FLOOR = dict(bm=0.1, vol=1.0, gibbs=1.0, bulk=0.1, beta=1e-4, cp=1e-3, cpfit=10.0, gru=1e-4, dsdv=0.1)


def project_on(x, expected, tol_rel, floor=1e-12):
    """Project a real number on the grid (1/d)Z, d the denominator of the specification's
    value for the same quantity.  Returns (rational, exact?, relative residual)."""
    try:
        x = float(x)
    except Exception:
        return SENTINEL, False, float("inf")
    if not np.isfinite(x):
        return SENTINEL, False, float("inf")
    d = expected[1] if expected[1] > 0 else 10000
    n = round(x * d)
    if abs(n) >= INT_MAX:
        return SENTINEL, False, float("inf")
    r = Fr(n, d)
    scale = max(abs(x), abs(float(Fr(expected[0], d))), floor)
    res = abs(x - float(r)) / scale
    if [r.numerator, r.denominator] != list(expected):
        # a value the specification does not expect: keep it small so that TLC's 32-bit
        # arithmetic cannot overflow on it (it stays different from the expected value)
        r2 = Fr(x).limit_denominator(16)
        if expected[1] > 0 and r2 == Fr(expected[0], expected[1]):
            r2 += Fr(1, 13)
        if abs(r2.numerator) > 40:
            r2 = Fr(SENTINEL[0] if x > 0 else -SENTINEL[0], 1)
            if expected[1] > 0 and r2 == Fr(expected[0], expected[1]):
                r2 += 1
        r = r2
    return rat(r), bool(res <= tol_rel), res


# ----------------------------------------------------------------------------- units
def unit_factor(u, EV, NA):
    return EV ** u["ev"] * NA ** u["na"] * 10.0 ** u["ten"]


U = lambda e, n, t: dict(ev=e, na=n, ten=t)  # noqa: E731
UONE = U(0, 0, 0)
UNKNOWN_UNIT = U(0, 0, 99)
REQ_PV = U(-1, 0, -21)
REQ_PH = U(-1, -1, 3)
REQ_BULK = U(1, 0, 21)
REQ_CP = U(1, 1, 0)
REQ_GRU = U(1, 1, 0)
REQ_DSDV = U(0, -1, 21)
# what a wrong conversion could look like
PH_UNIT_CANDIDATES = [REQ_PH, UONE, U(1, 1, -3), U(-1, -1, 0), U(-1, 0, 0), U(-1, 0, 3), U(-1, 0, -21), U(1, 0, 21)]
PV_UNIT_CANDIDATES = [REQ_PV, UONE, U(1, 0, 21), U(-1, 0, 0), U(-1, -1, 3), U(1, 1, -3), U(-1, 0, -30), U(-1, 0, -20), U(-1, 0, -22)]


# ----------------------------------------------------------------------------- inputs
class Case:
    """One abstract input of Qha.tla plus its concrete realisation."""

    def __init__(self, cid, T, tmax, shape, P, eos, vpoly, epoly, bpoly, bppoly, qpars, cvtab, stab, vref,
                 volumes, poly_set=True, perturb=None, mode="stub", ptab=None, family="main"):
        self.id = cid
        self.T = list(T)
        self.tmax = tmax  # None or int
        self.shape = shape
        self.P = P  # None or Fraction
        self.eos = eos
        self.mode = mode
        self.family = family
        self.volumes = np.asarray(volumes, dtype=float)
        nT = len(T)
        if ptab is not None:
            self.ptab = ptab
            poly_set = False
        else:
            self.ptab = []
            for k, t in enumerate(T):
                p = dict(E0=poly_eval(epoly, Fr(t)), B0=poly_eval(bpoly, Fr(t)), Bp=poly_eval(bppoly, Fr(t)),
                         V0=poly_eval(vpoly, Fr(t)))
                if perturb is not None:
                    p["E0"] += perturb[k][0]
                    p["V0"] += perturb[k][1]
                self.ptab.append(p)
        self.poly_set = poly_set and perturb is None
        self.vpoly, self.epoly = list(vpoly), list(epoly)
        self.qtab = qpars if shape == "TV" else qpars[:1]  # for "TV": as many rows as the caller supplies
        self.cvtab, self.stab, self.vref = cvtab, stab, vref
        self.eldtype = "float"   # number type of the electronic energies handed to phonopy
        self.voldtype = "float"  # number type of the volumes
        self.wf = False          # also call the write_... methods
        self.inject = {}         # (phase, call index) -> "typeerror" | "runtimeerror"
        self.bmplan = None       # outcome of every fit call, filled in after the run
        self.fitplan = None
        self.skip = None         # reason why no claim is made on this case
        self.shift = Fr(0)       # constant offset contained in all energies (E0 of ptab and qtab)
        self.vorder = "asc"      # order in which the volume points are listed (all per-volume inputs alike)

    def set_vorder(self, kind):
        """List the volume points in another order; realise() derives every per-volume array from it."""
        v = np.sort(np.asarray(self.volumes, dtype=float))
        n = len(v)
        if kind == "desc":
            v = v[::-1].copy()
        elif kind == "shuffle":
            perm = [(3 * i + 2) % n for i in range(n)] if n % 3 else [(2 * i + 1) % n if n % 2 else (i + 2) % n for i in range(n)]
            if sorted(perm) != list(range(n)) or all(perm[perm[i]] == i for i in range(n)):
                perm = list(range(2, n)) + [0, 1]   # a rotation: a permutation that is not an involution (n >= 3)
            v = v[perm]
        self.volumes = v
        self.vorder = kind

    def apply_shift(self, C):
        """Add the constant C to all energies: E0 of every generating curve (total and electronic)."""
        C = Fr(C)
        for p in self.ptab:
            p["E0"] += C
        for q in self.qtab:
            q["E0"] += C
        if self.epoly:
            self.epoly[0] += C
        self.shift += C

    @property
    def escale(self):
        return max([1.0] + [abs(float(p["E0"])) for p in self.ptab])

    @property
    def elcurve(self):
        return self.eldtype == "float"

    @property
    def nvd(self):
        return int(len(np.unique(self.volumes)))

    def to_tla(self):
        nT = len(self.T)
        return dict(
            id=self.id, T=self.T,
            tmax=dict(set=self.tmax is not None, v=0 if self.tmax is None else int(self.tmax)),
            shape=self.shape, eos=self.eos,
            P=dict(set=self.P is not None, v=rat(0 if self.P is None else self.P)),
            ptab=[par_rat(p) for p in self.ptab],
            qtab=[par_rat(q) for q in self.qtab],
            poly=dict(set=self.poly_set, v=[rat(c) for c in self.vpoly], e=[rat(c) for c in self.epoly]),
            cvtab=[[rat(c) for c in row] for row in self.cvtab],
            stab=[[rat(c) for c in row] for row in self.stab],
            vorder=self.vorder, shift=rat(self.shift), e0base=[rat(p["E0"] - self.shift) for p in self.ptab],
            vref=self.vref, nvd=self.nvd, eldtype=self.eldtype, voldtype=self.voldtype, elcurve=self.elcurve,
            wf=bool(self.wf),
            fitplan=list(self.fitplan or ["ok"] * nT), bmplan=list(self.bmplan or ["ok"] * len(self.qtab)))

    # concrete arrays under the hypothesis of Qha.tla
    def realise(self, forms, EV, NA):
        V = self.volumes
        upv = unit_factor(REQ_PV, EV, NA)
        uph = unit_factor(REQ_PH, EV, NA)
        pv = (float(self.P) * V * upv) if self.P is not None else 0.0 * V
        self.qcurves = np.array([curve(forms, self.eos, q, V) for q in self.qtab])
        self.pcurves = np.array([curve(forms, self.eos, p, V) for p in self.ptab])
        if self.eldtype == "int":
            el = np.round(10 * self.qcurves)  # integer-valued, no EOS curve; the totals below still are
        else:
            el = self.qcurves - pv  # El_j + P V u = Curve(q_j)
        nq = len(self.qtab)
        e_idx = (lambda k: min(k, nq - 1)) if self.shape == "TV" else (lambda k: 0)
        # Ph_k u + El_e(k) + P V u = Curve(p_k)
        self.ph = np.array([(self.pcurves[k] - el[e_idx(k)] - pv) / uph for k in range(len(self.T))])
        self.el = el if self.shape == "TV" else el[0]
        w = V - self.vref
        self.cv = np.array([sum(float(c) * w ** i for i, c in enumerate(row)) for row in self.cvtab])
        self.entropy = np.array([sum(float(c) * w ** i for i, c in enumerate(row)) for row in self.stab])

    def api_arrays(self):
        vols = self.volumes.copy()
        if self.voldtype == "int":
            assert np.all(vols == np.round(vols))
            vols = vols.astype(np.int64)
        el = np.array(self.el, copy=True)
        if self.eldtype == "int":
            el = el.astype(np.int64)
        return vols, el


# ----------------------------------------------------------------------------- the fit wrapper
class Injected(Exception):
    pass


class FitProbe:
    """Replaces phonopy.qha.core.fit_to_eos while one PhonopyQHA object is built.

    Records every (volumes, energies) row that reaches the fit together with the phase
    ('bulkmodulus' before QHA.run starts, 'qha' inside it) and the OUTCOME of the call:
    'ok' (returned, scipy status 1..4), 'nonconv' (scipy's leastsq ended with another
    status), 'runtimeerror' / 'typeerror' (the fit raised), 'localmin' (status 1..4 on an
    exact curve but other parameters: outside the hypothesis).  case.inject makes the
    environment fail at chosen calls.  mode 'real': the original scipy fit answers.  mode
    'stub': the specification's uninterpreted Fit answers - if the row is exactly one of
    the known curves its parameters are returned, otherwise the original fit is used."""

    def __init__(self, case, orig, mode):
        self.case, self.orig, self.mode = case, orig, mode
        self.phase = "bulkmodulus"
        self.calls = []      # (phase, volumes, row, eos)
        self.outcomes = []   # (phase, outcome)
        self.starts = []     # start values seen by EOSFit.fit, per real qha-phase call
        self.iers = []
        self.last_result = None

    def _match(self, row):
        c = self.case
        tabs = (c.qcurves, c.qtab) if self.phase == "bulkmodulus" else (c.pcurves, c.ptab)
        if self.phase == "bulkmodulus" and not c.elcurve:
            return None
        if row.shape == tabs[0][0].shape:
            err = np.abs(tabs[0] - row[None, :]).max(axis=1)
            k = int(np.argmin(err))
            if err[k] <= 1e-10 * max(1.0, np.abs(row).max()):
                return tabs[1][k]
        return None

    def __call__(self, volumes, fe, eos):
        row = np.array(fe, dtype=float)
        idx = sum(1 for ph, *_ in self.calls if ph == self.phase)
        self.calls.append((self.phase, np.array(volumes, dtype=float), row, eos))
        inj = self.case.inject.get((self.phase, idx))
        if inj == "typeerror":
            self.outcomes.append((self.phase, "typeerror"))
            raise TypeError("injected by the harness: Improper input")
        if inj == "runtimeerror":
            self.outcomes.append((self.phase, "runtimeerror"))
            raise RuntimeError("injected by the harness: Met difficulty in fitting to EOS.")
        known = self._match(row)
        if self.mode == "stub" and known is not None:
            self.outcomes.append((self.phase, "ok"))
            self.last_result = np.array(par_float(known))
            return self.last_result.copy()
        n0 = len(self.iers)
        try:
            res = self.orig(volumes, fe, eos)
        except RuntimeError:
            bad = len(self.iers) > n0 and self.iers[-1] not in (1, 2, 3, 4)
            self.outcomes.append((self.phase, "nonconv" if bad else "runtimeerror"))
            raise
        except TypeError:
            self.outcomes.append((self.phase, "typeerror"))
            raise
        out = "ok"
        if len(self.iers) > n0 and self.iers[-1] not in (1, 2, 3, 4):
            out = "nonconv"
        elif known is not None and res is not None:
            ref = np.array(par_float(known))
            if np.abs(np.asarray(res, dtype=float) - ref).max() > 1e-5 * np.abs(ref).max():
                out = "localmin"
        self.outcomes.append((self.phase, out))
        self.last_result = None if res is None else np.asarray(res, dtype=float)
        return res


def identify_linear(res, V, tol):
    """res = alpha * V ?  -> (alpha, ok)"""
    alpha = float(np.dot(res, V) / np.dot(V, V))
    return alpha, bool(np.abs(res - alpha * V).max() <= tol)


def identify_pv(alpha, case, EV, NA, tol):
    """coefficient of V -> (sign, unit)"""
    vmax = float(np.abs(case.volumes).max())
    if abs(alpha) * vmax <= tol:
        return 0, UONE
    if case.P is None or case.P == 0:
        return (1 if alpha > 0 else -1), UNKNOWN_UNIT
    ratio = alpha / float(case.P)
    for u in PV_UNIT_CANDIDATES:
        f = unit_factor(u, EV, NA)
        for s in (1, -1):
            if abs(ratio - s * f) <= 1e-9 * abs(f):
                return s, u
    return (1 if ratio > 0 else -1), UNKNOWN_UNIT


def identify_row(case, row, phase, expected, EV, NA):
    """Identify a row that reached the fit as a formal combination of the input tables.
    expected: (k, j) 0-based tried first (rows of different temperatures may coincide)."""
    V = case.volumes
    tol = 1e-9 * max(1.0, float(np.abs(row).max()))
    el = case.el if case.shape == "TV" else case.el[None, :]
    if row.shape != V.shape:
        return None
    if phase == "bulkmodulus":
        order = [expected[1]] + [j for j in range(len(el)) if j != expected[1]]
        for j in order:
            if not (0 <= j < len(el)):
                continue
            alpha, ok = identify_linear(row - el[j], V, tol)
            if ok:
                s, u = identify_pv(alpha, case, EV, NA, tol)
                return dict(el=j + 1, pvsign=s, pvunit=u)
        return None
    nT = len(case.T)
    ks = [expected[0]] + [k for k in range(nT) if k != expected[0]]
    js = [expected[1]] + [j for j in range(len(el)) if j != expected[1]]
    for u1 in PH_UNIT_CANDIDATES:
        f1 = unit_factor(u1, EV, NA)
        for k in ks:
            if not (0 <= k < nT):
                continue
            for j in js:
                if not (0 <= j < len(el)):
                    continue
                alpha, ok = identify_linear(row - f1 * case.ph[k] - el[j], V, tol * max(1.0, f1))
                if ok:
                    s, u = identify_pv(alpha, case, EV, NA, tol)
                    return dict(ph=k + 1, phunit=u1, el=j + 1, pvsign=s, pvunit=u)
    return None


UNMATCHED_ROW = dict(ph=0, phunit=UONE, el=0, pvsign=0, pvunit=UONE)
UNMATCHED_BM = dict(el=0, pvsign=0, pvunit=UONE)
UNKNOWN_PAR = dict(E0=[0, 0], B0=[0, 0], Bp=[0, 0], V0=[0, 0])

WRITERS = {  # attribute of FileSpecs -> (method of PhonopyQHA, keyword of the file name)
    "vol": ("write_volume_temperature", "filename"),
    "beta": ("write_thermal_expansion", "filename"),
    "gibbs": ("write_gibbs_temperature", "filename"),
    "bulk": ("write_bulk_modulus_temperature", "filename"),
    "cp": ("write_heat_capacity_P_numerical", "filename"),
    "gru": ("write_gruneisen_temperature", "filename"),
}


def write_files(q, tmpdir):
    """Call the write_... methods; return attr -> list of text lines (or an exception name)."""
    import os

    out = {}
    for attr, (meth, kw) in WRITERS.items():
        path = os.path.join(tmpdir, attr + ".dat")
        try:
            getattr(q, meth)(**{kw: path})
            with open(path) as f:
                out[attr] = f.read().splitlines()
        except Exception as e:
            out[attr] = "error:" + type(e).__name__
    try:
        names = dict(filename=os.path.join(tmpdir, "cpfit.dat"), filename_ev=os.path.join(tmpdir, "ev.dat"),
                     filename_cvv=os.path.join(tmpdir, "cvv.dat"), filename_dsdvt=os.path.join(tmpdir, "dsdv.dat"))
        q.write_heat_capacity_P_polyfit(**names)
        with open(names["filename"]) as f:
            out["cpfitfile"] = f.read().splitlines()
        with open(names["filename_dsdvt"]) as f:
            out["dsdv"] = f.read().splitlines()
    except Exception as e:
        out["cpfitfile"] = out["dsdv"] = "error:" + type(e).__name__
    return out


def run_case(case, mode, EV, NA):
    """Build PhonopyQHA on the realised arrays; return the raw observation."""
    import shutil
    import tempfile

    import phonopy.qha.core as core
    import phonopy.qha.eos as eosmod
    import scipy.optimize as sopt
    from phonopy import PhonopyQHA

    orig_fit = core.fit_to_eos
    orig_run = core.QHA.run
    orig_eosfit = eosmod.EOSFit.fit
    orig_leastsq = sopt.leastsq
    probe = FitProbe(case, orig_fit, mode)

    def run_wrapped(self, *a, **kw):
        probe.phase = "qha"
        return orig_run(self, *a, **kw)

    def eosfit_wrapped(self, initial_parameters):
        if probe.phase == "qha":
            probe.starts.append((list(map(float, initial_parameters)), np.array(self._energy, dtype=float),
                                 np.array(self._volume, dtype=float),
                                 None if probe.last_result is None else probe.last_result.copy()))
        return orig_eosfit(self, initial_parameters)

    def leastsq_wrapped(*a, **kw):
        r = orig_leastsq(*a, **kw)
        try:
            probe.iers.append(int(r[-1]))
        except Exception:
            probe.iers.append(-1)
        return r

    raw = dict(status="ok", err=None, files=None)
    core.fit_to_eos = probe
    core.QHA.run = run_wrapped
    eosmod.EOSFit.fit = eosfit_wrapped
    sopt.leastsq = leastsq_wrapped
    try:
        vols, el = case.api_arrays()
        with contextlib.redirect_stdout(io.StringIO()) as so:
            q = PhonopyQHA(volumes=vols, electronic_energies=el,
                           temperatures=np.array(case.T, dtype=float), free_energy=case.ph.copy(),
                           cv=case.cv.copy(), entropy=case.entropy.copy(), eos=case.eos,
                           pressure=None if case.P is None else float(case.P),
                           t_max=None if case.tmax is None else float(case.tmax))
        raw["q"] = q
        raw["stdout"] = so.getvalue()[:500]
        if case.wf:
            tmp = tempfile.mkdtemp(prefix="c20_")
            try:
                raw["files"] = write_files(q, tmp)
            finally:
                shutil.rmtree(tmp, ignore_errors=True)
    except AssertionError as e:
        raw["status"], raw["err"] = "AssertionError", repr(e)
    except Exception as e:  # phonopy refuses the input / reports a failed fit
        raw["status"], raw["err"] = "refused", (type(e).__name__ + ": " + str(e))[:300]
    finally:
        core.fit_to_eos = orig_fit
        core.QHA.run = orig_run
        eosmod.EOSFit.fit = orig_eosfit
        sopt.leastsq = orig_leastsq
    raw["calls"] = probe.calls
    raw["outcomes"] = probe.outcomes
    raw["starts"] = probe.starts
    # the environment's choices, as observed
    nq, nT = len(case.qtab), len(case.T)
    bm = [o for ph, o in probe.outcomes if ph == "bulkmodulus"]
    qh = [o for ph, o in probe.outcomes if ph == "qha"]
    case.bmplan = (bm + ["ok"] * nq)[:nq]
    case.fitplan = (qh + ["ok"] * nT)[:nT]
    if "localmin" in bm + qh:
        case.skip = "a fit converged (status 1..4) to other parameters than the exact curve's: outside the hypothesis"
    return raw


def classify_starts(raw):
    out = []
    for init, energy, volume, prev in raw["starts"]:
        own = [energy[len(energy) // 2], 1.0, 4.0, volume[len(volume) // 2]]
        if np.allclose(init, own, rtol=0, atol=0):
            out.append("own")
        elif prev is not None and np.allclose(init, prev, rtol=1e-12, atol=0):
            out.append("prev")
        else:
            out.append("other")
    return out


def _get(q, name):
    try:
        return list(np.atleast_1d(np.asarray(getattr(q, name), dtype=float))), None
    except Exception as e:
        return [], type(e).__name__


def raw_rows(raw, phase):
    return [row for ph, _, row, _ in raw["calls"] if ph == phase]


def project_case(case, raw, exp, tol, filespecs, EV, NA):
    """Raw observation -> obs record of QhaTrace.tla (+ exact flag, residuals, replay mismatches).

    exp: the machine's Out for this input (printed by TLC): supplies the denominators of the
    projection grid and the values for the replay comparison."""
    resid = {}
    mismatches = []
    exact = True

    def note(field, r):
        resid[field] = max(resid.get(field, 0.0), r)

    obs = dict(status=raw["status"], len=0, nfit=0, bm=[], bmpar=[], rows=[], vol=[], gibbs=[], bulk=[], beta=[],
               cp=[], cpfit=[], gru=[], files=[], starts=classify_starts(raw))
    # rows that reached the fit
    bmrows, qrows = [], []
    for phase, vols, row, eosf in raw["calls"]:
        if phase == "bulkmodulus":
            j = len(bmrows)
            bmrows.append(identify_row(case, row, phase, (0, j), EV, NA))
        else:
            i = len(qrows)
            qrows.append(identify_row(case, row, phase, (i, i if case.shape == "TV" else 0), EV, NA))
    obs["nfit"] = len(qrows)
    obs["bm"] = [UNMATCHED_BM if r is None else r for r in bmrows]
    if raw["status"] != "ok":
        return obs, exact, resid, mismatches
    for r in bmrows + qrows:
        if r is None:
            exact = False
    q = raw["q"]
    out = {}
    for nm, attr in (("vol", "volume_temperature"), ("gibbs", "gibbs_temperature"),
                     ("bulk", "bulk_modulus_temperature"), ("beta", "thermal_expansion"),
                     ("cp", "heat_capacity_P_numerical"), ("cpfit", "heat_capacity_P_polyfit"),
                     ("gru", "gruneisen_temperature")):
        out[nm], err = _get(q, attr)
        if err and not (nm == "cpfit" and case.shape == "TV" and err == "NotImplementedError"):
            obs["status"] = "refused"
            mismatches.append(dict(field=nm, error=err))
    try:
        hv = np.asarray(q.helmholtz_volume, dtype=float)
    except Exception as e:
        hv = np.zeros((0, len(case.volumes)))
        mismatches.append(dict(field="helmholtz_volume", error=type(e).__name__))
    obs["len"] = len(out["vol"])
    # the public helmholtz_volume rows, identified (they must be rows the fit saw)
    seen = raw_rows(raw, "qha")
    rows = []
    hint = 0
    for k in range(len(hv)):
        r = None
        for i in range(hint, len(seen)):
            if seen[i].shape == hv[k].shape and np.array_equal(seen[i], hv[k]):
                r, hint = qrows[i], i + 1
                break
        if r is None:
            r = identify_row(case, hv[k], "qha", (k, k if case.shape == "TV" else 0), EV, NA)
        if r is None:
            exact = False
            r = UNMATCHED_ROW
        rows.append(r)
    obs["rows"] = rows
    # BulkModulus object
    try:
        bp = [np.atleast_1d(np.asarray(x, dtype=float)) for x in q.get_bulk_modulus_parameters()]
        nb = len(bp[0])
    except Exception as e:
        bp, nb = None, 0
        mismatches.append(dict(field="bulk_modulus_parameters", error=type(e).__name__))
    for j in range(nb):
        ex = exp["bmpar"][j] if j < len(exp["bmpar"]) else None
        if not case.elcurve or (ex is not None and ex["V0"][1] == 0):
            obs["bmpar"].append(dict(UNKNOWN_PAR))  # electronic energies are no EOS curve: no claim
            continue
        rec = {}
        for idx, key in enumerate(("E0", "B0", "Bp", "V0")):
            e = ex[key] if ex is not None else [0, 10000]
            rr, ok, res = project_on(bp[idx][j], e, tol["bm"], FLOOR["bm"])
            rec[key] = rr
            exact &= ok
            note("bm", res)
        obs["bmpar"].append(rec)
    # tables, divided by the REQUIRED unit factors
    div = dict(vol=1.0, gibbs=1.0, bulk=unit_factor(REQ_BULK, EV, NA), beta=1.0,
               cp=unit_factor(REQ_CP, EV, NA), cpfit=1.0, cpfitfile=1.0, gru=unit_factor(REQ_GRU, EV, NA),
               dsdv=unit_factor(REQ_DSDV, EV, NA))
    for nm in ("vol", "gibbs", "bulk", "beta", "cp", "cpfit", "gru"):
        seq = []
        for k, x in enumerate(out[nm]):
            e = exp[nm][k] if k < len(exp[nm]) else [0, 10000]
            rr, ok, res = project_on(x / div[nm], e, tol[nm], FLOOR[nm])
            seq.append(rr)
            if not ok:
                exact = False
            note(nm, res)
            if k < len(exp[nm]) and rr != list(e):
                mismatches.append(dict(field=nm, k=k, observed=float(x / div[nm]), expected=float(unrat(e))))
        if len(out[nm]) != len(exp[nm]):
            mismatches.append(dict(field=nm, observed_len=len(out[nm]), expected_len=len(exp[nm])))
        obs[nm] = seq
    # files written by the write_... methods
    if raw.get("files") is not None:
        expfiles = {f["attr"]: f for f in (exp.get("files") or [])}
        for spec in filespecs:
            attr = spec["attr"]
            lines = raw["files"].get(attr)
            tkey = "cpfit" if attr == "cpfitfile" else attr
            rec = dict(attr=attr, fmtok=True, trows=[])
            if not isinstance(lines, list):
                rec["fmtok"] = False
                obs["files"].append(rec)
                mismatches.append(dict(field="file:" + attr, error=str(lines)))
                continue
            fmt = "%%%d.%df %%%d.%df" % (spec["tw"], spec["tp"], spec["vw"], spec["vp"])
            pub = out.get(tkey) if (attr != "dsdv" and not (attr == "cpfitfile" and case.shape == "TV")) else None
            erows = (expfiles.get(attr) or {}).get("trows") or []
            for k, line in enumerate(lines):
                try:
                    t, v = (float(z) for z in line.split())
                except Exception:
                    rec["fmtok"] = False
                    continue
                if pub is not None:
                    tph = rows[k]["ph"] if k < len(rows) else 0
                    tref = float(case.T[tph - 1]) if 1 <= tph <= len(case.T) else t
                    if k >= len(pub) or line != fmt % (tref, pub[k]):
                        rec["fmtok"] = False
                ev_ = erows[k][1] if k < len(erows) else [0, 10000]
                ftol = max(tol.get(tkey, 1e-6), 1e-9)
                rr, ok, res = project_on(v / div[attr], list(ev_), ftol, FLOOR.get(tkey, 1e-3))
                if not ok:
                    exact = False
                note("file:" + attr, res)
                rec["trows"].append([rat(Fr(t).limit_denominator(1000)), rr])
            obs["files"].append(rec)
    return obs, exact, resid, mismatches
