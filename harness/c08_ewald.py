"""Independent Ewald sum of the dipole-dipole dynamical-matrix kernel (Gonze and Lee, PRB 55, 10355 (1997),
Eqs. 71-76), written from the documented formula; used by C08 to judge the Gonze-Lee term at arbitrary q.

Conventions of phonopy: wave vectors and reciprocal lattice vectors carry no 2 pi, the dynamical matrix uses the
phase exp(2 pi i q.(R + tau_j - tau_i)).  Returned: Cbar[i, a, j, b](q), NOT contracted with Born charges:

  Cbar = (4 pi/V) sum_{K = G + q != 0} K_a K_b/(K.eps.K) exp(-pi^2 K.eps.K / Lt^2) exp(2 pi i G.(tau_i - tau_j))
         - Lt^3/sqrt(det eps) sum_{d = R + tau_j - tau_i != 0} H_ab(Lt Delta, Lt D) exp(2 pi i q.d)
         - delta_ij 4 Lt^3 /(3 sqrt(pi) sqrt(det eps)) (eps^-1)_ab
  Delta = eps^-1 d, D = sqrt(d.Delta),
  H_ab(x, y) = x_a x_b/y^2 [3 erfc(y)/y^3 + 2/sqrt(pi) e^{-y^2} (3/y^2 + 2)] - (eps^-1)_ab [erfc(y)/y^3 + 2/sqrt(pi) e^{-y^2}/y^2]

The sum of the three terms does not depend on the convergence parameter Lt (checked by the caller).
"""
from __future__ import annotations

import itertools
from math import erfc, exp, pi, sqrt

import numpy as np


def cbar(q_cart, lattice, tau, eps, Lt, tol=1e-16, parts=("recip", "real", "limit")):
    lattice = np.array(lattice, float)
    rec = np.linalg.inv(lattice)            # columns = reciprocal basis
    vol = abs(np.linalg.det(lattice))
    eps = np.array(eps, float)
    einv = np.linalg.inv(eps)
    sdet = sqrt(np.linalg.det(eps))
    emin = np.linalg.eigvalsh((eps + eps.T) / 2).min()
    emax = np.linalg.eigvalsh((eps + eps.T) / 2).max()
    nat = len(tau)
    out = np.zeros((nat, 3, nat, 3), complex)
    # reciprocal part
    do_recip, do_real, do_lim = ("recip" in parts), ("real" in parts), ("limit" in parts)
    kmax = Lt / pi * sqrt(-np.log(tol) / emin) + np.linalg.norm(q_cart)
    ng = [int(np.ceil(kmax * np.linalg.norm(lattice[i]))) + 1 for i in range(3)]
    for g in (itertools.product(*[range(-n, n + 1) for n in ng]) if do_recip else ()):
        G = rec @ np.array(g, float)
        K = G + q_cart
        kek = K @ eps @ K
        if np.linalg.norm(K) < 1e-12 or np.linalg.norm(G) > kmax + 1e-9:
            continue
        w = 4 * pi / vol * np.outer(K, K) / kek * exp(-pi ** 2 * kek / Lt ** 2)
        for i in range(nat):
            for j in range(nat):
                out[i, :, j, :] += w * np.exp(2j * pi * (G @ (tau[i] - tau[j])))
    # real-space part
    rmax = sqrt(-np.log(tol) * emax) / Lt + 2 * max(np.linalg.norm(t) for t in lattice)
    nr = [int(np.ceil(rmax * np.linalg.norm(rec[:, i]))) + 1 for i in range(3)]
    for r in (itertools.product(*[range(-n, n + 1) for n in nr]) if do_real else ()):
        R = np.array(r, float) @ lattice
        for i in range(nat):
            for j in range(nat):
                d = R + tau[j] - tau[i]
                if np.linalg.norm(d) < 1e-10:
                    continue
                Dl = einv @ d
                D = sqrt(d @ Dl)
                y = Lt * D
                if y > sqrt(-np.log(tol)) + 1:
                    continue
                x = Lt * Dl
                e2 = exp(-y * y)
                A = (3 * erfc(y) / y ** 3 + 2 / sqrt(pi) * e2 * (3 / y ** 2 + 2)) / y ** 2
                B = erfc(y) / y ** 3 + 2 / sqrt(pi) * e2 / y ** 2
                H = np.outer(x, x) * A - einv * B
                out[i, :, j, :] += -Lt ** 3 / sdet * H * np.exp(2j * pi * (q_cart @ d))
    for i in (range(nat) if do_lim else ()):
        out[i, :, i, :] += -4 * Lt ** 3 / (3 * sqrt(pi) * sdet) * einv
    return out


def dd_matrix(q_cart, lattice, tau, eps, born, masses, factor_unit, Lt, parts=("recip", "real", "limit")):
    """mass-weighted dipole-dipole dynamical matrix with the acoustic-sum-rule term:
    C[i,j](q) = unit * Z_i^T Cbar_ij(q) Z_j - delta_ij sum_j' unit * Z_i^T Cbar_ij'(0) Z_j'   (the sum symmetrised)."""
    born = np.array(born, float)
    nat = len(tau)
    cq = np.einsum("imk,imjn,jnl->ikjl", born, cbar(np.array(q_cart, float), lattice, tau, eps, Lt, parts=parts), born) * factor_unit
    c0 = np.einsum("imk,imjn,jnl->ikjl", born, cbar(np.zeros(3), lattice, tau, eps, Lt, parts=parts), born) * factor_unit
    for i in range(nat):
        s = c0[i].sum(axis=1)
        cq[i, :, i, :] -= (s + s.conj().T) / 2
    for i in range(nat):
        for j in range(nat):
            cq[i, :, j, :] /= sqrt(masses[i] * masses[j])
    return cq.reshape(3 * nat, 3 * nat)
