"""X06: drives the real functions of phonopy/structure/cells.py and projects what they return onto the exact
values CellUtilsTrace.tla decides on (integers / rationals; `exact` records that the projection was lossless)."""
from __future__ import annotations

import itertools
import json
from types import SimpleNamespace

import numpy as np

from harness import bootstrap  # noqa: F401
from harness import xtal

SYMS = {1: "Na", 2: "Cl", 3: "Si"}


def rationalise(M, dens=(6, 12, 24, 48), tol=1e-9):
    M = np.asarray(M, dtype=float)
    for d in dens:
        x = M * d
        r = np.rint(x)
        if np.abs(x - r).max() < tol:
            return r.astype(int).tolist(), d, True
    return np.rint(M * dens[0]).astype(int).tolist(), dens[0], False


def real_cell(entry, rng, a=2.0):
    from phonopy.structure.atoms import PhonopyAtoms

    L = xtal.lattice_from_gram(entry["G"], a=a, rng=rng)
    pos = np.array([at["num"] for at in entry["atoms"]], dtype=float) / entry["D"]
    return PhonopyAtoms(symbols=[SYMS[at["sp"]] for at in entry["atoms"]], scaled_positions=pos, cell=L)


# ------------------------------------------------------------------------------------------------
def centring_events(next_id):
    from phonopy.structure.cells import get_primitive_matrix, get_primitive_matrix_by_centring

    out = []
    for letter in "PFIACR":
        m0 = get_primitive_matrix_by_centring(letter)
        calls = [("by_centring", lambda: m0), ("get_primitive_matrix", lambda: get_primitive_matrix(letter))]
        if m0 is not None:
            calls.append(("get_primitive_matrix(3x3)", lambda: get_primitive_matrix(np.array(m0).tolist())))
            calls.append(("get_primitive_matrix(flat 9)", lambda: get_primitive_matrix(np.array(m0).ravel().tolist())))
        for route, call in calls:
            ev = dict(id=next_id(), kind="centring", letter=letter, Mn=[[0] * 3] * 3, den=6, exact=False, route=route, returned=None)
            try:
                M = call()
                if M is None or isinstance(M, str):
                    ev["returned"] = repr(M)
                else:
                    Mn, den, exact = rationalise(M, dens=(6,), tol=1e-14)
                    ev.update(Mn=Mn, den=den, exact=bool(exact))
            except Exception as ex:
                ev["returned"] = "%s: %s" % (type(ex).__name__, str(ex)[:120])
            out.append(ev)
    return out


def guess_events(entries, rng, next_id):
    from phonopy.structure.cells import get_primitive, guess_primitive_matrix, is_primitive_cell
    from phonopy.structure.symmetry import Symmetry

    out = []
    for e in entries:
        cell = real_cell(e, rng)
        rot_conv = Symmetry(cell).symmetry_operations["rotations"]
        try:
            pmat = guess_primitive_matrix(cell)
            Mn, den, exact = rationalise(pmat)
        except Exception as ex:
            out.append(dict(id=next_id(), kind="guess", crystal=e["name"], Mn=[[0] * 3] * 3, den=6, exact=False, natomprim=-1, primisprim=False,
                            convisprim=bool(is_primitive_cell(rot_conv)), nrot=len(rot_conv),
                            exception="guess_primitive_matrix: %s: %s" % (type(ex).__name__, str(ex)[:120])))
            continue
        ev = dict(id=next_id(), kind="guess", crystal=e["name"], Mn=Mn, den=den, exact=bool(exact), natomprim=-1, primisprim=False,
                  convisprim=bool(is_primitive_cell(rot_conv)), nrot=len(rot_conv), exception=None)
        try:
            prim = get_primitive(cell, pmat)
            rot_prim = Symmetry(prim).symmetry_operations["rotations"]
            ev.update(natomprim=len(prim), primisprim=bool(is_primitive_cell(rot_prim)))
        except Exception as ex:  # a wrong primitive matrix is refused by Primitive: the event records it
            ev["exception"] = "%s: %s" % (type(ex).__name__, str(ex)[:120])
        out.append(ev)
    return out


PG_OF_SYSTEM = dict(triclinic=(1, 2), monoclinic=(3, 5), orthorhombic=(6, 8), tetragonal=(9, 15), trigonal=(16, 20),
                    hexagonal=(21, 27), cubic=(28, 32))
SPG_OF_SYSTEM = dict(triclinic=(1, 2), monoclinic=(3, 15), orthorhombic=(16, 74), tetragonal=(75, 142), trigonal=(143, 167),
                     hexagonal=(168, 194), cubic=(195, 230))


def lattice_with_lengths(l2, rng, sheared):
    L = np.diag(np.sqrt(np.array(l2, dtype=float)))
    if sheared:     # shear without changing the lengths: rotate each basis vector separately
        L = np.array([xtal.random_rotation(rng) @ v for v in L])
        if abs(np.linalg.det(L)) < 1e-3:
            return lattice_with_lengths(l2, rng, False)
    return L @ xtal.random_rotation(rng)


def estimate_call(which, num, n, l2, maxn, maxit, rng, sheared=False):
    from phonopy.structure.cells import estimate_supercell_matrix, estimate_supercell_matrix_from_pointgroup

    L = lattice_with_lengths(l2, rng, sheared)
    if which == "pg":
        res = estimate_supercell_matrix_from_pointgroup(num, L, max_num_cells=maxn, max_iter=maxit)
    else:
        ds = SimpleNamespace(number=num, std_types=np.array([1] * n, dtype="intc"), std_lattice=L)
        res = estimate_supercell_matrix(ds, max_num_atoms=maxn, max_iter=maxit)
    return as_ints(res)


def as_ints(res):
    """multiplicities as returned; anything that is not an integer becomes -1 (refused by Pos3 in the specification)"""
    return [int(x) if isinstance(x, (int, np.integer)) and not isinstance(x, bool) else -1 for x in res]


def estimate_xtal_events(entries, rng, next_id, maxns, maxits):
    import spglib
    from phonopy.structure.cells import estimate_supercell_matrix
    from phonopy.utils import get_dot_access_dataset

    out, skipped = [], []
    for e in entries:
        cell = real_cell(e, rng)
        ds = get_dot_access_dataset(spglib.get_symmetry_dataset(cell.totuple(), symprec=1e-5))
        P = np.rint(ds.transformation_matrix)
        same = np.abs(ds.transformation_matrix - P).max() < 1e-8 and abs(abs(np.linalg.det(P)) - 1) < 1e-8 and len(ds.std_types) == len(cell)
        if same:    # the standardized basis is (a b c) P^-1: its metric must be the catalogue's, transformed
            Pi = np.linalg.inv(P)
            Gs = Pi.T @ (np.array(e["G"], dtype=float) * 4.0) @ Pi
            same = np.abs(ds.std_lattice @ ds.std_lattice.T - Gs).max() < 1e-8
        if not same:
            skipped.append(e["name"])
            continue
        runs = []
        for maxn in maxns:
            for maxit in maxits:
                kw = {} if maxit is None else dict(max_iter=maxit)
                res = estimate_supercell_matrix(ds, max_num_atoms=maxn, **kw)
                runs.append(dict(maxn=maxn, maxit=100 if maxit is None else maxit, res=as_ints(res)))
        out.append(dict(id=next_id(), kind="estxtal", crystal=e["name"], Pm=P.astype(int).tolist(), runs=runs, spg=int(ds.number)))
    return out, skipped


# ------------------------------------------------------------------------------------------------
GRAMS = {
    "cubic": [[1, 0, 0], [0, 1, 0], [0, 0, 1]],
    "fcc": [[2, 1, 1], [1, 2, 1], [1, 1, 2]],
    "bcc": [[3, -1, -1], [-1, 3, -1], [-1, -1, 3]],
    "hex": [[2, -1, 0], [-1, 2, 0], [0, 0, 5]],
    "hex60": [[2, 1, 0], [1, 2, 0], [0, 0, 3]],
    "rhomb+": [[5, 2, 2], [2, 5, 2], [2, 2, 5]],
    "rhomb-": [[5, -1, -1], [-1, 5, -1], [-1, -1, 5]],
    "tet": [[4, 0, 0], [0, 4, 0], [0, 0, 5]],
    "bct": [[6, -2, -2], [-2, 6, -2], [-2, -2, 6]],
    "ortho": [[3, 0, 0], [0, 4, 0], [0, 0, 6]],
    "orthoC": [[2, 1, 0], [1, 2, 0], [0, 0, 7]],
    "orthoI": [[7, -1, -2], [-1, 7, -4], [-2, -4, 7]],
    "mono": [[4, 0, -1], [0, 5, 0], [-1, 0, 6]],
    "monoC": [[3, 1, -1], [1, 3, -1], [-1, -1, 6]],
    "tric": [[4, 1, 1], [1, 5, 2], [1, 2, 6]],
    "tric-": [[4, -1, -1], [-1, 5, -2], [-1, -2, 6]],
    "tric0": [[4, 2, 0], [2, 5, -1], [0, -1, 6]],
    "needle": [[1, 0, 0], [0, 1, 0], [0, 0, 9]],
    "plate": [[6, 1, 0], [1, 6, 0], [0, 0, 1]],
}


def random_gram(rng):
    while True:
        B = rng.integers(-2, 3, size=(3, 3))
        if abs(round(np.linalg.det(B))) >= 1:
            G = B @ B.T + np.diag(rng.integers(0, 3, size=3))
            if np.linalg.det(G) > 0.5:
                return G.tolist()


def random_unimodular(rng, steps):
    U = np.eye(3, dtype=int)
    for _ in range(steps):
        i, j = rng.choice(3, size=2, replace=False)
        E = np.eye(3, dtype=int)
        E[i, j] = int(rng.choice([-2, -1, 1, 2]))
        U = E @ U
        if rng.random() < 0.3:
            P = np.eye(3, dtype=int)[list(rng.permutation(3))]
            U = P @ U
        if rng.random() < 0.3:
            U = np.diag(rng.choice([-1, 1], size=3)) @ U
    return U


def reduce_events(rng, next_id, n_random, n_variants):
    from phonopy.structure.cells import determinant, get_reduced_bases

    grams = list(GRAMS.items()) + [("rand%d" % k, random_gram(rng)) for k in range(n_random)]
    out = []
    for name, G in grams:
        G = np.array(G, dtype=int)
        for v in range(n_variants):
            U = random_unimodular(rng, 0 if v == 0 else int(rng.integers(1, 5)))
            if np.abs(U).max() > 12:
                continue
            Gin = U @ G @ U.T
            if np.abs(Gin).max() > 2000:
                continue
            a = float(rng.uniform(1.5, 6.0))
            L = U @ xtal.lattice_from_gram(G.tolist(), a=a, rng=rng)
            for method in ("niggli", "delaunay"):
                R = get_reduced_bases(L, method=method)
                if R is None:
                    out.append(dict(id=next_id(), kind="reduce", method=method, Gin=Gin.tolist(), Tm=np.eye(3, dtype=int).tolist(),
                                    exact=False, det=1, gram=name, note="returned None"))
                    continue
                T = np.asarray(R) @ np.linalg.inv(L)
                Tr = np.rint(T)
                exact = bool(np.abs(T - Tr).max() < 1e-6 and np.abs(Tr).max() < 200)
                out.append(dict(id=next_id(), kind="reduce", method=method, Gin=Gin.tolist(), Tm=Tr.astype(int).tolist(), exact=exact,
                                det=int(determinant(Tr.astype(int).tolist())) if exact else 0,
                                gram=name, resid=float(np.abs(T - Tr).max())))
    return out


def params_events(rng, next_id, n_random):
    from phonopy.structure.cells import get_angles, get_cell_matrix_from_lattice, get_cell_parameters

    grams = list(GRAMS.items()) + [("rand%d" % k, random_gram(rng)) for k in range(n_random)]
    out = []
    worst = 0.0
    for name, G in grams:
        G = np.array(G, dtype=int)
        a = float(rng.uniform(1.5, 6.0))
        L = xtal.lattice_from_gram(G.tolist(), a=a, rng=rng)
        lens = np.asarray(get_cell_parameters(L), dtype=float)
        ang = np.asarray(get_angles(L), dtype=float)
        angr = np.asarray(get_angles(L, is_radian=True), dtype=float)
        l2 = lens ** 2 / a ** 2
        cosd = np.cos(ang * np.pi / 180.0)
        pairs = [(1, 2), (0, 2), (0, 1)]
        dots = np.array([cosd[k] * np.sqrt(G[i, i] * G[j, j]) for k, (i, j) in enumerate(pairs)])
        M = np.asarray(get_cell_matrix_from_lattice(L), dtype=float)
        G2 = M @ M.T / a ** 2
        err = max(np.abs(l2 - np.rint(l2)).max(), np.abs(dots - np.rint(dots)).max(), np.abs(G2 - np.rint(G2)).max(),
                  np.abs(angr * 180 / np.pi - ang).max())
        if err < 1e-9:
            worst = max(worst, float(err))
        lower = bool(M[0, 1] == 0 and M[0, 2] == 0 and M[1, 2] == 0 and M[0, 0] > 0 and M[1, 1] > 0 and M[2, 2] > 0)
        out.append(dict(id=next_id(), kind="params", Gin=G.tolist(), l2=np.rint(l2).astype(int).tolist(),
                        c23=int(np.rint(dots[0])), c13=int(np.rint(dots[1])), c12=int(np.rint(dots[2])), exact=bool(err < 1e-9),
                        lower=lower, G2=np.rint(G2).astype(int).tolist(), gram=name))
    return out, worst


# ------------------------------------------------------------------------------------------------
def close_cell(c, D, lattices):
    from phonopy.structure.atoms import PhonopyAtoms

    pos = np.array([a["num"] for a in c["atoms"]], dtype=float) / D
    return PhonopyAtoms(symbols=[SYMS[a["sp"]] for a in c["atoms"]], scaled_positions=pos.reshape(-1, 3), cell=lattices[c["lat"]])


def isclose_replay(rows, D, rng):
    """rows: (a, b, ordered, anyorder, order) from CellClose.tla; returns list of mismatches and the count."""
    from phonopy.structure.cells import isclose

    L1 = xtal.lattice_from_gram([[4, 1, 1], [1, 5, 2], [1, 2, 6]], a=1.7, rng=rng)
    L2 = L1.copy()
    L2[2] *= 1.01
    lattices = {1: L1, 2: L2}
    bad = []
    for a, b, ordered, anyorder, order, _ in rows:
        ca, cb = close_cell(a, D, lattices), close_cell(b, D, lattices)
        got = dict(ordered=bool(isclose(ca, cb)), ordered_rev=bool(isclose(cb, ca)),
                   anyorder=bool(isclose(ca, cb, with_arbitrary_order=True)), anyorder_rev=bool(isclose(cb, ca, with_arbitrary_order=True)))
        ro = isclose(ca, cb, with_arbitrary_order=True, return_order=True)
        got["order"] = False if ro is False else [int(x) + 1 for x in ro]
        want = dict(ordered=ordered, ordered_rev=ordered, anyorder=anyorder, anyorder_rev=anyorder,
                    order=list(order) if anyorder else False)
        if got != want:
            bad.append(dict(a=a, b=b, expected=want, got=got))
    return bad


def tolerance_events(rng, next_id):
    from phonopy.structure.atoms import PhonopyAtoms
    from phonopy.structure.cells import isclose

    L = xtal.lattice_from_gram([[4, 1, 1], [1, 5, 2], [1, 2, 6]], a=1.7, rng=rng)
    pos = np.array([[0, 0, 0], [0.5, 0.5, 0.5], [0.25, 0.75, 0.0]])
    a = PhonopyAtoms(symbols=["Na", "Cl", "Na"], scaled_positions=pos, cell=L)
    out = []
    for atol in (None, 1e-8, 1e-4, 1e-2):
        t = 1e-8 if atol is None else atol
        for cls, d in (("zero", 0.0), ("below", 0.3 * t), ("between", (t * np.sqrt(t)) ** 0.5), ("above", 3 * np.sqrt(t))):
            for k in range(3):
                u = rng.normal(size=3)
                cart = a.positions
                cart[k] += d * u / np.linalg.norm(u)
                b = PhonopyAtoms(symbols=a.symbols, positions=cart, cell=L)
                kw = {} if atol is None else dict(atol=atol)
                for mode, flag in (("ordered", False), ("any-order", True)):
                    out.append(dict(id=next_id(), kind="tol", cls=cls, mode=mode, atol=t, displacement=d, atom=k,
                                    verdict=bool(isclose(a, b, with_arbitrary_order=flag, **kw))))
    return out


def pmat_replay(table, rng):
    """table: (kind, det class, expected) of CellUtils.PMatReq; several realisations per row."""
    from phonopy.structure.cells import get_primitive_matrix

    dets = dict(negative=-0.5, zero=0.0, fraction=0.25, one=1.0, two=2.0)
    bad, n = [], 0
    for kind, dc, want in table:
        for rep in range(3):
            B = np.array([[1.0, 0.5 * rep, 0.0], [0.0, 1.0, 0.25], [0.5, 0.0, 1.0]])
            B = B / np.linalg.det(B) ** (1 / 3.0)
            M = B * np.cbrt(abs(dets[dc])) if dets[dc] != 0 else np.array([[1.0, 0, 0], [0, 1.0, 0], [1.0, 1.0, 0]])
            if dets[dc] < 0:
                M = M[[1, 0, 2]]
            if dets[dc] == 1.0 and rep == 0:
                M = np.eye(3, dtype=int)
            arg = dict(letter="PFIACR"[(rep * 2 + len(dc)) % 6], auto="auto", none=None, matrix=M, flat9=M.ravel().tolist(),
                       flat8=M.ravel().tolist()[:8], word=["B", "primitive", "f"][rep], words9=["%g" % v for v in M.ravel()])[kind]
            n += 1
            try:
                r = get_primitive_matrix(arg)
                got = "none" if r is None else ("auto" if isinstance(r, str) else "matrix")
                if got == "matrix" and kind in ("matrix", "flat9") and not np.array_equal(np.asarray(r, dtype=float), np.asarray(M, dtype=float)):
                    got = "another matrix"
            except RuntimeError:
                got = "error"
            except Exception as ex:
                got = "crash:" + type(ex).__name__
            if got != want:
                bad.append(dict(kind=kind, determinant=dets[dc], argument=repr(arg)[:200], expected=want, got=got))
    return bad, n


def shape_replay(table):
    from phonopy.structure.cells import shape_supercell_matrix

    bad = []
    for kind, v, want in table:
        arg = dict(none=None, three=list(v[:3]), nine=list(v), matrix=np.array(v).reshape(3, 3), two=list(v[:2]), four=np.array(v[:4]).reshape(2, 2))[kind]
        try:
            got = np.asarray(shape_supercell_matrix(arg)).tolist()
        except RuntimeError:
            got = "error"
        except Exception as ex:
            got = "crash:" + type(ex).__name__
        w = want if isinstance(want, str) else [list(r) for r in want]
        if got != w:
            bad.append(dict(kind=kind, argument=repr(arg), expected=w, got=got))
    return bad


def primitive_list_replay(rows):
    """rows: (name, rotations, expected) from TLC's exact space groups."""
    from phonopy.structure.cells import is_primitive_cell

    bad = []
    for name, rots, want in rows:
        got = bool(is_primitive_cell(np.array(rots, dtype="intc")))
        if got != bool(want):
            bad.append(dict(crystal=name, n_operations=len(rots), expected=bool(want), got=got))
    return bad


# ------------------------------------------------------------------------------------------------
# PhonopyAtoms histories (AtomsSM.tla)
TABLE_MASS = {1: 1.00794, 14: 28.0855, 26: 55.845}     # IUPAC 2005 (Pure Appl. Chem. 78, 2051 (2006)), the table the class documents
FIELD_KW = dict(symbols="symbols", numbers="numbers", masses="masses", magnetic_moments="magnetic_moments", cell="cell")


def _cellmat(ce):
    d1, d2, d3, sh = (float(v) for v in ce)
    return np.array([[d1, 0.0, 0.0], [sh, d2, 0.0], [0.0, 0.0, d3]])


def _abstract_expected(x):
    n = len(x["syms"])
    mass = None if not x["mass"] else [TABLE_MASS[m[1]] if m[0] == "tab" else 50.0 + m[1] for m in x["mass"]]
    mag = None if not x["mag"] else [list(map(float, m)) if isinstance(m, (list, tuple)) else float(m) for m in x["mag"]]
    return dict(symbols=list(x["syms"]), numbers=[k % 1000 for k in x["nums"]], numbers_with_shifts=list(x["nums"]), masses=mass, mag=mag,
                cell=_cellmat(x["cell"]).tolist(), spos=[[v / 16.0 for v in p] for p in x["spos"]], n=n)


def _project(obj):
    m = obj.masses
    g = obj.magnetic_moments
    tup = obj.totuple()
    tup2 = obj.totuple(distinguish_symbol_index=True)
    ok_tuple = (np.array_equal(tup[0], obj.cell) and np.array_equal(tup[1], obj.scaled_positions) and np.array_equal(tup[2], obj.numbers)
                and np.array_equal(tup2[2], obj.numbers_with_shifts) and (len(tup) == 4) == (g is not None)
                and (g is None or np.array_equal(tup[3], g)))
    cart_ok = bool(np.allclose(obj.positions, obj.scaled_positions @ obj.cell, rtol=0, atol=1e-12))
    return dict(symbols=list(obj.symbols), numbers=[int(v) for v in obj.numbers], numbers_with_shifts=[int(v) for v in obj.numbers_with_shifts],
                masses=None if m is None else [float(v) for v in m], mag=None if g is None else np.asarray(g).tolist(),
                cell=np.asarray(obj.cell).tolist(), spos=np.asarray(obj.scaled_positions).tolist(), n=len(obj),
                formula=obj.formula, reduced=obj.reduced_formula, volume=float(obj.volume)), ok_tuple and cart_ok


def _same(exp, got, tol):
    for k in ("symbols", "numbers", "numbers_with_shifts", "n"):
        if exp[k] != got[k]:
            return k
    for k, t in (("masses", tol["mass"]), ("mag", tol["magnetic_moment"]), ("cell", tol["lattice"]), ("spos", tol["coordinates"])):
        a, b = exp[k], got[k]
        if (a is None) != (b is None):
            return k
        if a is not None:
            a, b = np.array(a, dtype=float), np.array(b, dtype=float)
            if a.shape != b.shape or np.abs(a - b).max() > t:
                return k
    return None


def _mutate(container):
    if container is None:
        return
    if isinstance(container, list):
        if container and isinstance(container[0], str):
            container[0] = "Ti" if container[0] != "Ti" else "O"
        elif container:
            container[0] = 3
        return
    arr = np.asarray(container)
    if arr.size and arr.flags.writeable:
        if arr.dtype.kind in "iu":
            arr.flat[0] = arr.flat[0] + 2
        else:
            arr.flat[0] = arr.flat[0] + 0.75


def run_history(hist, decimals):
    """Execute one history on the real class.  Returns (status, [projection], tuple_ok)."""
    import warnings

    import yaml
    from phonopy.structure.atoms import PhonopyAtoms, parse_cell_dict

    objs, args = [], {}
    status = "ok"
    for step in hist:
        op, k, arg = step["op"], step["obj"], step["arg"]
        try:
            with warnings.catch_warnings():
                warnings.simplefilter("ignore")
                if op == "new":
                    kw = {}
                    if arg["sy"]:
                        args["symbols"] = kw["symbols"] = list(arg["sy"])
                    if arg["nu"]:
                        args["numbers"] = kw["numbers"] = [int(v) for v in arg["nu"]]
                    if arg["ma"]:
                        args["masses"] = kw["masses"] = np.array([50.0 + v for v in arg["ma"]])
                    if arg["mg"]:
                        args["magnetic_moments"] = kw["magnetic_moments"] = np.array([float(v) for v in arg["mg"]])
                    args["cell"] = kw["cell"] = _cellmat(arg["ce"])
                    if arg["po"]:
                        if arg["pk"] == "scaled":
                            args["positions"] = kw["scaled_positions"] = np.array(arg["po"], dtype=float) / 16.0
                        else:
                            args["positions"] = kw["positions"] = np.array(arg["po"], dtype=float) / 4.0
                    objs.append(PhonopyAtoms(**kw))
                elif op == "copy":
                    objs.append(objs[k - 1].copy())
                elif op == "yaml":
                    objs.append(parse_cell_dict(yaml.safe_load(str(objs[k - 1]))))
                elif op == "mutate_argument":
                    _mutate(args.get(arg))
                elif op == "mutate_returned":
                    _mutate(getattr(objs[k - 1], arg))
                elif op == "cell":
                    objs[k - 1].cell = _cellmat(arg)
                elif op == "scaled_positions":
                    objs[k - 1].scaled_positions = np.array(arg, dtype=float) / 16.0
                elif op == "positions":
                    objs[k - 1].positions = np.array(arg, dtype=float) / 4.0
                elif op == "masses":
                    objs[k - 1].masses = None if not arg else np.array([50.0 + v for v in arg])
                elif op == "magnetic_moments":
                    objs[k - 1].magnetic_moments = None if not arg else [float(v) for v in arg]
                else:
                    raise AssertionError(op)
        except RuntimeError:
            status = "error"
            break
        except Exception as ex:  # not a documented refusal
            status = "crash:%s:%s" % (type(ex).__name__, str(ex)[:80])
            break
    if status != "ok":
        return status, None, True
    proj, oks = [], True
    for o in objs:
        p, ok = _project(o)
        proj.append(p)
        oks = oks and ok
    return status, proj, oks


def atoms_replay(rows, decimals):
    tol = {k: 0.5 * 10.0 ** (-d) * (1 + 1e-6) + 1e-15 for k, d in decimals.items()}
    exact = dict(mass=1e-12, magnetic_moment=1e-12, lattice=1e-12, coordinates=1e-12)
    bad = {}
    failing = set()
    rows = sorted(rows, key=lambda r: len(r[0]))      # prefixes first: a history is blamed on its first diverging step
    for hist, status, objs, derived in rows:
        got_status, proj, tuple_ok = run_history(hist, decimals)
        last = hist[-1]
        cls = last["op"] + (":" + last["arg"] if isinstance(last["arg"], str) else "")
        why = None
        if got_status != status:
            why = "status"
        elif status == "ok":
            if len(proj) != len(objs):
                why = "objects"
            else:
                used = tol if any(h["op"] == "yaml" for h in hist) else exact
                for k, (x, g) in enumerate(zip(objs, proj)):
                    f = _same(_abstract_expected(x), g, used)
                    if f:
                        why = "object %d: %s" % (k + 1, f)
                        break
                    if (g["formula"], g["reduced"]) != (derived[k]["formula"], derived[k]["reduced"]) or abs(g["volume"] - derived[k]["volume"]) > 1e-12:
                        why = "object %d: formula / reduced_formula / volume %r, expected %r" % (k + 1, (g["formula"], g["reduced"], g["volume"]), derived[k])
                        break
                if why is None and not tuple_ok:
                    why = "totuple/positions inconsistent with the attributes"
        if why:
            failing.add(json.dumps(hist, sort_keys=True))
            if json.dumps(hist[:-1], sort_keys=True) in failing:
                continue
            bad.setdefault(cls, []).append(dict(history=hist, expected_status=status, got_status=got_status, differs_in=why,
                                                expected=[_abstract_expected(x) for x in objs] if status == "ok" else None, got=proj))
    return bad


# ------------------------------------------------------------------------------------------------
def yaml_events(entries, rng, next_id):
    """str(cell) -> yaml -> parse_cell_dict on cells with non-dyadic numbers; per field the decimals found in the text and
    the worst read-back error in units of 10^-(decimals + 3)."""
    import re

    import yaml
    from phonopy.structure.atoms import PhonopyAtoms, parse_cell_dict

    out = []
    for k, e in enumerate(entries):
        n = len(e["atoms"])
        L = xtal.lattice_from_gram(e["G"], a=float(rng.uniform(1.5, 7.0)), rng=rng)
        pos = np.array([at["num"] for at in e["atoms"]], dtype=float) / e["D"] + (rng.uniform(-1, 1, size=(n, 3)) if k % 2 else 0.0)
        ext = k % 3 == 0
        symbols = [SYMS[at["sp"]] + (str(1 + i % 2) if ext else "") for i, at in enumerate(e["atoms"])]
        masses = rng.uniform(1.0, 200.0, size=n) if (ext or k % 4 == 1) else None
        mag = None if k % 3 == 1 else (rng.uniform(-3, 3, size=n) if k % 3 == 2 else rng.uniform(-3, 3, size=(n, 3)))
        cell = PhonopyAtoms(symbols=symbols, scaled_positions=pos, cell=L, masses=masses, magnetic_moments=mag)
        text = str(cell)
        try:
            back = parse_cell_dict(yaml.safe_load(text))
            same = bool(back.symbols == cell.symbols and list(back.numbers_with_shifts) == list(cell.numbers_with_shifts)
                        and (back.magnetic_moments is None) == (mag is None)
                        and (mag is None or back.magnetic_moments.shape == cell.magnetic_moments.shape))
        except Exception as ex:
            out.append(dict(id=next_id(), kind="yaml", field="lattice", shown=0, err=1000000, ulp=0, same=False, crystal=e["name"],
                            exception="%s: %s" % (type(ex).__name__, str(ex)[:100])))
            continue
        pats = dict(lattice=r"^- \[(.*)\] # [abc]$", coordinates=r"^  coordinates: \[(.*)\]$", mass=r"^  mass: (.*)$",
                    magnetic_moment=r"^  magnetic_moment: \[?([^\]]*)\]?$")
        pairs = dict(lattice=(cell.cell, back.cell), coordinates=(cell.scaled_positions, back.scaled_positions),
                     mass=(cell.masses, back.masses), magnetic_moment=(cell.magnetic_moments, back.magnetic_moments))
        for field, (x, y) in pairs.items():
            if field == "magnetic_moment" and (x is None or not same):
                continue
            shown = min((len(tok.strip().split(".")[1]) if "." in tok else 0)
                        for line in text.splitlines() for m in [re.match(pats[field], line)] if m for tok in m.group(1).split(","))
            x, y = np.asarray(x, dtype=float), np.asarray(y, dtype=float)
            unit = 10.0 ** (-(shown + 3))
            if x.shape != y.shape:
                err, ulp = 1000000, 0
            else:
                err = int(min(1000000, np.ceil(np.abs(x - y).max() / unit)))
                ulp = int(min(1000000, np.ceil(np.spacing(np.abs(x).max()) / unit)))
            out.append(dict(id=next_id(), kind="yaml", field=field, shown=int(shown), err=err, ulp=ulp, same=same, crystal=e["name"],
                            extended_symbols=ext))
    return out


def convert_replay(rows, D, rng):
    """convert_to_phonopy_primitive(supercell of a, b) against ConvertReq and the definition of the result."""
    from phonopy.structure.cells import convert_to_phonopy_primitive, get_supercell

    L1 = xtal.lattice_from_gram([[4, 1, 1], [1, 5, 2], [1, 2, 6]], a=1.7, rng=rng)
    lattices = {1: L1, 2: L1}
    mats = [np.diag([2, 1, 1]), np.array([[1, 1, 0], [-1, 1, 0], [0, 0, 2]]), np.diag([1, 2, 2]), np.array([[1, 0, 1], [0, 1, 0], [-1, 0, 2]])]
    bad, n = [], 0
    for k, (a, b, ordered, anyorder, order, allowed) in enumerate(rows):
        if a["lat"] != b["lat"]:
            continue
        S = mats[k % len(mats)]
        ca, cb = close_cell(a, D, lattices), close_cell(b, D, lattices)
        sc = get_supercell(ca, S)
        n += 1
        why = None
        try:
            P = convert_to_phonopy_primitive(sc, cb)
            got = "ok"
        except RuntimeError:
            got = "refused"
        except Exception as ex:
            got = "crash:%s" % type(ex).__name__
        if got not in allowed:
            why = "accepted/refused"
        elif got == "ok":
            inv = np.linalg.inv(cb.cell)
            x = P.scaled_positions * D
            y = sc.positions[P.p2s_map] @ inv * D
            want = np.array([at["num"] for at in b["atoms"]], dtype=float)
            syms = [SYMS[at["sp"]] for at in b["atoms"]]
            if len(P) != len(want) or list(P.symbols) != syms or [sc.symbols[i] for i in P.p2s_map] != syms:
                why = "species of the result / of the mapped supercell atoms"
            elif np.abs(P.cell - cb.cell).max() > 1e-10:
                why = "basis of the result"
            elif (np.abs((x - want) / D - np.rint((x - want) / D)).max() > 1e-9 or np.abs((y - want) / D - np.rint((y - want) / D)).max() > 1e-9):
                why = "positions of the result / of the mapped supercell atoms"
        if why:
            bad.append(dict(a=a, b=b, supercell_matrix=S.tolist(), allowed=sorted(allowed), got=got, differs_in=why))
    return bad, n
