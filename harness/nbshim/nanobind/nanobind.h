// Stand-in for <nanobind/nanobind.h>, sufficient for phonopy's c/_phonopy.cpp.
// Verification machinery only: lets the *unmodified* glue file and C sources be
// compiled in a sandbox that has no nanobind.  Implements exactly the subset
// the glue uses: NB_MODULE, module_::def(name, function pointer), and argument
// casters for ndarray<>, int64_t, int, double, bool, const char*; return
// casters for void, bool, double, int64_t.
#pragma once
#include <Python.h>
#include <stdint.h>

#include <functional>
#include <memory>
#include <string>
#include <tuple>
#include <utility>

namespace nanobind {

struct cast_error {};

class buffer_holder {
   public:
    Py_buffer view;
    bool ok;
    explicit buffer_holder(PyObject *o) : ok(false) {
        if (PyObject_GetBuffer(o, &view, PyBUF_STRIDES | PyBUF_FORMAT | PyBUF_WRITABLE) == 0) {
            ok = true;
            return;
        }
        PyErr_Clear();
        if (PyObject_GetBuffer(o, &view, PyBUF_STRIDES | PyBUF_FORMAT) == 0) {
            ok = true;
            return;
        }
        PyErr_Clear();
    }
    ~buffer_holder() {
        if (ok) PyBuffer_Release(&view);
    }
    buffer_holder(const buffer_holder &) = delete;
    buffer_holder &operator=(const buffer_holder &) = delete;
};

template <typename... Ts>
class ndarray {
    std::shared_ptr<buffer_holder> h_;

   public:
    ndarray() {}
    explicit ndarray(std::shared_ptr<buffer_holder> h) : h_(std::move(h)) {}
    void *data() const { return h_->view.buf; }
    size_t ndim() const { return (size_t)h_->view.ndim; }
    size_t shape(size_t i) const {
        if ((int)i >= h_->view.ndim) return 1;  // glue never does this
        return (size_t)h_->view.shape[i];
    }
    size_t size() const {
        size_t n = 1;
        for (int i = 0; i < h_->view.ndim; i++) n *= (size_t)h_->view.shape[i];
        return n;
    }
};

namespace detail {

template <typename T>
struct caster;

template <typename... Ts>
struct caster<ndarray<Ts...>> {
    static ndarray<Ts...> load(PyObject *o) {
        if (!PyObject_CheckBuffer(o)) throw cast_error();
        auto h = std::make_shared<buffer_holder>(o);
        if (!h->ok) throw cast_error();
        return ndarray<Ts...>(h);
    }
};

template <>
struct caster<int64_t> {
    static int64_t load(PyObject *o) {
        if (PyFloat_Check(o)) throw cast_error();
        PyObject *idx = PyNumber_Index(o);
        if (!idx) {
            PyErr_Clear();
            throw cast_error();
        }
        long long v = PyLong_AsLongLong(idx);
        Py_DECREF(idx);
        if (v == -1 && PyErr_Occurred()) {
            PyErr_Clear();
            throw cast_error();
        }
        return (int64_t)v;
    }
};

template <>
struct caster<int> {
    static int load(PyObject *o) { return (int)caster<int64_t>::load(o); }
};

template <>
struct caster<bool> {
    static bool load(PyObject *o) {
        int r = PyObject_IsTrue(o);
        if (r < 0) {
            PyErr_Clear();
            throw cast_error();
        }
        return r != 0;
    }
};

template <>
struct caster<double> {
    static double load(PyObject *o) {
        double v = PyFloat_AsDouble(o);
        if (v == -1.0 && PyErr_Occurred()) {
            PyErr_Clear();
            throw cast_error();
        }
        return v;
    }
};

template <>
struct caster<const char *> {
    static const char *load(PyObject *o) {
        if (!PyUnicode_Check(o)) throw cast_error();
        const char *s = PyUnicode_AsUTF8(o);
        if (!s) {
            PyErr_Clear();
            throw cast_error();
        }
        return s;
    }
};

inline PyObject *to_py(bool v) {
    if (v) Py_RETURN_TRUE;
    Py_RETURN_FALSE;
}
inline PyObject *to_py(double v) { return PyFloat_FromDouble(v); }
inline PyObject *to_py(int64_t v) { return PyLong_FromLongLong((long long)v); }
inline PyObject *to_py(int v) { return PyLong_FromLong((long)v); }

using thunk = std::function<PyObject *(PyObject *)>;

template <typename R, typename... A, size_t... I>
PyObject *invoke(R (*f)(A...), PyObject *args, std::index_sequence<I...>) {
    if (PyTuple_GET_SIZE(args) != (Py_ssize_t)sizeof...(A)) throw cast_error();
    // Casters are evaluated into a tuple first so that buffers stay alive for
    // the duration of the call.
    std::tuple<std::decay_t<A>...> loaded{
        caster<std::decay_t<A>>::load(PyTuple_GET_ITEM(args, I))...};
    if constexpr (std::is_void<R>::value) {
        f(std::get<I>(loaded)...);
        Py_RETURN_NONE;
    } else {
        return to_py(f(std::get<I>(loaded)...));
    }
}

inline PyObject *dispatch(PyObject *self, PyObject *args) {
    thunk *t = (thunk *)PyCapsule_GetPointer(self, "nbshim.thunk");
    if (!t) return nullptr;
    try {
        return (*t)(args);
    } catch (cast_error &) {
        PyErr_SetString(PyExc_TypeError,
                        "incompatible function arguments (nbshim)");
        return nullptr;
    }
}

}  // namespace detail

class module_ {
    PyObject *m_;

   public:
    explicit module_(PyObject *m) : m_(m) {}
    template <typename R, typename... A>
    module_ &def(const char *name, R (*f)(A...)) {
        auto *t = new detail::thunk([f](PyObject *args) -> PyObject * {
            return detail::invoke(f, args, std::index_sequence_for<A...>{});
        });
        PyObject *cap = PyCapsule_New((void *)t, "nbshim.thunk", nullptr);
        PyMethodDef *md = new PyMethodDef{strdup(name), detail::dispatch,
                                          METH_VARARGS, nullptr};
        PyObject *fn = PyCFunction_New(md, cap);
        Py_DECREF(cap);
        PyModule_AddObject(m_, name, fn);
        return *this;
    }
};

}  // namespace nanobind

#define NB_MODULE(name, var)                                              \
    static void nbshim_init_##name(nanobind::module_ &);                  \
    static PyModuleDef nbshim_def_##name = {PyModuleDef_HEAD_INIT, #name, \
                                            nullptr, -1, nullptr};        \
    extern "C" __attribute__((visibility("default"))) PyObject            \
        *PyInit_##name(void) {                                            \
        PyObject *m = PyModule_Create(&nbshim_def_##name);                \
        if (!m) return nullptr;                                           \
        nanobind::module_ mod(m);                                         \
        nbshim_init_##name(mod);                                          \
        return m;                                                         \
    }                                                                     \
    static void nbshim_init_##name(nanobind::module_ &var)
