#pragma once
#include <nanobind/nanobind.h>
