import importlib
import sys


def main():
    argv = sys.argv[1:]
    if not argv:
        print("usage: check <Cxx>|--setup [--tier quick|thorough] [--replay f]")
        return 2
    if argv[0] == "--setup":
        from . import setup
        return setup.main()
    pid = argv[0].upper()
    from . import core
    mod = importlib.import_module("harness.props.%s" % pid.lower())
    return core.main(pid, mod.run, argv[1:])


if __name__ == "__main__":
    sys.exit(main())
