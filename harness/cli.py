import importlib
import os
import signal
import subprocess
import sys

# Signals by which a process dies when compiled code it runs corrupts memory or traps.  The checks drive phonopy's
# compiled kernels in-process; on the unchanged tree this never happens, so such a death is the implementation
# leaving the specified behaviour (memory safety, C13's clause, but fatal for whichever check meets it): it is
# reported as a violation of the property being checked, not as a failure of the machinery.
CRASH_SIGNALS = {signal.SIGSEGV: "SIGSEGV", signal.SIGABRT: "SIGABRT", signal.SIGBUS: "SIGBUS",
                 signal.SIGFPE: "SIGFPE", signal.SIGILL: "SIGILL"}


def run_child(argv):
    env = dict(os.environ, VERIF_CHILD="1")
    p = subprocess.run([sys.executable, "-m", "harness.cli"] + argv, env=env)
    rc = p.returncode
    if rc >= 0:
        return rc
    name = CRASH_SIGNALS.get(-rc)
    pid = argv[0].upper()
    if name is None:
        print("MACHINERY-FAILURE %s: check process killed by signal %d" % (pid, -rc), file=sys.stderr)
        return 2
    from . import core
    tier = "quick"
    if "--tier" in argv and argv.index("--tier") + 1 < len(argv):
        tier = argv[argv.index("--tier") + 1]
    ctx = core.Ctx(pid, tier, int(os.environ.get("VERIF_SEED", "0") or 0), None)
    ctx.rule = "the check process died while driving the implementation"
    ctx.violation("crash:%s" % name,
                  "the process running phonopy's code under this check was killed by %s (memory corruption or trap in "
                  "compiled code); no behaviour of the specification ends this way" % name,
                  dict(signal=name, argv=argv, repo=os.environ.get("VERIF_REPO", "/repo")))
    return ctx.finish()


def main():
    argv = sys.argv[1:]
    if not argv:
        print("usage: check <Cxx>|--setup [--tier quick|thorough] [--replay f]")
        return 2
    if argv[0] == "--setup":
        from . import setup
        return setup.main()
    if not os.environ.get("VERIF_CHILD"):
        return run_child(argv)
    pid = argv[0].upper()
    from . import core
    mod = importlib.import_module("harness.props.%s" % pid.lower())
    return core.main(pid, mod.run, argv[1:])


if __name__ == "__main__":
    sys.exit(main())
