"""Generate /verif/MANIFEST.json from the table below (single source of truth)."""
import json
import os

VERIF = os.path.dirname(os.path.dirname(os.path.abspath(__file__)))

TECH = "TLA+ specification model-checked with TLC; bound to the code by trace validation (code->spec) and replay of TLC behaviours (spec->code)"

CHECKS = {
    "C04": dict(
        text=("Supercell.tla transcribes phonopy's supercell construction (surrounding frame, SNF contract, simple "
              "supercell, first-come trimming, index maps) as a step machine and states the tiling requirement "
              "(count = |det S|, no duplicates modulo the supercell lattice, image-of, maps, lattice S^T L). TLC "
              "checks the requirement on the machine and, in SupercellTrace.tla, on the projected result of every "
              "real get_supercell() call (both constructions) over thousands of integer matrices, and that the "
              "real result is the machine's result. Primitive.tla does the same for Primitive (p2s/s2p/p2p, "
              "translation permutation group)."),
        note=("Trusted: TLC, the projection of real positions to integer numerators (residual checked), numpy. "
              "Bounded: S entries -1..1 exhaustively (thorough), random entries -2..3 with |det|<=8; unit cells "
              "with 1-3 atoms on 1/4 and 1/6 grids; triclinic real lattices."),
        design="5/C04"),
    "C05": dict(
        text=("ShortestVectors.tla defines the minimum-image set of a separation by scanning a box whose sufficiency "
              "is itself an invariant (Cauchy-Schwarz bound with the reciprocal basis, exact integers), and models "
              "the implementation's 65-point window on Niggli-reduced forms. TLC checks (a) Window65Complete - the "
              "statement the source says has no proof - over all Niggli-reduced integer Gram forms with bounded "
              "entries and all separations on a grid, and (b) for every atom pair of real get_smallest_vectors() "
              "runs on sheared/needle/plate/high-symmetry lattices that the recorded dense and sparse tables are "
              "exactly that set (none longer, none missing, no duplicate, multiplicity = count, running addresses, "
              "converters)."),
        note=("Trusted: TLC; projection of real vectors to integers over D (residual checked); spglib only as the "
              "code's own dependency. Bounded: reduced forms with diagonal <= 3 (quick) / 5 (thorough), grid 1/2 "
              "or 1/4; impl lattices U G U^T with |U| <= 6; 32-bit overflow guarded by the generator."),
        design="5/C05"),
    "C06": dict(
        text=("Commensurate.tla defines the commensurate set of S (all n/N with S^T n = 0 mod N), and TLC checks for "
              "every S met the counting theorem |CommSet| = |det S|, closure under negation and the perfect pairing "
              "with Z^3/SZ^3 (r in SZ^3 iff q.r integral for all commensurate q) - the character orthogonality that "
              "makes the inverse transform exact. Recorded outputs of get_commensurate_points, "
              "get_commensurate_points_in_integers and categorize_commensurate_points for ~650 (quick) / thousands "
              "(thorough) of matrices, and the point sets actually used by DynmatToForceConstants objects, are "
              "validated against it (count, distinct, integral, complete, both constructions agree, partition). "
              "Spec-to-code: exact spring-model force constants (TLC-computed) and random periodic symmetric arrays "
              "go through the real forward and inverse transforms (C and Python, full and compact, non-diagonal and "
              "centred supercells) and through Phonopy.ph2ph; results must return to 1e-9."),
        note=("Trusted: TLC, numpy, the oracle realisation (validated). The exactness argument needs svec congruence, "
              "which is C05/C02's statement. Bounded: det S <= 8; 14 crystal x supercell round-trip scenarios."),
        design="5/C06"),
}

NOT_BUILT = "check under construction in this round; not yet claimed"


def main():
    props = [json.loads(l) for l in open(os.path.join(VERIF, "properties.jsonl"))]
    checks = []
    na = []
    for p in props:
        pid = p["id"]
        c = CHECKS.get(pid)
        if not c:
            na.append(dict(property_id=pid, reason=NOT_BUILT))
            continue
        checks.append(dict(
            property_id=pid,
            quick_cmd="./check %s --tier quick" % pid,
            thorough_cmd="./check %s --tier thorough" % pid,
            evidence_file="evidence/%s.json" % pid,
            replay_cmd_template="./check %s --replay {path}" % pid,
            engine="tlc",
            level_claimed=dict(category="model_checking", text=c["text"], design_ref="DESIGN.md section " + c["design"]),
            level_note=c["note"],
            technique=c.get("technique", TECH),
        ))
    m = dict(
        version=1,
        setup_cmd="./check --setup",
        hooks=dict(
            guard="PHONOPY_VERIF",
            enable=("no source hooks: instrumentation is harness-side (wrappers installed by harness/ when "
                    "PHONOPY_VERIF=1); checks import /repo's Python sources in place and build c/ with "
                    "harness/build_ext.py"),
            baseline_off_cmd="cd /verif && /venv/bin/python -m harness.baseline",
            source_commits=[],
            add_only=True,
        ),
        engines=[dict(name="tlc", path="/opt/veriftools/tla/tla2tools.jar",
                      serves_properties=[c["property_id"] for c in checks],
                      kind_free_text="TLC 1.8 explicit-state model checker on /verif/spec/*.tla; harness/ replays/validates against /repo")],
        checks=checks,
        notes="See DESIGN.md. known_findings.json lists recorded and fixed defects.",
        not_applicable=na,
    )
    with open(os.path.join(VERIF, "MANIFEST.json"), "w") as f:
        json.dump(m, f, indent=1)
    print("MANIFEST.json: %d checks, %d not_applicable" % (len(checks), len(na)))


if __name__ == "__main__":
    main()
