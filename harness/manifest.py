"""Generate /verif/MANIFEST.json from the table below (single source of truth)."""
import json
import os

VERIF = os.path.dirname(os.path.dirname(os.path.abspath(__file__)))

TECH = "TLA+ specification model-checked with TLC; bound to the code by trace validation (code->spec) and replay of TLC behaviours (spec->code)"

CHECKS = {
    "C04": dict(
        text=("Supercell.tla transcribes phonopy's supercell construction (surrounding frame, SNF contract, simple "
              "supercell, first-come trimming, index maps) as a step machine and states the tiling requirement "
              "(count = |det S|, no duplicates modulo the supercell lattice, image-of, maps, lattice S^T L). TLC "
              "checks the requirement on the machine and, in SupercellTrace.tla, on the projected result of every "
              "real get_supercell() call (both constructions) over thousands of integer matrices, and that the "
              "real result is the machine's result. Primitive.tla does the same for Primitive (p2s/s2p/p2p, "
              "translation permutation group)."),
        note=("Trusted: TLC, the projection of real positions to integer numerators (residual checked), numpy. "
              "Bounded: S entries -1..1 exhaustively (thorough), random entries -2..3 with |det|<=8; unit cells "
              "with 1-3 atoms on 1/4 and 1/6 grids; triclinic real lattices."
              " Later additions: SNF.tla transcription of snf.py, noisy and non-collinear cells, positions_to_reorder, primitive_matrix='auto', species-interleaved cells against cross-species primitive translations."),
        design="5/C04"),
    "C05": dict(
        text=("ShortestVectors.tla defines the minimum-image set of a separation by scanning a box whose sufficiency "
              "is itself an invariant (Cauchy-Schwarz bound with the reciprocal basis, exact integers), and models "
              "the implementation's 65-point window on Niggli-reduced forms. TLC checks (a) Window65Complete - the "
              "statement the source says has no proof - over all Niggli-reduced integer Gram forms with bounded "
              "entries and all separations on a grid, and (b) for every atom pair of real get_smallest_vectors() "
              "runs on sheared/needle/plate/high-symmetry lattices that the recorded dense and sparse tables are "
              "exactly that set (none longer, none missing, no duplicate, multiplicity = count, running addresses, "
              "converters)."),
        note=("Trusted: TLC; projection of real vectors to integers over D (residual checked); spglib only as the "
              "code's own dependency. Bounded: reduced forms with diagonal <= 3 (quick) / 5 (thorough), grid 1/2 "
              "or 1/4; impl lattices U G U^T with |U| <= 6; 32-bit overflow guarded by the generator."
              " Later additions: sub-tolerance noise, tables of real Primitive objects incl. objects built with symprec=1e-3 on strained crystals, a ladder of large tables (>1000 atoms, whole-table address facts), bases that look reduced by their angles but are not."),
        design="5/C05"),
    "C06": dict(
        text=("Commensurate.tla defines the commensurate set of S (all n/N with S^T n = 0 mod N), and TLC checks for "
              "every S met the counting theorem |CommSet| = |det S|, closure under negation and the perfect pairing "
              "with Z^3/SZ^3 (r in SZ^3 iff q.r integral for all commensurate q) - the character orthogonality that "
              "makes the inverse transform exact. Recorded outputs of get_commensurate_points, "
              "get_commensurate_points_in_integers and categorize_commensurate_points for ~650 (quick) / thousands "
              "(thorough) of matrices, and the point sets actually used by DynmatToForceConstants objects, are "
              "validated against it (count, distinct, integral, complete, both constructions agree, partition). "
              "Spec-to-code: exact spring-model force constants (TLC-computed) and random periodic symmetric arrays "
              "go through the real forward and inverse transforms (C and Python, full and compact, non-diagonal and "
              "centred supercells) and through Phonopy.ph2ph; results must return to 1e-9."),
        note=("Trusted: TLC, numpy, the oracle realisation (validated). The exactness argument needs svec congruence, "
              "which is C05/C02's statement. Bounded: det S <= 8; 14 crystal x supercell round-trip scenarios."),
        design="5/C06"),
    "C17": dict(
        text=("Calculators.tla models what the 16 calculator interfaces do to a cell: writer order (stable grouping by "
              "first appearance or identity), labels, positions and moments written through that order, read back, the "
              "same for every displaced supercell, then forces reported in file order and the displacement-agreement "
              "check; the requirement is stated from the definition (same (species, position) set, order identity or "
              "stable grouping, lattice equal or rigidly rotated where the format prescribes it, moments kept, FORCE_SETS "
              "pairs right or refuses). TLC checks the machine exhaustively (all species sequences of length <= 6 over 3 "
              "species x 16 interfaces in the thorough tier) and, in CalculatorsTrace, judges each predicate on the "
              "projected result of every real write/read_crystal_structure, write_supercells_with_displacements and "
              "create_FORCE_SETS run (inputs are TLC's own enumeration realised as triclinic cells with positions outside "
              "[0,1)); read-backs are also compared with TLC's expected next state. Units.tla derives factor, NAC factor, "
              "conversion factors and the fc-conversion table as exact exponent vectors over phonopy's base constants; "
              "UnitsTrace checks the code's floats projected to monomials (1e-12) and that one physical crystal expressed "
              "in each unit system gives the same THz frequencies, thermal properties and LO-TO splitting."),
        note=("Trusted: TLC; the projection (position matching modulo 1 with tolerance derived from each writer's format "
              "string; float->monomial search); own emitters/parsers for calculator outputs (our reading of the formats); "
              "a cp2k_input_tools stand-in. Traits not defects: qe/siesta writers are partial, crystal/fleur readers cannot "
              "read their writers' files directly. Bounds: <= 6 atoms in the model, <= 5 real (plus 10/13-atom cells), 3 "
              "species, collinear moments, supercells det 2, type-1 datasets."
              " Later additions: UnitsRoute.tla (every route by which units reach a calculation incl. phonopy-calc-convert), force-collection modes, the zero-mode reference file as its own action with partial-mismatch classes."),
        design="5/C17 and 11.2"),
    "C19": dict(
        text=("RandomDisp.tla transcribes the sampling structure of RandomDisplacements as a step machine (SNF contract, "
              "integer commensurate points, ii/ij categorisation, the real mode family with its sqrt2 and 1/sqrtN factors, "
              "the eigen-solutions collected for run_d2f/run_correlation_matrix). TLC checks for every sublattice of Z^3 of "
              "index <= 8 (quick) / 12 (thorough) that the points are the dual group once each, that ii/ij are exactly the "
              "self-conjugate points and one member of every conjugate pair, dof = 3 n_prim N, and - exactly in Z[sqrt3] "
              "when the group exponent divides 12 - that the real mode family is orthonormal; RandomDispCov.tla shows on an "
              "exact Gaussian-rational model that the covariance of the _solve_ii/_solve_ij linear map is the canonical one. "
              "RandomDispTrace/ThermalDispTrace evaluate the same requirement on values recorded from the real functions and "
              "from real RandomDisplacements / thermal-displacement runs on TLC-computed spring-model crystals (A^T A of the "
              "extracted linear map, .uu, .uu_inv, run_d2f, MSD matrices Hermitian PSD, diagonal = MSD, CIF congruence)."),
        note=("Trusted: TLC; numpy eigh/exp applied to oracle values; the real SNF3x3 output (contract checked by TLC); "
              "constants written out literally. Bounds: index <= 8/12; covariance model for exponent-4 groups; physical "
              "cases N <= 27, <= 72 atoms; tolerance 1e-9 relative. Out of scope: imaginary modes, max_distance clipping, "
              "yaml/CIF writers."
              " Later additions: RandomDispHistory.tla (call sequences, seeds), dynamically unstable crystals (C19Unstable.tla) for the run_d2f identity, frequency windows of thermal displacements."),
        design="5/C19 and 11.2"),
    "C14": dict(
        text=("AccessPaths.tla names every reported array by a token (kind, q, NAC term, rounding, group-velocity "
              "perturbation, band order) and states C14 as invariants over functions of (state, q, requested direction) "
              "only, so no flag and no build enters the requirement. A step machine with heap cells, view aliasing and "
              "unbound locals transcribes QpointsPhonon._run, Mesh._set_phonon, IterMesh.__next__, "
              "BandStructure._solve_dm_on_path, init_mesh and the direct getters. TLC proves Impl => Spec for the machine "
              "over all 2520 configurations (paths x output flags x band connection x NAC none/Wang/Gonze-Lee x decimals x "
              "direction x q-list shapes x OpenMP/serial). Every configuration is then run on the real API in both builds "
              "and each returned array is classified against the exact spring-model Fourier sum (yaml/hdf5 files re-read "
              "as part of it); TLC evaluates the requirement on the logged observations (AccessPathsTrace) and reports which "
              "code variant of the machine reproduces them. BandConnection.tla decides that greedy band matching yields a "
              "permutation over exactly unitary integer overlap matrices; its table is replayed on the real function."),
        note=("Trusted: with NAC the matrix a token names is DynamicalMatrixNAC.run on a separate reference object (C08 owns "
              "it); group-velocity tokens come from a fresh GroupVelocity (C12 owns it); numpy eigh; without NAC the Fourier "
              "sum is TLC-computed. Bounds: primitive = unit cell, 4 crystals (one with all modes unstable), 2x2x2 "
              "supercells, q-lists <= 3 points, meshes <= 12 irreducible points; band connection 3x3 entries -2..2, 4x4 "
              "-1..1; files compared to half a unit of the last printed digit."
              " Later additions: query histories (QueryHistory.tla), bulk batches (thousands of q-points, dense meshes; batched vs per-q, omp vs serial), presentation (container / memory layout) of the q-point argument."),
        design="5/C14 and 11.2"),
    "C10": dict(
        text=("Thermal.tla is an exact model of which harmonic-oscillator terms each code path adds up and with which "
              "weights (compiled kernel plus _run_c_thermal_properties; Python mode_* through _calculate_thermal_property; "
              "the projection branch). TLC checks it exhaustively over all flag combinations and mode classes against the "
              "documented definition: modes above the cutoff only, F(T=0) = zero-point energy, S = C_V = 0 at T = 0, "
              "division by the sum of weights, band-index and projection bookkeeping, classical dispatch, mode counts, "
              "C == Python. Real runs on a decodable frequency realisation are projected to integer coefficient signatures "
              "and TLC evaluates the requirement on them (ThermalTrace) and identifies which modelled variant of the code "
              "is present; the ReqRecord computed by TLC is interpreted with stable closed forms (own constants, "
              "cross-checked against 50-digit decimal) on spectra with h nu/kT from 1e-12 to 1e5 and compared with "
              "ThermalProperties.run in both languages and Phonopy.run_thermal_properties. ThermalIEEE.tla decides "
              "finiteness of every coded expression tree over 2099 x-classes in an IEEE abstract domain, validated by "
              "sampling the real kernels in every class; ThermalIdentities.tla has TLC decide S = -dF/dT, C_V = T dS/dT, "
              "sign, monotonicity and the Dulong-Petit limit on logged rows."),
        note=("Trusted: numpy/decimal for exp, log, expm1; the least-squares decode (residual logged, worst 1e-10); leaf "
              "enclosures of ThermalIEEE (validated by sampling, not proven). Bounds: exhaustive model nq <= 2, nb <= 3, "
              "levels {-1,0,1,2}; finiteness claim for 2^-40 <= x <= 2^23, 1e-3 K <= T <= 1e4 K; replay tolerances 1e-10 "
              "(x >= 1e-3) to 1e-4 (x < 1e-6) relative; identities 1e-6..1e-2 N k_B."
              " Later additions: argument/flag histories (ThermalArgs.tla), q-count ladder up to 4097 q-points with a per-q-point weight coverage invariant (ThermalCoverage.tla), overflow classes of h nu/kT."),
        design="5/C10 and 11.2"),
    "C20": dict(
        text=("Eos.tla writes Vinet, Birch-Murnaghan and Murnaghan once, as expression trees in textbook form; TLC "
              "evaluates each tree to its exact rational 3-jet at V0 and checks E(V0)=E0, P(V0)=0, V E''=B0 and dB/dP=B0' "
              "for every rational parameter set. EosTrace evaluates the same clauses on the Taylor jet measured on "
              "phonopy's real get_eos() by a Cauchy integral and compares the real function pointwise with the interpreted "
              "tree. Qha.tla models PhonopyQHA/BulkModulus/QHA.run as a step machine over rational tables with the "
              "non-linear fit uninterpreted (Fit(row)=p iff the formal row cancels to Curve(p)) and unit factors as exponent "
              "vectors; TLC checks length and index safety for every (grid, t_max), per-temperature electronic rows, +PV "
              "with the SI-derived unit, recovery of V0/E0/B0, and the finite-difference stencils, over a TLC-enumerated "
              "grid family. Every input is realised as exact EOS curves, run through the real PhonopyQHA (real scipy fit, "
              "or stub = the specification's Fit), projected to rationals and judged by TLC in QhaTrace (14 Impl and 6 "
              "Conforms clauses); corrupted-event controls must be rejected on every run."),
        note=("Trusted: TLC; the harness tree interpreter (IEEE doubles); the Cauchy-integral jet measurement; projection "
              "onto the denominators of TLC's expected values; EV and Avogadro of units.py as base constants; "
              "monkeypatching core.fit_to_eos to observe rows; fit convergence assumed (0 failures in 4000 real fits). "
              "Bounds: B0' != 1; rational parameter grids; 1-8 temperatures (12 thorough); 5-11 volumes; shapes (V) and "
              "(T,V); six pressures."
              " Later additions: QhaSeq.tla (call sequences), QhaModel.tla, energy-offset invariance and fine temperature grids."),
        design="5/C20 and 11.2"),
    "C08": dict(
        text=("NAC.tla keeps Born charges and the dielectric tensor of the polar catalogue crystals in exact lattice "
              "components, symmetrises arbitrary integer raw tensors by the exact space group (group average plus acoustic "
              "sum rule) and defines K(n) = (n.Z_j)(n.Z_j')/(n.eps.n) as a rational matrix. TLC checks that K is homogeneous "
              "of degree 0, symmetric, obeys the acoustic sum rule and is covariant under the space group; that the Wang "
              "lattice sum is N at the zone centre (so 1/N cancels) and vanishes identically at every non-trivial "
              "commensurate q (a character sum of the translation group modulo the supercell, decided by shift-invariance "
              "of the phase histogram); and that zero or ASR-cancelled charges give K = 0. NACSwitch.tla fixes which "
              "correction each (q, direction, call route) must get. Every dumped state is replayed on the real code (Wang "
              "and Gonze-Lee, full and compact force constants, run_qpoints / DynamicalMatrixNAC.run / band-structure "
              "routes, three unit factors); projected observations (rational K entries for n and 7n, no-op flags, switch "
              "outcomes, phonopy's symmetrised tensors) are judged by TLC in NACTrace.tla and NACSwitch.tla."),
        note=("Trusted: TLC, numpy, the residual-checked projection of real matrices to rationals, phonopy's uncorrected "
              "matrix as reference (the property is relative to it). Bounds: 10 (quick) / 21 (thorough) configurations over "
              "nacl/naclg (F), wz, tetab, cscl, tric and a spec-only P4 crystal, |det S| <= 9. Gonze-Lee 'unchanged' is "
              "required at first-zone images of commensurate points only (truncated reciprocal sum is not periodic "
              "outside). Not exercised: GL at non-commensurate q against an independent Ewald sum, with_full_terms."
              " Later additions: memory layouts of the tensors handed in (NACLayout.tla), call histories (NACHistory.tla), the length of the direction n and of a tiny q as spec-side dimensions against Q_DIRECTION_TOLERANCE, non-reduced settings of the polar crystals; with_full_terms is a recorded known finding."),
        design="5/C08 and 11.2"),
    "C11": dict(
        text=("TLC decides, for every ordered 4-tuple of vertex frequencies on 4 (quick) / 5 (thorough) levels plus an "
              "irregular level set, every grid frequency and both weight functions, that the code's 24x4 closed forms, "
              "network sort and case split (Tetrahedron.tla, exact rationals in TetRat.tla) equal the definition of the "
              "linear tetrahedron weights, stated independently as geometric integrals (region {eps <= omega} cut into "
              "simplices, volumes as determinants, co-area formula for the density); and range [0,1/4] per vertex, sum over "
              "vertices = n(omega) / g(omega), monotonicity, continuity, J' = I. Every enumerated input is replayed on the "
              "compiled, the vectorised compiled and the Python kernel at 1e-13 and TLC judges their logged values "
              "(TetrahedronTrace). TetraMesh.tla checks the relative-address tables against the Kuhn-star contract for all "
              "four main diagonals, neighbour lookup through wrap-around and the mapping table, per-grid-point weights, "
              "tetrahedron_method_dos with projection coefficients and normalisation, on values logged from the real "
              "TetrahedronMesh. DosApi.tla judges API sessions on spring-model crystals (full and reduced meshes, "
              "tetrahedron and smearing, atom/xyz/direction projections): non-negativity, cumulative weight 3n at the top, "
              "density = derivative of cumulative weight, additivity of projections."),
        note=("Trusted: TLC, float->rational projection (limit_denominator, residual <= 1e-12), numpy realisation of the "
              "definition (validated against TLC's exact values). API level works on real-valued frequencies (binary64 "
              "comparisons judged by TLC as classes). Bounds: vertex values {0,2,4,6(,8)}, meshes <= 12 points, 6/13 "
              "crystals. Smearing normalisation is a quadrature statement (interpretation side)."
              " Later additions: memory layouts (TetrahedronLayoutTrace), the main-diagonal requirement (shortest diagonal of the microzone) judged on the tables TotalDos and ProjectedDos hand to the kernel, anisotropic meshes on non-standard bases."),
        design="5/C11 and 11.2"),
    "C12": dict(
        text=("GroupVelocity.tla builds the supercell and the shortest-vector sets by definition and the Wang term K(q) and "
              "dK/dq as exact rationals; TLC checks that the quotient rule transcribed from get_derivative_nac/_d_nac equals "
              "the derivative by definition, the Euler identity n.grad K = 0, reversal symmetry of the shortest-vector sets "
              "and the hypotheses. From the dumped data the harness assembles the lattice Fourier sum and its term-wise "
              "derivative and compares with phonopy's D(q), DerivativeOfDynamicalMatrix (compiled and Python, plain and "
              "Wang, full and compact) and the reported group velocities (as <e|dD|e> factor^2/2f, traces over degenerate "
              "sets, and against the 4th-order finite-difference gradient of the frequencies phonopy itself reports, in "
              "analytic, finite-difference and Gonze-Lee mode). GVDegeneracy.tla model-checks the degenerate-set and cutoff "
              "bookkeeping and judges recorded outputs. Gruneisen.tla gives the exact closed form for force constants "
              "scaling as (V/V0)^-k with unequal strains; it is replayed on mesh and band runs, incl. reduced vs full mesh."),
        note=("Trusted: TLC, numpy eigh/exp, the oracle's integer force constants. Bounds: unit cell = primitive cell, "
              "supercells keeping the point group, 9 crystals, 5-12 rational q per configuration incl. one outside the "
              "first cell; non-degenerate = gap > 5e-3 of bandwidth; Grueneisen exponents k = 1..4. Not exercised: group "
              "velocity at Gamma along a NAC direction."
              " Later additions: degenerate Grueneisen sets, non-hydrostatic and symmetry-lowering strain triples with the point group a reduced mesh may use (GruneisenMeshSym.tla), build x use_openmp cells for dD/dq and group velocities."),
        design="5/C12 and 11.2"),
    "C13": dict(
        text=("KernelsOMP.tla models every '#pragma omp parallel for' of c/ as threads claiming iterations and executing "
              "their memory accesses; the per-iteration access lists and sharing classes are regenerated on every run from "
              "clang's AST of /repo/c (private lists, loop-local and static declarations, assigned l-values, callee writes, "
              "concrete index arithmetic on small scenarios). TLC checks NoDataRace, NoConflictingIterations, "
              "ReadsFromSequential, NoUndefinedPrivateRead, ResultIndependentOfSchedule and NoOutOfBounds over all "
              "interleavings. KernelRuns.tla defines the run matrix (build x OMP_NUM_THREADS x repetition) and the contracts "
              "of the 19 exported kernels; every argument tuple recorded from the Python layer's own calls, as recorded and "
              "with randomised free data, is replayed at the phonopy._phonopy boundary on the omp, serial and ASan/UBSan "
              "builds, and TLC judges reference agreement, bitwise thread/repetition/flag independence, cross-build "
              "agreement, guard zones, const inputs, sanitizer reports and the glue's pointer-cast/dtype table. "
              "KernelExact.tla has TLC compute the exact integer result of transpose_compact_fc and distribute_fc2 from the "
              "definition, replayed on the real kernels."),
        note=("Trusted: TLC, clang's AST, numpy, the stand-in nanobind header, the reference transcriptions in "
              "harness/c13_refs.py. Bounds: race model with 2 (thorough 3) threads, one small scenario per site, abstract "
              "float data; kernels on 4 crystals, dense/sparse, full/compact, no/Wang/Gonze NAC; tolerances 1e-11 relative. "
              "Memory safety is monitored (guard zones, sanitizer build), not proved."
              " Later additions: flag-cell coverage invariant derived from the glue signatures, build-divergent preprocessor regions, reduction sharing class, near-tie inputs and the two-pass contract of the dense shortest-vector kernel."),
        design="5/C13 and 11.2"),
    "C01": dict(
        text=("DispAlgo/Displacements.tla transcribe phonopy's displacement-direction search; the requirement is stated "
              "from the definitions (the chosen directions together with all their site-symmetry images have rank 3; -d "
              "accompanies d exactly when no site operation sends d to -d). TLC checks it on every subgroup of O_h and "
              "D_6h in up to ten integer bases for all options; the real get_least_displacements is driven on every "
              "enumerated group, on the site symmetries of real Symmetry objects and on the crystals of the repository's "
              "tests, and TLC evaluates the requirement on the recorded outputs and checks they are the machine's "
              "(DisplacementsTrace). FiniteDifference.tla models a whole session in exact integer arithmetic on reference "
              "crystals that are harmonic and obey permutation, translational and space-group invariance (each a TLC "
              "invariant on the reference; pair springs plus three-body angle terms so that 3x3 blocks are non-symmetric): "
              "supercell space group as permutations, orbits, the solver's over-determined linear system over "
              "site-symmetry images, distribution by rotations and by translations, both layouts, with FCExact as the "
              "invariant. Real Phonopy sessions are fed forces F = -Phi u computed from that reference over plus/minus "
              "auto/on/off, diagonal on/off, with/without symmetry, full/compact, three distances, non-diagonal supercells, "
              "F/I primitive matrices, interleaved species; each produced array is projected to integers and compared by "
              "TLC with the reference (FiniteDifferenceTrace)."),
        note=("Trusted: TLC; spglib (its operations are compared with the specification's brute-force space group; a "
              "mismatch is specification drift); numpy for F = -Phi u and the projection (tolerance 1e-6 on integers, "
              "observed 2e-10). Bounded: 9 catalogue structures x 31 supercell matrices, <= 64 atoms; subgroups of O_h / "
              "D_6h in 10 bases. symfc/ALM, random-displacement datasets and magnetic cells are not covered."
              " Later additions: call histories on one object (DispHistory.tla: every handed-out displaced cell = supercell + the dataset's current displacement, forces taken from the handed-out cells), model scale and displacement distance as dimensions (homogeneity of the solver)."),
        design="5/C01 and 11.2"),
    "C02": dict(
        text=("DynMat.tla states the lattice Fourier sum of the infinite spring-model crystal (from Springs!AllTerms) and "
              "transcribes as a step machine (SetFC, SetMasses, MapElements, BuildRaw, MakeHermitian) the sum phonopy's "
              "kernels evaluate over supercell atoms with phases averaged over the stored shortest vectors; both are formal "
              "Fourier series with exact integer coefficient matrices. For each case (crystal, supercell matrix, primitive "
              "matrix, layout) TLC decides that at every commensurate q, for any interaction range, the two series have "
              "equal coefficients folded per class modulo the supercell lattice and equal values in the group ring Z[zeta_N]; "
              "and that in the short-range regime they are identical series (equal at every q). On tables recorded from "
              "real sessions (dense and sparse) TLC checks that every svecs set is exactly the set of all minimal-length "
              "images, congruent modulo the supercell lattice, with the stored multiplicity, and that p2s/s2p and masses are "
              "the ones the definitions give. The series TLC publishes is replayed on the compiled batch solver, compiled "
              "single-q DynamicalMatrix.run and the Python reference: full and compact arrays, dense and sparse svecs, all "
              "commensurate q, zone-boundary / generic / out-of-zone q, to 1e-10; frequencies and the unit factor too."),
        note=("Trusted: TLC, numpy exp/eigvalsh, projection of positions and svecs to integers (residual checked). Bounds: "
              "nine catalogue crystals (cubic, hexagonal, tetragonal, triclinic; F/I centring), 20 (quick) / 61 (thorough) "
              "supercell geometries up to 128 atoms incl. non-diagonal; equality at non-commensurate q is numerical."
              " Later additions: reporting route x option set x build as a replay dimension (run_qpoints with eigenvectors and dynamical matrices together, omp and serial)."),
        design="5/C02 and 11.2"),
    "C03": dict(
        text=("On the DynMat.tla machine TLC decides, for any force constants including non-symmetric integer arrays "
              "generated by the specification: Hermitian, TimeReversal in the group ring, GPeriodic (every support vector of "
              "block jj' is congruent to tau_j' - tau_j modulo the primitive lattice); for spring-model force constants: "
              "acoustic sum rule (with a vacuity guard), space-group covariance of the definition series under all of Aut "
              "and of the implementation series under the operations preserving the supercell lattice; and Scaling "
              "(fc -> s fc, m -> t m, with the masses setter's propagation to supercell and unit cell checked on logged "
              "values). Replay on the three kernels: D matches the series to 1e-10 for arbitrary arrays; Hermitian residual "
              "and D(-q) vs conj D(q) exactly 0; q+G phase relation and spectra at q+G and Rq to 1e-9 with R from "
              "primitive_symmetry.reciprocal_operations set-compared with the specification's reciprocal group; three zero "
              "eigenvalues at Gamma; scaling through Phonopy.masses and force_constants in both orders."),
        note=("Point-group invariance is claimed only for operations that preserve the supercell lattice (all operations in "
              "the short-range regime). Arbitrary arrays have entries -2..2 from a seeded generator (exhaustive enumeration "
              "infeasible). Same trusted base as C02."),
        design="5/C03 and 11.2"),
    "C09": dict(
        text=("MeshGrid.tla states C09 on exact integer data: a q-point of any mesh is X = q Q mod Q with Q = 2 sd m1 m2 m3 "
              "(all mesh numbers; zero, half and generic rational shifts; Monkhorst-Pack and Gamma-centred; explicit or "
              "length-specified meshes), reciprocal operations R^-T plus -1 for time reversal act on X exactly. Requirement: "
              "addresses label every grid point once; every grid point is the image of its representative under an allowed "
              "operation; ir points and weights are the classes and their sizes and the weights sum to N; the q-points handed "
              "out are the representatives'; mesh symmetry off means the unreduced mesh; orbit-invariant weighted sums agree; "
              "a length gives every axis the largest number of its symmetry class. TLC checks it on a step machine "
              "transcribing init_mesh -> MeshBase -> GridPoints and length2mesh with exact point groups TLC computes for the "
              "reference crystals (incl. hexagonal and primitive cells of centred lattices and two-generator subgroups); the "
              "machine's final states are replayed on the real code and must match exactly; in MeshGridTrace.tla the "
              "recorded grid_address, grid_mapping_table, ir_grid_points, weights and q-points of real GridPoints and "
              "Phonopy.init_mesh calls are judged. On spring-model crystals thermal properties, smearing DOS and moments with "
              "mesh symmetry on and off agree to 1e-9."),
        note=("Trusted: TLC and the projection (q Q rounding, residual < 1e-6). spglib is under test, not trusted. phonopy "
              "evaluates eigenvalues and thermal functions on both sides of the on/off comparison. Bounds: mesh numbers 1..4 "
              "with N <= 64 (quick), 1..5 with N <= 80 (thorough); shift denominators 1,2,3,4,5,8; subgroups sampled. "
              "IterMesh and GeneralizedRegularGridPoints are not covered; no Apalache proof."
              " Later additions: selected on/off sums (MeshGroups.tla), length meshes through init_mesh for both is_mesh_symmetry values on strained cells with spec-chosen boundary lengths, handed-out q-points required to be shortest images (first zone), Wang-NAC on/off comparison on a hexagonal polar crystal."),
        design="5/C09 and 11.2"),
    "C16": dict(
        text=("SaveLoad.tla models save() then load() as a step machine with one action per step of the code; each loaded "
              "field carries a source token (saved yaml, ambient FORCE_SETS / FORCE_CONSTANTS / force_constants.hdf5 / BORN, "
              "file arguments, nac_params, unitcell, or 'produced'). Requirement invariants from the property and the "
              "documentation of save(): what was asked to be written comes back with the same dataset type, forces, energies, "
              "force-constant layout up to the requested conversion, NAC method and factor, calculator with its default units; "
              "reloaded force constants derive from the saved file only; ambient files never replace saved data; loading never "
              "fails on a written file. TLC checks this exhaustively over object variants x settings x compression x arguments "
              "x ambient files, and in SaveLoadTrace evaluates the same requirement on every real save+load (crystals with "
              "extended symbols, magnetic moments, custom masses, generic lattices, large/small values; each candidate source "
              "carries different numbers and the harness classifies the reloaded field against them; the logged outcome must "
              "equal the machine's). TextCodec.tla states the printf format of every numeric line kind and the reader's "
              "tokenisation; TLC checks that written lines read back to the values rounded to the written decimals over "
              "1e-9..1.2e6 and checks the real files character by character. DatasetConv.tla decides that type-1 to type-2 "
              "conversion is lossless and hdf5 an exact container; BornCodec.tla decides that BORN storage plus symmetry "
              "expansion is the identity on equivariant tensor fields."),
        note=("Trusted: TLC/SANY, numpy, PyYAML's node line marks, the harness projection (sources identified by nearest "
              "content; error classes 0.5 unit of the last written decimal + 2 ulp). Bounds: four small crystals plus a P4 "
              "cell; calculators none/qe/vasp; no symfc (type-2 datasets cannot produce force constants). Recorded "
              "deviations not counted against C16: load docstring priority order differs from the code (D16); one NAC tensor "
              "written alone is not loadable."
              " Later additions: YamlCompat.tla (older file layouts), masses assigned after construction, calculator resolution, settings-dictionary x dataset-state matrix; options not recorded by save() (use_SNF_supercell, symprec) are a recorded known finding."),
        design="5/C16 and 11.2"),
    "C18": dict(
        text=("C18 is decided on two TLA+ models bound to the real front end. CLI.tla runs over the generated table "
              "CLITable.tla (all 111 configuration keys of settings.py as 107 rows with 194 example values, 115 "
              "parameter-to-settings rules, defaults of both commands) and models how tags and options become the settings "
              "object, with the requirements RoutesEquivalent (file = option, every option spelling, explicit zeros), "
              "OptionOverridesTag and MixedIndependent; every tag x value, every override pair and pairs of tags are driven "
              "through the real PhonopyConfParser by file, by option and split between the two, and TLC (CLITrace) judges the "
              "logged settings and compares them with the step machine. CLIWorkflow.tla models phonopy_script.main for "
              "'phonopy' and 'phonopy-load': inputs present -> library calls -> files written, with WorkflowPreconditions, "
              "OutputsComputed, CommandDefaults and ModePrecedence; the real commands run the workflow (-d, -f/--fz, "
              "mesh/band/qpoints/DOS/PDOS/thermal properties/displacements, writefc/readfc/NAC/conf files/summary) for three "
              "catalogue crystals with exact spring-model forces x vasp/qe/abinit; the machine's calls are replayed on the "
              "library and every written file is compared at its printed precision; the summary is reloaded with "
              "phonopy.load. TLC (CLIWorkflowTrace) judges status, file set, verdicts and the fc-solver decision."),
        note=("Trusted: harness/c18_table.py (hand-written from doc/setting-tags.md, doc/command-options.md and the argparse "
              "help; drift against docs, argparse and settings defaults checked on every run); own emitters for "
              "POSCAR/QE/ABINIT inputs and outputs; yaml/h5py readers. Bounds: configurations of at most two tags; 3 of 16 "
              "calculators; symfc, alm, seekpath, pypolymlp absent (phonopy-load's default solver checked at the decision "
              "level). Plotting, --symmetry, anime/modulation/irreps execution not compared."
              " Later additions: mesh modifiers (GAMMA_CENTER, MP_SHIFT, MESH_SYMMETRY, even/odd, frequency windows) crossed with every mesh-consuming run mode with a TLC-decided vacuity invariant; tdispmat.cif, moments and projected thermal properties compared."),
        design="5/C18 and 11.2"),
    "C07": dict(
        text=("SymOps/Symmetrize.tla transcribe every step of phonopy's force-constant symmetrisers as transformations of "
              "exact rational arrays: the full and compact C kernels with the done flags and the self-pair special case, the "
              "Python fall-back, compact_fc_to_full_fc / full_fc_to_compact_fc, get_nsym_list_and_s2pp, "
              "set_tensor_symmetry_PJ, the transposition kernel and the drift display. The requirement is stated from the "
              "definitions (translational invariance, index-permutation symmetry, periodicity, space-group invariance, the "
              "array a compact array stands for, the transposed array). TLC checks on abstract tori (1-3 atoms, 1-8 cells, "
              "even multiplicities with Z2, Z4, Z2^2, Z2^3) that symmetric input is fixed, the invariances are imposed, a "
              "second application changes nothing, compact equals full on the expanded array, transposition is "
              "transposition, and full->compact->full and compact->full->compact are identities - exhaustively over all "
              "small arrays for 1-D and 2-D tensors and completely by linearity for the other systems. The same invariants are "
              "evaluated by TLC on the exactly projected results of thousands of real calls (Phonopy API and module "
              "functions, levels 1-3, 18 real crystals incl. primitive_matrix F and I) with the tables recorded from the real "
              "Primitive and validated as a free commutative group action; real results must equal the step machine's. "
              "Histories of API calls are model-checked against a full-layout twin (SymSession.tla) and TLC-generated "
              "histories are replayed on a real Phonopy object with exact comparison after every call."),
        note=("Trusted: TLC, numpy, the rounding of real outputs to rationals with denominator 2(2 ns^2)^level (residual <= "
              "1e-9 enforced, observed 2e-15; bit-exact for power-of-two supercell sizes). Bounds: ns <= 8, integer inputs "
              "-2..2 and unit arrays; levels limited per system size to stay within TLC's 32-bit integers; space-group routes "
              "on axis-aligned cubic/tetragonal lattices only; the step from basis cases to all arrays relies on linearity."
              " Later additions: process histories (SymProcess.tla), a size ladder of 64-700 atoms in two thread modes (SymLarge.tla: whole-array facts as residual classes, sampled entries exact)."),
        design="5/C07 and 11.2"),
    "C15": dict(
        text=("ApiHistory.tla models one Phonopy object, the arrays its caller holds and one copy(), with one action per "
              "public state-changing operation (force_constants=, nac_params= (Wang / Gonze-Lee / None), masses=, "
              "symmetrize_force_constants, symmetrize_force_constants_by_space_group, set_force_constants_zero_with_radius, "
              "dataset= (type 1/2), displacements=, forces=, produce_force_constants (full/compact), "
              "supercells_with_displacements, copy(), getters), 8 query kinds and the caller's own actions (mutate or drop a "
              "held array, act on the copy). The mechanism side transcribes _set_dynamical_matrix, the group-velocity "
              "rebuild, the lazily built short-range force constants and the displaced-supercells cache; the requirement "
              "side states what a freshly constructed object given the current structure, force constants, NAC parameters "
              "and masses answers (FreshEquivalent, Coherent, DmExists, MassesConsistent, ScdCoherent, CopyIndependent, "
              "NoInput/OutputAlias, NoInput/OutputMutation, EnvFrame). Contents are abstracted by provenance (cur/old), which "
              "makes the state space finite: TLC checks the requirement exhaustively for histories of ANY length, and every "
              "seeded mechanism defect (13 'Forget' classes) is shown to be caught. Random histories (<= 30 calls), TLC "
              "-simulate behaviours replayed on the real API, a scripted census of every hand-in/hand-out point and the "
              "repository's own tests under a tracing plugin are recorded and validated by TLC against ApiHistoryTrace "
              "(every query compared against a fresh object for all three dynamical-matrix classes and both layouts). The "
              "documented no-copy aliasing (D15) is decided by TLC too and reported under 13 'alias:' keys listed in "
              "known_findings.json; aliasing anywhere else, or any staleness, is a violation."),
        note=("Trusted: TLC; the projection (content hashes, object identity, np.shares_memory, tolerance match of "
              "Born/dielectric, first-sighting attribution of the short-range constants' provenance); numpy. Bounds: <= 1 "
              "(quick) / 3 (thorough) live caller handles in the exhaustive runs; 4 crystals; finite-difference solver only; "
              "is_symmetry=True. Not modelled: IterMesh/init_mesh result snapshots, dataset=None, ph2ph."
              " Later additions: result holders, the caller's nac_params dict with raw (non-symmetric) Born charges and a second object sharing it, tolerance margins decided by TLC instead of a self-check."),
        design="5/C15 and 11.2"),
}

NOT_BUILT = "check under construction in this round; not yet claimed"


def main():
    props = [json.loads(l) for l in open(os.path.join(VERIF, "properties.jsonl"))]
    checks = []
    na = []
    for p in props:
        pid = p["id"]
        c = CHECKS.get(pid)
        if not c:
            na.append(dict(property_id=pid, reason=NOT_BUILT))
            continue
        checks.append(dict(
            property_id=pid,
            quick_cmd="./check %s --tier quick" % pid,
            thorough_cmd="./check %s --tier thorough" % pid,
            evidence_file="evidence/%s.json" % pid,
            replay_cmd_template="./check %s --replay {path}" % pid,
            engine="tlc",
            level_claimed=dict(category="model_checking", text=c["text"], design_ref="DESIGN.md section " + c["design"]),
            level_note=c["note"],
            technique=c.get("technique", TECH),
        ))
    m = dict(
        version=1,
        setup_cmd="./check --setup",
        hooks=dict(
            guard="PHONOPY_VERIF",
            enable=("no source hooks: instrumentation is harness-side (wrappers installed by harness/ when "
                    "PHONOPY_VERIF=1); checks import /repo's Python sources in place and build c/ with "
                    "harness/build_ext.py"),
            baseline_off_cmd="cd /verif && /venv/bin/python -m harness.baseline",
            source_commits=[],
            add_only=True,
        ),
        engines=[dict(name="tlc", path="/opt/veriftools/tla/tla2tools.jar",
                      serves_properties=[c["property_id"] for c in checks],
                      kind_free_text="TLC 1.8 explicit-state model checker on /verif/spec/*.tla; harness/ replays/validates against /repo")],
        checks=checks,
        notes="See DESIGN.md (section 11 describes the tree as built). known_findings.json lists recorded findings (C15 documented no-copy aliasing, C08 Gonze-Lee with_full_terms, C16 constructor options not recorded by save(), and findings of the extra checks X03, X05, X06, X08) and every repaired defect ('fixed:' entries, one per 'fix:' commit in /repo); seeded/ holds the seeded changes and seeded/RESULTS.json which check detects which. Every check runs in a child process; death of that process by SIGSEGV/SIGABRT/SIGBUS/SIGFPE/SIGILL while driving the implementation is reported as a violation. Extra checks beyond the fixed property list (same interface, ./check X01..X10): X01 generalized grids / IterMesh protocol / Brillouin-zone relocation, X02 unfolding and modulation, X03 dynamic structure factor and moments, X04 irreducible representations and character tables, X05 the Symmetry class, X06 cell utilities and PhonopyAtoms, X07 band paths and band-structure bookkeeping incl. phonopy-bandplot, X08 electronic free energy and phonopy-vasp-efe, X09 resolution of the input cell and cell-related settings by the command-line front end, X10 force-constant utilities (cut-off radius, drift, rearrangement) (DESIGN.md 11.6).",
        not_applicable=na,
    )
    with open(os.path.join(VERIF, "MANIFEST.json"), "w") as f:
        json.dump(m, f, indent=1)
    print("MANIFEST.json: %d checks, %d not_applicable" % (len(checks), len(na)))


if __name__ == "__main__":
    main()
