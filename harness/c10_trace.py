"""C10: configurations of spec/Thermal.tla, their runs on the real code, the projection of a real run
to the integer signatures of spec/ThermalTrace.tla, and the numeric replay against ReqRecord."""
from __future__ import annotations

import re

import numpy as np

from . import c10_num as N
from . import tla_values

TEMP_LISTS = [[0, 1], [-1, 0, 1], [1], [0], [1, 0], [0, -1, 1, 0], [-1, 1], [1, -1, 0], [-1, 0],
              [1, 0, 1], [0, 0, 1, 1], [1, 1], [-1, -1], []]


def random_config(rng, cid, small=False):
    nq = int(rng.integers(1, 4))
    nb = int(rng.integers(1, 4))
    lev = rng.integers(-N.NLEV, N.NLEV + 1, size=(nq, nb))
    if rng.random() < 0.5:
        lev = np.sort(lev, axis=1)
    w = [int(x) for x in rng.integers(1, 5, size=nq)]
    r = rng.random()
    if r < 0.25:
        cutGiven, cut = False, 0
    elif r < 0.35:
        cutGiven, cut = True, -1
    else:
        cutGiven, cut = True, int(rng.integers(0, N.NLEV + 1))
    if rng.random() < 0.5:
        biGiven, bi = False, []
    else:
        k = int(rng.integers(1, nb + 1))
        biGiven, bi = True, [int(b) + 1 for b in rng.permutation(nb)[:k]]
        if rng.random() < 0.35:           # a band listed twice, anywhere in the list
            bi.insert(int(rng.integers(0, len(bi) + 1)), bi[int(rng.integers(0, len(bi)))])
    ed = nb + 1
    e2 = []
    for q in range(nq):
        kind = int(rng.integers(0, 3))
        if kind == 0:
            m = np.eye(nb, dtype=int) * ed
        elif kind == 1:
            m = np.ones((nb, nb), dtype=int) + np.eye(nb, dtype=int)
        else:
            m = np.roll(np.eye(nb, dtype=int) * ed, 1, axis=0)
        e2.append(m.tolist())
    return dict(id=cid, lev=lev.tolist(), w=w, cutGiven=cutGiven, cut=cut, pr=bool(rng.random() < 0.4),
                biGiven=biGiven, bi=bi, classical=bool(rng.random() < 0.3), proj=bool(rng.random() < 0.4),
                temps=list(TEMP_LISTS[int(rng.integers(0, len(TEMP_LISTS)))]), ed=ed, e2=e2,
                fl=str(rng.choice(["c", "c", "f", "strided", "float32"])), el=str(rng.choice(["c", "f", "strided"])),
                wl=str(rng.choice(["int64"] * 7 + ["uint64", "intc", "strided"])))


# ---- projection of a real run -------------------------------------------------
def _sig_from(d, classical):
    if classical:
        return dict(coef=[0] * N.NLEV, z=0, n=int(d.get("n", 0)), m=int(d.get("m", 0)))
    return dict(coef=[int(c) for c in d.get("coef", [0] * N.NLEV)], z=int(d.get("z", 0)), n=0, m=0)


def _abstract_temps(real, out_T):
    """Map the returned temperature array back to the abstract entries of cfg.temps."""
    kept = [(T, lv) for T, lv in zip(real.T, real.tlevel) if not (T < 0)]
    if len(out_T) != len(kept) or any(float(a) != float(b[0]) for a, b in zip(out_T, kept)):
        return None, None
    seq = []
    idx = []      # abstract row index (0-based) for every returned temperature
    last = None
    for T, lv in kept:
        if lv != last:
            seq.append(real.cfg["temps"][lv - 1])
            last = lv
        idx.append(len(seq) - 1)
    return seq, idx


def project_run(real, o):
    """Real run (c10_num.run_real output) -> logged record of ThermalTrace.tla."""
    cfg = real.cfg
    if o["status"] != "ok":
        return dict(status="error"), dict(err=o.get("err"))
    cl = cfg["classical"]
    wsum = sum(cfg["w"])
    temps, idx = _abstract_temps(real, o["T"])
    diag = {}
    if temps is None:
        temps = [-99]
        idx = [0] * len(o["T"])
    T = np.asarray(o["T"], dtype=float)
    comp_shape = np.asarray(o["F"]).ndim == 2
    den = 2 if comp_shape else 1
    scale = cfg["ed"] if comp_shape else 1

    def tot(Q):
        a = np.asarray(o[Q], dtype=float)
        return a.sum(axis=1) * scale if comp_shape else a

    pos_mask = T > 0
    zero_mask = T == 0
    finite = True
    pos = dict(present=bool(pos_mask.any()), exact=True, F=_sig_from({}, cl), S=_sig_from({}, cl), Cv=_sig_from({}, cl))
    if pos["present"]:
        for Q in ("F", "S", "Cv"):
            d = N.decode_series(T[pos_mask], tot(Q)[pos_mask], Q, cl, wsum)
            pos[Q] = _sig_from(d, cl)
            pos["exact"] = pos["exact"] and d["exact"]
            finite = finite and d["finite"]
            diag["pos_" + Q] = (d["dist"], d["rel"])
    zero = dict(present=bool(zero_mask.any()), exact=True, z=0, sZero=True, cvZero=True)
    if zero["present"]:
        f0 = tot("F")[zero_mask]
        z, ex = N.decode_const(float(f0[0]), wsum)
        zero["z"] = z
        zero["exact"] = bool(ex and np.all(f0 == f0[0]))
        zero["sZero"] = bool(np.all(tot("S")[zero_mask] == 0.0))
        zero["cvZero"] = bool(np.all(tot("Cv")[zero_mask] == 0.0))
        finite = finite and bool(np.all(np.isfinite(f0)))
    zz, zex = N.decode_const(o["zpe"], wsum)
    rec = dict(status="ok", temps=temps, den=den, finite=bool(finite), pos=pos, zero=zero,
               zpe=dict(z=zz, exact=zex), nmodes=o["nmodes"], nint=o["nint"])
    if o["proj"] is None:
        rec["proj"] = dict(status="none")
    else:
        p = o["proj"]
        comps = []
        nb = len(cfg["lev"][0])
        p = {k: (np.asarray(v, dtype=float).reshape(-1, nb) if k != "T" else v) for k, v in p.items()}
        for k in range(nb):
            c = dict(present=pos["present"], exact=True, F=_sig_from({}, cl), S=_sig_from({}, cl), Cv=_sig_from({}, cl), z0=0)
            if pos["present"]:
                for Q in ("F", "S", "Cv"):
                    d = N.decode_series(T[pos_mask], np.asarray(p[Q])[pos_mask][:, k] * cfg["ed"], Q, cl, wsum)
                    c[Q] = _sig_from(d, cl)
                    c["exact"] = c["exact"] and d["exact"]
                    rec["finite"] = rec["finite"] and d["finite"]
            if zero["present"]:
                z0, ex0 = N.decode_const(float(np.asarray(p["F"])[zero_mask][0, k]) * cfg["ed"], wsum)
                c["z0"] = z0
                c["exact"] = c["exact"] and ex0
            comps.append(c)
        rec["proj"] = dict(status="ok", comps=comps)
    return rec, diag


# ---- numeric replay against ReqRecord ------------------------------------------
def natural_scale(kind, T):
    """Per-mode scale below which a difference is rounding noise: k_B (per K) or k_B T."""
    if kind in ("S", "Cv", "Scl", "Cvcl"):
        return N.KB
    if kind in ("Fth", "Fcl"):
        return N.KB * max(T, 0.0)
    return 0.0


def expected_value(bag, nu_of_level, T, k=None):
    tot = 0.0
    mag = 0.0
    xs = []
    for t in bag:
        if k is not None and t["k"] != k:
            continue
        nu = nu_of_level(t["lev"])
        v = float(N.prim(t["kind"], nu, T if T > 0 else 1.0))
        tot += t["c"] * v
        mag += abs(t["c"]) * max(abs(v), natural_scale(t["kind"], T))
        if T > 0 and t["kind"] != "ZPE":
            xs.append(N.x_of(nu, T))
    return tot, mag, xs


class ReplayStats:
    def __init__(self):
        self.max_margin = {}   # class -> worst observed error / tolerance
        self.n = 0

    def note(self, cls, ratio):
        self.n += 1
        if ratio > self.max_margin.get(cls, 0.0):
            self.max_margin[cls] = ratio


def compare_series(req_rows, real, o_T, series, Q, den, stats, k=None):
    """Compare one reported series with the interpretation of the required bags.
    Returns list of mismatches (dicts)."""
    out = []
    temps, idx = _abstract_temps(real, o_T)
    if temps is None:
        return [dict(kind="temperatures", got=[float(x) for x in o_T])]
    for j, T in enumerate(o_T):
        row = req_rows[idx[j]]
        bag = row[Q]
        exp, mag, xs = expected_value(bag, real.nu_of_level, float(T), k=k)
        unit = N.UNIT[Q] / (row["div"] * den)
        exp *= unit
        mag *= unit
        got = float(series[j])
        tol = N.tol_for(xs)
        cls = max((N.x_class(x) for x in xs), key=lambda c: N.TOL[c], default="normal")
        if not np.isfinite(got):
            out.append(dict(kind="nonfinite", Q=Q, T=float(T), got=repr(got), expected=exp, k=k,
                            xmax=max(xs) if xs else None))
            continue
        err = abs(got - exp)
        bound = tol * mag + 1e-300
        stats.note(cls, err / bound if bound > 0 else 0.0)
        if err > bound and not (mag == 0.0 and got == 0.0):
            out.append(dict(kind="value", Q=Q, T=float(T), got=got, expected=exp, err=err, tol=bound, k=k, xclass=cls))
    return out


# ---- reading the dump -----------------------------------------------------------
_CONJ = re.compile(r"^/\\ ([A-Za-z_][A-Za-z0-9_]*) = ", re.M)
_HDR = re.compile(r"^State (\d+):[^\n]*$", re.M)


def done_states(path, want=("cfg", "req")):
    """Variables `want` of the states with pc = "done" in a TLC dump."""
    with open(path) as f:
        text = f.read()
    hs = list(_HDR.finditer(text))
    res = []
    for i, h in enumerate(hs):
        end = hs[i + 1].start() if i + 1 < len(hs) else len(text)
        body = text[h.end():end]
        if '/\\ pc = "done"' not in body or ("/\\ chk_ = " in body and "/\\ chk_ = 0" not in body):
            continue
        ms = list(_CONJ.finditer(body))
        st = {}
        for a, m in enumerate(ms):
            if m.group(1) in want:
                e = ms[a + 1].start() if a + 1 < len(ms) else len(body)
                st[m.group(1)] = tla_values.parse_value(body[m.end():e])
        res.append(st)
    return res


def bag_list(b):
    return [dict(t) if isinstance(t, dict) else dict(t) for t in b]
