"""C14 query histories: replays the histories TLC enumerated for spec/QueryHistory.tla on ONE freshly
constructed Phonopy object each, and compares every array of every query with the same query on
another fresh object; classifies group velocities / Gamma-point frequencies by the direction index
they are numerically equal to (projection to the specification's gvp / fdir sets).

Run as a sub-process, one per build variant:
    VERIF_EXT_VARIANT=omp|serial python -m harness.c14_history plan.json out.json
"""
from __future__ import annotations

import contextlib
import io
import json
import sys
import time
import warnings

from harness import bootstrap  # noqa: F401

import numpy as np  # noqa: E402

warnings.simplefilter("ignore")

from phonopy import Phonopy  # noqa: E402
import phonopy._phonopy as phonoc  # noqa: E402
from phonopy.phonon.group_velocity import GroupVelocity  # noqa: E402

from harness.c14_driver import World, freq_to_lambda, factor_value, TOL_L, TOL_GV  # noqa: E402

# one direction per position in the history
DIRS = {1: np.array([0.9, 0.3, -0.2]), 2: np.array([-0.2, 0.5, 0.8]), 3: np.array([0.4, -0.7, 0.3])}
QSTAR = np.array([0.25, 0.25, 0.25])          # CsCl Lambda line: doubly degenerate bands whose individual group velocities depend on the basis chosen in the degenerate set (differences 7.6-9.2 between the default and the three directions)
QLIST = [QSTAR, np.zeros(3), np.array([0.1, 0.2, 0.3])]
MESH = [4, 4, 4]
PATH = [np.zeros(3), np.array([0.125, 0.125, 0.125]), QSTAR]       # radial: q_direction = path[0] - path[-1]


class HWorld(World):
    def fresh(self, nac, fac="vasp"):
        with contextlib.redirect_stdout(io.StringIO()):
            ph = Phonopy(self.cell, supercell_matrix=self.S, primitive_matrix=np.eye(3), log_level=0,
                         factor=factor_value(fac))
            if self.fc is None:
                self.fc = self.sign * self.orc.supercell_fc(self.S, ph.supercell)
            ph.force_constants = self.fc.copy()
            if nac != "none":
                ph.nac_params = dict(born=self.born.copy(), dielectric=self.eps.copy(), factor=14.4,
                                     method=("wang" if nac == "wang" else "gonze"))
        return ph

    def gv_dir(self, nac, q, pert, fac="vasp"):
        """group velocities of a fresh GroupVelocity object (on a reference object's dynamical matrix)"""
        key = ("HGV", nac, fac, tuple(np.round(q, 12)), None if pert is None else tuple(pert))
        if key not in self._cache:
            ph = self.phonopy(nac, False, ref=True, fac=fac)
            gvo = GroupVelocity(ph.dynamical_matrix, q_length=None, symmetry=ph.primitive_symmetry,
                                frequency_factor_to_THz=ph.unit_conversion_factor)
            gvo.run([np.array(q, dtype=float)], perturbation=pert)
            self._cache[key] = np.array(gvo.group_velocities[0]).copy()
        return self._cache[key]

    def lam(self, nac, q, nt, dirvec):
        key = ("HL", nac, tuple(np.round(q, 12)), nt, None if dirvec is None else tuple(np.round(dirvec, 12)))
        if key not in self._cache:
            self._cache[key] = np.linalg.eigvalsh(self.dref(nac, q, nt, dirvec))
        return self._cache[key]


def do_query(ph, qu, k):
    """-> dict(q=[...], freq=[...] or None, gv=[...] or None)"""
    kind = qu["kind"]
    with contextlib.redirect_stdout(io.StringIO()):
        if kind == "qpoints":
            ph.run_qpoints(np.array(QLIST), with_group_velocities=qu["gv"],
                           nac_q_direction=(DIRS[k] if qu["dir"] else None))
            d = ph.get_qpoints_dict()
            return dict(q=QLIST, freq=np.array(d["frequencies"]), gv=None if d["group_velocities"] is None else np.array(d["group_velocities"]))
        if kind == "mesh":
            ph.run_mesh(MESH, with_group_velocities=qu["gv"], is_gamma_center=True)
            d = ph.get_mesh_dict()
            return dict(q=[np.array(q) for q in d["qpoints"]], freq=np.array(d["frequencies"]),
                        gv=None if d["group_velocities"] is None else np.array(d["group_velocities"]))
        if kind == "band":
            ph.run_band_structure([np.array(PATH)], with_group_velocities=qu["gv"])
            d = ph.get_band_structure_dict()
            return dict(q=PATH, freq=np.array(d["frequencies"][0]),
                        gv=None if d["group_velocities"] is None else np.array(d["group_velocities"][0]))
        if kind == "gvq":
            return dict(q=[QSTAR], freq=None, gv=np.array([ph.get_group_velocity_at_q(QSTAR)]))
        if kind == "direct":
            f, _ = ph.get_frequencies_with_eigenvectors(QSTAR)
            return dict(q=[QSTAR], freq=np.array([f]), gv=None)
    raise ValueError(kind)


def same(a, b, factor):
    if (a["freq"] is None) != (b["freq"] is None) or (a["gv"] is None) != (b["gv"] is None):
        return False
    if len(a["q"]) != len(b["q"]) or any(np.abs(x - y).max() > 1e-12 for x, y in zip(a["q"], b["q"])):
        return False
    ok = True
    if a["freq"] is not None:
        la, lb = freq_to_lambda(a["freq"], factor), freq_to_lambda(b["freq"], factor)
        ok &= la.shape == lb.shape and bool(np.abs(la - lb).max() / max(1.0, np.abs(lb).max()) < TOL_L)
    if a["gv"] is not None:
        ok &= a["gv"].shape == b["gv"].shape and bool(np.abs(a["gv"] - b["gv"]).max() / max(1.0, np.abs(b["gv"]).max()) < TOL_GV)
    return bool(ok)


def dir_of(hist, j):
    """direction vector query j puts into the NAC term at Gamma (None: it has none)"""
    qu = hist[j - 1]
    if qu["kind"] == "qpoints" and qu["dir"]:
        return DIRS[j]
    if qu["kind"] == "band":
        return PATH[0] - PATH[-1]
    return None


def run_history(w, nac, hist, evid, fresh_cache, fac="vasp"):
    ph = w.fresh(nac, fac)
    factor = ph.unit_conversion_factor
    obs = []
    kept = {}
    for k, qu in enumerate(hist, start=1):
        try:
            r = do_query(ph, qu, k)
        except Exception as ex:  # noqa: BLE001
            obs.append(dict(gvp=[-9], fdir=[-9], fresh=False, exc=repr(ex)[:200]))
            continue
        kept[k] = r
        fkey = (nac, fac, json.dumps(qu, sort_keys=True), k if qu["dir"] else 0)
        if fkey not in fresh_cache:
            fresh_cache[fkey] = do_query(w.fresh(nac, fac), qu, k)
        o = dict(fresh=same(r, fresh_cache[fkey], factor))
        # group velocities: which stored direction are they computed with
        if r["gv"] is None:
            o["gvp"] = [-1]
        else:
            cands = [(0, None)] + [(j, DIRS[j]) for j in range(1, k + 1) if hist[j - 1]["kind"] == "qpoints" and hist[j - 1]["dir"]]
            o["gvp"] = []
            for p, vec in cands:
                if all(np.abs(r["gv"][i] - w.gv_dir(nac, q, vec, fac)).max() / max(1.0, np.abs(r["gv"][i]).max()) < TOL_GV
                       for i, q in enumerate(r["q"])):
                    o["gvp"].append(p)
        # frequencies: which direction enters the non-analytical term at Gamma
        if r["freq"] is None:
            o["fdir"] = [-1]
        else:
            lam_out = freq_to_lambda(r["freq"], factor)
            cands = [(0, None)] + [(j, dir_of(hist, j)) for j in range(1, k + 1) if dir_of(hist, j) is not None]
            o["fdir"] = []
            for f, vec in cands:
                good = True
                for i, q in enumerate(r["q"]):
                    if np.abs(q).max() < 1e-9:
                        ref = w.lam(nac, q, "dir" if (vec is not None and nac != "none") else "none", vec if nac != "none" else None)
                    else:
                        ref = w.lam(nac, q, "q" if nac != "none" else "none", None)
                    good &= bool(np.abs(lam_out[i] - ref).max() / max(1.0, np.abs(ref).max()) < TOL_L)
                if good:
                    o["fdir"].append(f)
        obs.append(o)
    # the holders at the end: still the arrays of the last query of their kind
    rr = {}
    for name, kind, getter in (("qp", "qpoints", "get_qpoints_dict"), ("mesh", "mesh", "get_mesh_dict"), ("band", "band", "get_band_structure_dict")):
        last = max([j for j, qu in enumerate(hist, start=1) if qu["kind"] == kind], default=0)
        try:
            d = getattr(ph, getter)()
        except Exception:  # noqa: BLE001
            rr[name] = 0
            continue
        if last == 0 or last not in kept:
            rr[name] = -2
            continue
        fr = np.array(d["frequencies"][0] if kind == "band" else d["frequencies"])
        g = d["group_velocities"]
        if g is not None:
            g = np.array(g[0] if kind == "band" else g)
        ok = np.array_equal(fr, kept[last]["freq"]) and ((g is None) == (kept[last]["gv"] is None)) and \
            (g is None or np.array_equal(g, kept[last]["gv"]))
        rr[name] = last if ok else -2
    return dict(id=evid, entry=w.entry, nac=nac, fac=fac, hist=hist, obs=obs, reread=rr)


def main(argv):
    plan_path, out_path = argv
    with open(plan_path) as f:
        plan = json.load(f)
    omp = bool(phonoc.use_openmp())
    t0 = time.time()
    worlds, fresh = {}, {}
    events = []
    evid = plan["id_base"]
    for item in plan["cases"]:
        en = item["entry"]
        if en not in worlds:
            worlds[en] = HWorld(en, plan["seed"])
            fresh[en] = {}
        evid += 1
        events.append(run_history(worlds[en], item["nac"], item["hist"], evid, fresh[en], item.get("fac", "vasp")))
    with open(out_path, "w") as f:
        json.dump(dict(omp=omp, events=events, wall=time.time() - t0), f)


if __name__ == "__main__":
    main(sys.argv[1:])
