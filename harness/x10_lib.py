"""X10 helpers: realise integer crystals as Phonopy objects, project real cells to the integers of the
specification, run the real force-constant utilities and log what they did.

Nothing here decides a property: the events go to TLC (spec/FCCutoff.tla, FCDrift.tla, FCRearrange.tla)."""
from __future__ import annotations

import contextlib
import io
import itertools
import re

import numpy as np

from harness import xtal
from harness.oracle import adj3, class_key, det3

ID3 = [[1, 0, 0], [0, 1, 0], [0, 0, 1]]
PMATS = {
    "P": ID3,
    "F": [[0, 0.5, 0.5], [0.5, 0, 0.5], [0.5, 0.5, 0]],
    "I": [[-0.5, 0.5, 0.5], [0.5, -0.5, 0.5], [0.5, 0.5, -0.5]],
}


@contextlib.contextmanager
def quiet_fd2():
    import os
    import sys

    sys.stderr.flush()
    saved = os.dup(2)
    null = os.open(os.devnull, os.O_WRONLY)
    try:
        os.dup2(null, 2)
        yield
    finally:
        os.dup2(saved, 2)
        os.close(null)
        os.close(saved)


def build(orc, S, pm="P", dense=True, noise=None, log_level=0):
    """Phonopy object of the oracle crystal; noise = (rng, amplitude) perturbs the scaled positions far below symprec."""
    from phonopy import Phonopy

    cell = orc.unitcell()
    if noise is not None:
        rng, amp = noise
        cell.scaled_positions = cell.scaled_positions + rng.uniform(-amp, amp, size=cell.scaled_positions.shape)
    # phonopy prints "Warning: Point group symmetries of supercell and primitive cell ..." and spglib writes
    # "spglib: Secondary axis is not found." to fd 2 for sheared supercells: keep the check's output clean
    with contextlib.redirect_stdout(io.StringIO()), quiet_fd2():
        return Phonopy(cell, supercell_matrix=S, primitive_matrix=PMATS[pm], store_dense_svecs=dense, log_level=log_level)


def hnf_matrices(dmax):
    """All sublattices of Z^3 of index <= dmax, one basis each (Hermite normal form, lower triangular)."""
    out = []
    for a in range(1, dmax + 1):
        for c in range(1, dmax // a + 1):
            for f in range(1, dmax // (a * c) + 1):
                for b in range(c):
                    for d in range(f):
                        for e in range(f):
                            out.append([[a, 0, 0], [b, c, 0], [d, e, f]])
    return out


REBASE = [[[1, 0, 0], [0, 1, 0], [0, 0, 1]], [[1, 1, 0], [0, 1, 0], [0, 0, 1]], [[0, 1, 0], [0, 0, 1], [1, 0, 0]],
          [[1, 0, 0], [0, -1, 0], [1, 0, -1]], [[1, 0, 2], [0, 1, 0], [0, 0, 1]], [[0, -1, 0], [1, 1, 0], [0, 1, 1]]]


def project(orc, cell):
    u, resid = xtal.project_to_unit(cell.positions, orc.L, orc.D)
    if resid > 1e-6:
        raise RuntimeError("x10: supercell positions are not on the integer grid (%g)" % resid)
    return [[int(x) for x in r] for r in u]


def qform(G, v):
    return int(sum(G[i][j] * int(v[i]) * int(v[j]) for i in range(3) for j in range(3)))


def min_image_table(G, S, D, upos, rows, B):
    """Chooser only (radii, box): squared minimum-image distances over the box -B..B.  TLC recomputes it."""
    G = np.array(G, dtype=np.int64)
    S = np.array(S, dtype=np.int64)
    ns = np.array(list(itertools.product(range(-B, B + 1), repeat=3)), dtype=np.int64)
    img = D * (ns @ S.T)                                  # (m,3) : S n
    u = np.array(upos, dtype=np.int64)
    out = np.zeros((len(rows), len(u)), dtype=np.int64)
    aS, m = adj3(S), D * det3(S)
    for r, i in enumerate(rows):
        du = u - u[i]
        n0 = np.floor_divide(2 * int(np.sign(m)) * (du @ aS.T) + abs(m), 2 * abs(m))
        du = du - D * (n0 @ S.T)                          # wrapped separation
        v = du[:, None, :] + img[None, :, :]              # (n,m,3)
        q = np.einsum("nmi,ij,nmj->nm", v, G, v)
        out[r] = q.min(axis=1)
    return out


def box_sound(G, S, D, upos, rows, B, tab):
    G = np.array(G, dtype=object)
    S_ = np.array(S, dtype=object)
    Gs = (S_.T.dot(G)).dot(S_)
    A = adj3(np.array(Gs, dtype=np.int64))
    dg = det3(G)
    aS = adj3(np.array(S, dtype=np.int64))
    m = D * abs(det3(S)) * (B + 1)
    big = 0
    for r, i in enumerate(rows):
        for j in range(len(upos)):
            w = aS @ (np.array(upos[j], dtype=np.int64) - np.array(upos[i], dtype=np.int64))
            mm = D * det3(S)
            w = int(np.sign(mm)) * w
            w = w - abs(mm) * np.floor_divide(2 * w + abs(mm), 2 * abs(mm))
            for k in range(3):
                a = m - abs(int(w[k]))
                lhs, rhs = a * a * dg, int(tab[r][j]) * int(A[k][k])
                big = max(big, lhs, rhs)
                if a <= 0 or lhs <= rhs:
                    return False, big
    return True, big


def short_basis(G, S):
    """A unimodular U such that the columns of S U are short in the metric G (pairwise size reduction).
    Chooser only: TLC checks that U is unimodular and proves the image box sound for the basis it is given."""
    G = np.array(G, dtype=np.int64)
    R = np.array(S, dtype=np.int64).copy()
    U = np.eye(3, dtype=np.int64)
    for _ in range(200):
        changed = False
        for i in range(3):
            for j in range(3):
                if i == j:
                    continue
                bi, bj = R[:, i], R[:, j]
                q = int(np.rint(float(bi @ G @ bj) / float(bj @ G @ bj)))
                if q and (bi - q * bj) @ G @ (bi - q * bj) < bi @ G @ bi:
                    R[:, i] = bi - q * bj
                    U[:, i] = U[:, i] - q * U[:, j]
                    changed = True
        if not changed:
            break
    assert np.array_equal(np.array(S, dtype=np.int64) @ U, R)
    return U.tolist(), R.tolist()


def choose_box(G, S, D, upos, rows):
    """-> (B, table, U, S U)."""
    U, R = short_basis(G, S)
    for B in (1, 2, 3, 4):
        tab = min_image_table(G, R, D, upos, rows, B)
        ok, big = box_sound(G, R, D, upos, rows, B, tab)
        if ok:
            if big >= 2 ** 31:
                raise RuntimeError("x10: box criterion exceeds TLC's integers (%d)" % big)
            return B, tab, U, R
    raise RuntimeError("x10: no sound image box up to 4 for S=%s (reduced %s)" % (S, R))


def status(res, orig):
    """0: block bitwise untouched, 1: zero block, 2: anything else."""
    same = np.all(res == orig, axis=(2, 3))
    zero = np.all(res == 0.0, axis=(2, 3))
    st = np.full(same.shape, 2, dtype=int)
    st[zero] = 1
    st[same] = 0
    return st.tolist()


def dense_array(rng, shape):
    a = rng.uniform(0.5, 2.0, size=shape) * rng.choice([-1.0, 1.0], size=shape)
    return np.ascontiguousarray(a, dtype="double")


def cutoff_calls(ph, layout, route, rng, radii):
    """radii = (r, q) in Angstrom.  Returns statuses st, st2, st3, sd3 (+ sf for the compact layout) and arrays."""
    from phonopy.harmonic.force_constants import cutoff_force_constants

    n = len(ph.supercell)
    npr = len(ph.primitive)
    shape = (n, n, 3, 3) if layout == "full" else (npr, n, 3, 3)
    fc0 = dense_array(rng, shape)

    def call(arr, r):
        if route == "api":
            ph.force_constants = arr
            ph.set_force_constants_zero_with_radius(r)
            return ph.force_constants
        cutoff_force_constants(arr, ph.supercell, ph.primitive, r, symprec=ph.symmetry.tolerance)
        return arr

    r, q = radii
    out = {}
    a = call(fc0.copy(), r)
    out["st"] = status(a, fc0)
    first = a.copy()
    a = call(a, r)
    out["st2"] = status(a, fc0)
    a = call(a, q)
    out["st3"] = status(a, fc0)
    b = call(fc0.copy(), q)
    out["sd3"] = status(b, fc0)
    if layout == "compact":
        full0 = dense_array(rng, (n, n, 3, 3))
        f = full0.copy()
        cutoff_force_constants(f, ph.supercell, ph.primitive, r, symprec=ph.symmetry.tolerance)
        out["sf"] = status(f, full0)
    else:
        out["sf"] = []
    return out, fc0, first


# ----------------------------------------------------------------------------------------------------------
def translations(S, D, upos, species):
    """Pure translations of the supercell structure as permutations (exact integers): perm[i] = image of atom i."""
    key = {}
    for k, (u, s) in enumerate(zip(upos, species)):
        key[(s, class_key(S, D, u))] = k
    perms = []
    u0 = np.array(upos[0])
    for k in range(len(upos)):
        if species[k] != species[0]:
            continue
        t = np.array(upos[k]) - u0
        perm = []
        for u, s in zip(upos, species):
            j = key.get((s, class_key(S, D, np.array(u) + t)))
            if j is None:
                perm = None
                break
            perm.append(j)
        if perm is not None and sorted(perm) == list(range(len(upos))):
            perms.append(perm)
    return perms


def invariant_int_array(rng, perms, n, kind):
    """Integer (n,n,3,3) array invariant under the translations; kind selects the value pattern."""
    F = np.zeros((n, n, 3, 3), dtype=int)
    done = np.zeros((n, n), dtype=bool)
    for i in range(n):
        for j in range(n):
            if done[i, j]:
                continue
            if kind == "zero":
                blk = np.zeros((3, 3), dtype=int)
            elif kind == "sparse":
                blk = np.zeros((3, 3), dtype=int)
                if rng.random() < 0.3:
                    blk[rng.integers(3), rng.integers(3)] = rng.integers(-3, 4)
            elif kind == "tie":
                blk = rng.integers(-1, 2, size=(3, 3))
            else:
                blk = rng.integers(-4, 5, size=(3, 3))
            for p in perms:
                F[p[i], p[j]] = blk
                done[p[i], p[j]] = True
    return F


DRIFT_RE = re.compile(r"^(.*?)(-?\d+\.\d{6}) \(([xyz])([xyz])\) (-?\d+\.\d{6}) \(([xyz])([xyz])\)\n$", re.S)


def drift_call(arr, primitive, name, values_only, api=None, den=1):
    """api: a Phonopy object with log_level=1; the drift line is then the one printed by set_force_constants()."""
    import warnings

    from phonopy.harmonic.force_constants import show_drift_force_constants

    before = arr.copy()
    buf = io.StringIO()
    kw = {}
    if name is not None:
        kw["name"] = name
    with contextlib.redirect_stdout(buf):
        if api is not None:
            with warnings.catch_warnings():
                warnings.simplefilter("ignore")
                api.set_force_constants(arr, show_drift=True)
        else:
            show_drift_force_constants(arr, primitive=primitive, values_only=values_only, **kw)
    text = buf.getvalue()
    if api is not None:
        lines = [ln for ln in text.splitlines(True) if "drift" in ln]
        text = lines[0] if len(lines) == 1 else text
    m = DRIFT_RE.match(text)
    out = dict(text=text, same=bool(np.array_equal(arr, before)), parsed=False, pfx=text, rv1=0, rc1=[1, 1], rv2=0, rc2=[1, 1])
    if m:
        v1, v2 = float(m.group(2)) * den, float(m.group(5)) * den      # numerators over den (1 or 4: exact in %f)
        if v1 == int(v1) and v2 == int(v2):
            out.update(parsed=True, pfx=m.group(1), rv1=int(v1), rv2=int(v2),
                       rc1=["xyz".index(m.group(3)) + 1, "xyz".index(m.group(4)) + 1],
                       rc2=["xyz".index(m.group(6)) + 1, "xyz".index(m.group(7)) + 1])
    return out


def to_int_array(a, tol=1e-9):
    """Integer array behind a float array; the translation expansion multiplies by L 1 L^-1 (observed noise 1e-15)."""
    r = np.rint(a)
    if np.abs(r - a).max() > tol:
        return None
    return r.astype(int)
