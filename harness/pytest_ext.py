"""pytest plugin (-p harness.pytest_ext): make the shim-built extension importable."""
from harness import bootstrap  # noqa: F401
