"""C17 binding layer: per-calculator adapters around phonopy's structure
readers/writers (phonopy.interface.calculator dispatch), own emitters/parsers
for the formats phonopy cannot read back itself, projection of a read-back
cell to the abstract state of spec/Calculators.tla.

Traits recorded here (not defects):
  * qe      - the writer emits ``ibrav/nat/ntyp`` as a comment line; the adapter
              un-comments that very line (so a wrong ``nat`` is still seen).
  * siesta  - the writer emits no ChemicalSpeciesLabel block; the adapter
              prepends the block that belongs to the ``atypes`` it was given.
  * turbomole - ``control`` refers to ``coord`` relative to the cwd.
  * crystal - the reader reads CRYSTAL *output*, the writer writes fort.34
              (+ .d12); read-back of a written file uses our parser of fort.34.
  * fleur   - the reader reads inpgen input with ``! a1`` / ``! num atoms``
              markers which the writer does not emit; read-back of a written
              file uses our parser of the written layout.
  * cp2k    - needs the third-party cp2k_input_tools; a stand-in is used.
"""
from __future__ import annotations

import contextlib
import io
import os
import shutil
import sys
import tempfile
import warnings

import numpy as np

from harness import bootstrap  # noqa: F401

_standin = os.path.join(os.path.dirname(os.path.abspath(__file__)), "c17_standin")
try:
    import cp2k_input_tools  # noqa: F401
    CP2K_STANDIN = False
except ImportError:
    sys.path.append(_standin)
    CP2K_STANDIN = True

from phonopy.interface.calculator import (  # noqa: E402
    read_crystal_structure,
    write_crystal_structure,
    write_supercells_with_displacements,
)
from phonopy.structure.atoms import PhonopyAtoms, atom_data, symbol_map  # noqa: E402

CALCS = ["abacus", "abinit", "aims", "castep", "cp2k", "crystal", "dftbp", "elk", "fleur",
         "lammps", "pwmat", "qe", "siesta", "turbomole", "vasp", "wien2k"]

SYMBOLS = ["Na", "Cl", "O"]          # species 1, 2, 3 of the specification
# calculators whose reader AND writer handle (collinear) magnetic moments
MAGMOM_CALCS = ("abacus", "aims", "castep", "crystal")

# fractional-position / lattice tolerances derived from each writer's format
# (frac: absolute, in fractional coordinates of a ~4..8 length-unit cell;
#  lat: absolute on Gram-matrix entries relative to |a|^2)
TOL = {
    "abacus": dict(frac=2e-5, lat=2e-5),      # f"{x:0<12f}" -> 6 decimals
    "abinit": dict(frac=1e-13, lat=1e-13),    # % 20.16f, %19.16f
    "aims": dict(frac=1e-13, lat=1e-13),      # %16.16f cartesian
    "castep": dict(frac=2e-9, lat=1e-13),     # % 12.10f fractional
    "cp2k": dict(frac=1e-13, lat=1e-13),      # shortest repr
    "crystal": dict(frac=1e-7, lat=1e-7),     # %12.8f lattice, %16.12f cartesian
    "dftbp": dict(frac=1e-12, lat=1e-12),     # {:20.15f}
    "elk": dict(frac=1e-13, lat=1e-13),
    "fleur": dict(frac=2e-7, lat=1e-13),      # str(ndarray) 8 significant digits, then .10f
    "lammps": dict(frac=1e-12, lat=1e-12),
    "pwmat": dict(frac=1e-13, lat=1e-13),
    "qe": dict(frac=1e-13, lat=1e-13),
    "siesta": dict(frac=1e-13, lat=1e-13),
    "turbomole": dict(frac=1e-7, lat=1e-7),   # %12.8f lattice, %16.12f cartesian
    "vasp": dict(frac=1e-13, lat=1e-13),
    "wien2k": dict(frac=1e-7, lat=1e-5),      # %10.8f positions, %10.6f cell parameters/angles
}


@contextlib.contextmanager
def quiet():
    with warnings.catch_warnings():
        warnings.simplefilter("ignore")
        with contextlib.redirect_stdout(io.StringIO()):
            yield


@contextlib.contextmanager
def workdir():
    d = tempfile.mkdtemp(prefix="c17_")
    old = os.getcwd()
    os.chdir(d)
    try:
        yield d
    finally:
        os.chdir(old)
        shutil.rmtree(d, ignore_errors=True)


def reduced(symbols):
    return list(dict.fromkeys(symbols))


# ---------------------------------------------------------------------------
# own emitters (written from the format descriptions / sample files)
# ---------------------------------------------------------------------------
def emit_crystal_output(cell, conv_numbers=None, magmoms=None):
    """Geometry part of a CRYSTAL output file as parsed by CrystalIn."""
    n = len(cell)
    conv = conv_numbers or [int(z) for z in cell.numbers]
    lines = []
    if magmoms is not None:
        spins = [(i + 1, int(m)) for i, m in enumerate(magmoms) if int(m) != 0]
        lines += ["ATOMSPIN", "%d" % len(spins), " ".join("%d %d" % s for s in spins), "GRADCAL", "END", ""]
    lines += [" PRIMITIVE CELL - CENTRING CODE 1/0 VOLUME=    %.6f - DENSITY  1.000 g/cm^3" % cell.volume,
              "         A              B              C           ALPHA      BETA       GAMMA",
              "     1.00000000     1.00000000     1.00000000    90.000000  90.000000  90.000000",
              " *******************************************************************************",
              " ATOMS IN THE ASYMMETRIC UNIT %4d - ATOMS IN THE UNIT CELL: %4d" % (n, n),
              "     ATOM                 X/A                 Y/B                 Z/C",
              " *******************************************************************************"]
    for i, (z, s, p) in enumerate(zip(conv, cell.symbols, cell.scaled_positions)):
        lines.append("   %4d T %4d %-2s  %19.12E %19.12E %19.12E" % (i + 1, z, s.upper(), p[0], p[1], p[2]))
    lines += ["", " DIRECT LATTICE VECTORS CARTESIAN COMPONENTS (ANGSTROM)",
              "          X                    Y                    Z"]
    for v in cell.cell:
        lines.append(" %20.12E %20.12E %20.12E" % tuple(v))
    lines.append("")
    return "\n".join(lines) + "\n"


def emit_fleur_inpgen(cell, speci):
    lines = ["c17 test cell", ""]
    for v, tag in zip(cell.cell, ("a1", "a2", "a3")):
        lines.append("%.16f %.16f %.16f   ! %s" % (v[0], v[1], v[2], tag))
    lines += ["1.0      ! aa", "1.0 1.0 1.0   ! scale", "", "%d ! num atoms" % len(cell)]
    for s, p in zip(speci, cell.scaled_positions):
        lines.append("%s %.16f %.16f %.16f" % (s, p[0], p[1], p[2]))
    lines += ["", '&exco xctyp="vwn" /', "&end /"]
    return "\n".join(lines) + "\n"


CP2K_TEMPLATE = """&GLOBAL
   PROJECT c17
   RUN_TYPE ENERGY_FORCE
&END GLOBAL
&FORCE_EVAL
   METHOD Quickstep
   &SUBSYS
      &CELL
         A %s
         B %s
         C %s
         PERIODIC XYZ
      &END CELL
      &COORD
%s%s
      &END COORD
   &END SUBSYS
&END FORCE_EVAL
"""


def emit_cp2k_input(cell, scaled=True):
    rows = [" ".join(repr(float(x)) for x in v) for v in cell.cell]
    pos = cell.scaled_positions if scaled else cell.positions
    coord = "\n".join("         %s %r %r %r" % (s, float(p[0]), float(p[1]), float(p[2]))
                      for s, p in zip(cell.symbols, pos))
    return CP2K_TEMPLATE % (rows[0], rows[1], rows[2], "         SCALED\n" if scaled else "", coord)


# ---------------------------------------------------------------------------
# own parsers for what phonopy writes but cannot read
# ---------------------------------------------------------------------------
def parse_crystal_ext(path):
    """fort.34 written by get_crystal_structure (+ ATOMSPIN of the .d12)."""
    with open(path + ".ext") as f:
        lines = f.read().splitlines()
    assert lines[0].split() == ["3", "1", "1"], lines[0]
    lat = np.array([[float(x) for x in lines[i].split()] for i in (1, 2, 3)])
    nsym = int(lines[4])
    at = 5 + 4 * nsym
    n = int(lines[at])
    conv, pos = [], []
    for ln in lines[at + 1: at + 1 + n]:
        t = ln.split()
        conv.append(int(t[0]))
        pos.append([float(x) for x in t[1:4]])
    symbols = [atom_data[c % 100][1] for c in conv]
    mags = None
    with open(path + ".d12") as f:
        d12 = f.read().splitlines()
    if "ATOMSPIN" in d12:
        k = d12.index("ATOMSPIN")
        ns = int(d12[k + 1])
        v = [int(x) for x in d12[k + 2].split()]
        mags = [0.0] * n
        for j in range(ns):
            mags[v[2 * j] - 1] = float(v[2 * j + 1])
    return PhonopyAtoms(symbols=symbols, cell=lat, positions=pos, magnetic_moments=mags), conv


def parse_fleur_written(path):
    """Layout of get_fleur_structure: title, 3 lattice rows, '1.0', '1.0 1.0 1.0',
    blank, natoms, atom rows (speci x y z), rest."""
    with open(path) as f:
        lines = f.read().splitlines()
    lat = np.array([[float(x) for x in lines[i].split()] for i in (1, 2, 3)])
    aa = float(lines[4].split()[0])
    sc = [float(x) for x in lines[5].split()[:3]]
    lat = lat * aa * np.array(sc)[None, :]
    k = 6
    while lines[k].strip() == "":
        k += 1
    n = int(lines[k].split()[0])
    speci, pos = [], []
    for ln in lines[k + 1: k + 1 + n]:
        t = ln.split()
        speci.append(t[0])
        pos.append([float(x) for x in t[1:4]])
    numbers = [int(float(s)) for s in speci]
    return PhonopyAtoms(numbers=numbers, cell=lat, scaled_positions=pos), speci


# ---------------------------------------------------------------------------
# adapters
# ---------------------------------------------------------------------------
def handmade_info(calc, cell, fname):
    """optional_structure_info as read_crystal_structure returns it for `cell`."""
    syms = list(cell.symbols)
    red = reduced(syms)
    if calc == "qe":
        return (fname, {s: s + ".UPF" for s in red})
    if calc == "wien2k":
        n = len(cell)
        return (fname, [781] * n, [1e-5] * n, [2.0] * n)
    if calc == "elk":
        return (fname, [s + ".in" for s in red])
    if calc == "siesta":
        return (fname, {s: i + 1 for i, s in enumerate(red)})
    if calc == "crystal":
        return (fname, [int(z) for z in cell.numbers])
    if calc == "fleur":
        return (fname, ["%d.1" % z for z in cell.numbers], ["c17 test cell", "", '&exco xctyp="vwn" /', "&end /"])
    if calc == "abacus":
        return (fname, {s: s + ".upf" for s in red}, None, None)
    if calc == "cp2k":
        from cp2k_input_tools.parser import CP2KInputParser
        return (fname, CP2KInputParser().parse(io.StringIO(emit_cp2k_input(cell))))
    return (fname,)


def post_write(calc, path, info):
    """Complete what the writer leaves to the user (traits, see module docstring)."""
    if calc == "qe":
        with open(path) as f:
            txt = f.read()
        assert txt.startswith("!"), txt[:40]
        with open(path, "w") as f:
            f.write("&system\n " + txt[1:].split("\n", 1)[0] + "\n/\n" + txt.split("\n", 1)[1])
    elif calc == "siesta":
        atypes = info[1]
        with open(path) as f:
            txt = f.read()
        blk = "%block ChemicalSpeciesLabel\n" + "".join(
            " %d %d %s\n" % (i, symbol_map[s], s) for s, i in atypes.items()) + "%endblock ChemicalSpeciesLabel\n\n"
        with open(path, "w") as f:
            f.write(blk + txt)


def read_back(calc, path):
    """Cell described by the file(s) phonopy wrote at `path`."""
    if calc == "crystal":
        return parse_crystal_ext(path)[0]
    if calc == "fleur":
        return parse_fleur_written(path)[0]
    if calc == "turbomole":
        old = os.getcwd()
        os.chdir(path)
        try:
            with quiet():
                return read_crystal_structure("control", interface_mode=calc)[0]
        finally:
            os.chdir(old)
    with quiet():
        cell, _ = read_crystal_structure(path, interface_mode=calc)
    return cell


def written_name(calc, fname):
    return fname


def unit_input(calc, cell, fname, mags=None):
    """Write a unit-cell input file the phonopy READER of `calc` accepts and
    return (cell_read, info) from read_crystal_structure - the genuine
    optional_structure_info.  Own emitters for crystal/fleur/cp2k, otherwise
    the phonopy writer (+ post_write) bootstraps the file."""
    if calc == "crystal":
        with open(fname, "w") as f:
            f.write(emit_crystal_output(cell, magmoms=mags))
    elif calc == "fleur":
        with open(fname, "w") as f:
            f.write(emit_fleur_inpgen(cell, ["%d.1" % z for z in cell.numbers]))
    elif calc == "cp2k":
        with open(fname, "w") as f:
            f.write(emit_cp2k_input(cell))
    elif calc == "turbomole":
        info = handmade_info(calc, cell, fname)
        with quiet():
            write_crystal_structure("tm_unit", cell, interface_mode=calc, optional_structure_info=info)
        old = os.getcwd()
        os.chdir("tm_unit")
        try:
            with quiet():
                return read_crystal_structure("control", interface_mode=calc)
        finally:
            os.chdir(old)
    else:
        info = handmade_info(calc, cell, fname)
        with quiet():
            write_crystal_structure(fname, cell, interface_mode=calc, optional_structure_info=info)
        post_write(calc, fname, info)
    with quiet():
        return read_crystal_structure(fname, interface_mode=calc)


# ---------------------------------------------------------------------------
# projection: read-back cell -> abstract atoms <<species, position id, moment>>
# ---------------------------------------------------------------------------
def gram(lat):
    lat = np.asarray(lat, dtype=float)
    return lat @ lat.T


def ncl_vector(m):
    """realisation of a moment token as a non-collinear moment"""
    return np.array([float(m), -0.5 * m, 0.25 * m])


def moment_token(v):
    v = np.ravel(np.asarray(v, dtype=float))
    m = int(round(float(v[0])))
    if len(v) == 3 and np.abs(v - ncl_vector(m)).max() > 1e-4:
        return 99
    if len(v) == 1 and abs(v[0] - m) > 1e-4:
        return 99
    return m


def project(calc, orig, back, species_of, mags=None, length_scale=1.0, tol=None):
    """orig: PhonopyAtoms written; back: PhonopyAtoms read back.
    -> dict(atoms=[[sp, id, mom]], latticeOK, frameOK, margin)"""
    tol = tol or TOL[calc]
    G0, G1 = gram(orig.cell), gram(back.cell)
    scale = np.trace(G0) / 3.0
    dlat = float(np.abs(G0 - G1).max() / scale)
    lat_ok = dlat < tol["lat"]
    frame_ok = bool(np.abs(np.asarray(orig.cell) - np.asarray(back.cell)).max() / np.sqrt(scale) < tol["lat"])
    p0 = np.asarray(orig.scaled_positions)
    p1 = np.asarray(back.scaled_positions)
    atoms = []
    worst = 0.0
    bm = back.magnetic_moments
    for k in range(len(back)):
        d = p0 - p1[k][None, :]
        d -= np.rint(d)
        e = np.abs(d).max(axis=1)
        j = int(np.argmin(e))
        if e[j] < tol["frac"]:
            pid = j + 1
            worst = max(worst, float(e[j]) / tol["frac"])
        else:
            pid = 0
        sym = back.symbols[k]
        sp = species_of.get(sym, 0)
        mom = 0
        if bm is not None:
            mom = moment_token(bm[k])
        atoms.append([sp, pid, mom])
    return dict(atoms=atoms, latticeOK=bool(lat_ok), frameOK=frame_ok,
                margin=max(worst, dlat / tol["lat"] if lat_ok else 0.0))


# ---------------------------------------------------------------------------
# synthetic calculator outputs (forces in FILE order), written from the
# calculators' output formats as documented / as in /repo/example.  `forces`
# are in the calculator's documented force unit (Units.tla) and in the frame of
# the phonopy supercell; each emitter applies the format's own convention.
# ---------------------------------------------------------------------------
FORCE_EMITTERS = ("abacus", "abinit", "aims", "castep", "cp2k", "crystal", "dftbp", "elk", "fleur", "lammps",
                  "pwmat", "qe", "siesta", "turbomole")


def lammps_frame(lattice):
    """LAMMPS' restricted triclinic box of a lattice (rows): lower triangular with
    positive diagonal and the same Gram matrix; returns (L_lammps, Q) with L_lammps = L Q."""
    L = np.asarray(lattice, dtype=float)
    Ll = np.linalg.cholesky(L @ L.T)
    return Ll, np.linalg.inv(L) @ Ll


def emit_output(calc, name, cell, forces, supercell_lattice=None, row_order=None):
    """cell: the cell as the calculator sees it (read back from the written file);
    forces: (n,3) in file order.  Returns the name to pass to create_FORCE_SETS."""
    import phonopy.units as pu

    F = np.asarray(forces, dtype=float)
    n = len(F)
    syms = list(cell.symbols)
    red = reduced(syms)
    L = []
    if calc == "abinit":
        L = ["", " cartesian forces (hartree/bohr) at end:"] + ["%5d %20.14f %20.14f %20.14f" % (i + 1, 0, 0, 0) for i in range(n)]
        L += [" cartesian forces (eV/Angstrom) at end:"] + ["%5d %20.14f %20.14f %20.14f" % ((i + 1,) + tuple(f)) for i, f in enumerate(F)]
    elif calc == "qe":
        L = ["", "     Forces acting on atoms (cartesian axes, Ry/au):", ""]
        L += ["     atom %4d type %2d   force = %18.12f %18.12f %18.12f" % ((i + 1, red.index(s) + 1) + tuple(f))
              for i, (s, f) in enumerate(zip(syms, F))]
        L += ["", "     Total force =     0.000000     Total SCF correction =     0.000000"]
    elif calc == "elk":
        L = ["Forces :"]
        k = 0
        for si, s in enumerate(red):
            L.append(" species : %4d (%s)" % (si + 1, s))
            for j in [i for i, x in enumerate(syms) if x == s]:
                k += 1
                L += ["  atom : %4d" % k,
                      "   Hellmann-Feynman          : %16.10f %16.10f %16.10f" % (0.1, 0.2, 0.3),
                      "   IBS                       : %16.10f %16.10f %16.10f" % (0.3, 0.2, 0.1),
                      "   total force               : %16.10f %16.10f %16.10f" % tuple(F[j]),
                      "   total magnitude           : %16.10f" % np.linalg.norm(F[j])]
        # elk lists atoms species by species: only valid when the file order is grouped
        assert [i for s in red for i, x in enumerate(syms) if x == s] == list(range(n))
    elif calc == "siesta":
        L = ["%6d" % n] + ["%6d %22.12f %22.12f %22.12f" % ((i + 1,) + tuple(f)) for i, f in enumerate(F)]
    elif calc == "cp2k":
        L = ["# Atom   Kind   Element          X              Y              Z"]
        L += [" %6d %6d %6s %20.12f %20.12f %20.12f" % ((i + 1, red.index(s) + 1, s) + tuple(f))
              for i, (s, f) in enumerate(zip(syms, F))]
        L += [" SUM OF ATOMIC FORCES   0.0 0.0 0.0 0.0"]
    elif calc == "crystal":       # CRYSTAL prints hartree/bohr; phonopy documents/converts to eV/Angstrom
        conv = pu.Bohr / pu.Hartree
        L = [" CARTESIAN FORCES IN HARTREE/BOHR (ANALYTICAL)",
             "   ATOM                     X                   Y                   Z"]
        L += [" %3d %3d %22.12E %22.12E %22.12E" % ((i + 1, symbol_map[s]) + tuple(f * conv))
              for i, (s, f) in enumerate(zip(syms, F))]
        L += ["", " RESULTANT FORCE   0.0 0.0 0.0"]
    elif calc == "dftbp":
        L = ["total_energy        :real:0:", " -0.1E+03", "forces              :real:2:3,%d" % n]
        L += [" %24.15E %24.15E %24.15E" % tuple(f) for f in F]
    elif calc == "castep":
        L = [" ***************** Symmetrised Forces *****************", " *" + " " * 52 + "*",
             " *            Cartesian components (eV/A)             *",
             " * -------------------------------------------------- *",
             " *                 x            y            z       *", " *" + " " * 52 + "*"]
        cnt = {}
        for s, f in zip(syms, F):
            cnt[s] = cnt.get(s, 0) + 1
            L.append(" * %-2s %8d %18.12f %18.12f %18.12f *" % ((s, cnt[s]) + tuple(f)))
        L += [" *" + " " * 52 + "*", " " + "*" * 54]
    elif calc == "fleur":
        L = ["1", "1 #"] + [" %24.16E %24.16E %24.16E force" % tuple(f) for f in F]
    elif calc == "pwmat":         # OUT.FORCE lists dE/dR = -force
        L = [" ****** force (eV/A) ******************"]
        L += [" %3d %20.10E %20.10E %20.10E" % ((symbol_map[s],) + tuple(-f)) for s, f in zip(syms, F)]
    elif calc == "turbomole":     # <dir>/gradient lists dE/dR = -force, Fortran D exponents
        os.makedirs(name, exist_ok=True)
        L = ["$grad          cartesian gradients", "  cycle =      1    SCF energy =   -100.0000000000   |dE/dxyz| =  0.001"]
        L += [" %20.14f %20.14f %20.14f      %s" % (tuple(p) + (s.lower(),)) for p, s in zip(cell.positions, syms)]
        L += [" " + " ".join(("%22.14E" % (-x)).replace("E", "D") for x in f) for f in F]
        L += ["$end"]
        with open(os.path.join(name, "gradient"), "w") as fh:
            fh.write("\n".join(L) + "\n")
        return name
    elif calc == "aims":
        L = ["  | Number of atoms                   :  %6d" % n, "  | Unit cell:"]
        L += ["  | %16.8f %16.8f %16.8f" % tuple(v) for v in cell.cell]
        L += ["  Atomic structure:", "  |       Atom                x [A]            y [A]            z [A]"]
        L += ["  | %4d: Species %-2s %18.10f %18.10f %18.10f" % ((i + 1, s) + tuple(p))
              for i, (s, p) in enumerate(zip(syms, cell.positions))]
        L += ["", "  Total atomic forces (unitary forces cleaned) [eV/Ang]:"]
        L += ["  | %4d %24.14E %24.14E %24.14E" % ((i + 1,) + tuple(f)) for i, f in enumerate(F)]
    elif calc == "abacus":
        L = [" TOTAL ATOM NUMBER = %d" % n, "", " TOTAL-FORCE (eV/Angstrom)", " " + "-" * 60,
             "      atom              x              y              z", " " + "-" * 60]
        cnt = {}
        for s, f in zip(syms, F):
            cnt[s] = cnt.get(s, 0) + 1
            L.append(" %8s %18.10f %18.10f %18.10f" % (("%s%d" % (s, cnt[s]),) + tuple(f)))
        L += [" " + "-" * 60]
    elif calc == "lammps":        # forces in the frame of LAMMPS' box
        _, Q = lammps_frame(supercell_lattice)
        Fl = F @ Q
        Ll, _ = lammps_frame(cell.cell)
        pl = np.asarray(cell.scaled_positions) @ Ll
        L = ["ITEM: TIMESTEP", "0", "ITEM: NUMBER OF ATOMS", "%d" % n, "ITEM: BOX BOUNDS xy xz yz pp pp pp",
             "0 1 0", "0 1 0", "0 1 0", "ITEM: ATOMS id type x y z fx fy fz"]
        # LAMMPS dumps atoms in arbitrary order (row_order: file atom of every row; default reversed),
        # the id column identifies the atom
        for i in (row_order if row_order is not None else list(reversed(range(n)))):
            L.append("%d %d %18.10f %18.10f %18.10f %20.12f %20.12f %20.12f"
                     % ((i + 1, red.index(syms[i]) + 1) + tuple(pl[i]) + tuple(Fl[i])))
    else:
        raise KeyError(calc)
    with open(name, "w") as fh:
        fh.write("\n".join(L) + "\n")
    return name


# ---------------------------------------------------------------------------
# WIEN2k case.scf (forces of non-equivalent atoms + their positions)
# ---------------------------------------------------------------------------
def stabiliser_orbits(symbols, frac, point_ops, tol=1e-7):
    """Orbits of the atoms of a (displaced) cell under its own space group,
    computed by brute force: every rotation W of `point_ops` (integer matrices in
    the cell's lattice coordinates) with every translation that maps atom 0 onto
    an atom of the same species is tested on the whole configuration.
    Returns (orbit id per atom, number of operations found)."""
    x = np.asarray(frac, dtype=float)
    n = len(x)
    syms = list(symbols)
    parent = list(range(n))

    def find(i):
        while parent[i] != i:
            parent[i] = parent[parent[i]]
            i = parent[i]
        return i
    nops = 0
    for W in point_ops:
        W = np.asarray(W, dtype=float)
        wx = x @ W.T
        for j in range(n):
            if syms[j] != syms[0]:
                continue
            t = x[j] - wx[0]
            y = wx + t
            img = []
            for i in range(n):
                d = x - y[i]
                d -= np.rint(d)
                k = int(np.argmin(np.abs(d).max(axis=1)))
                if np.abs(d[k]).max() > tol or syms[k] != syms[i]:
                    img = None
                    break
                img.append(k)
            if img is None or len(set(img)) != n:
                continue
            nops += 1
            for i, k in enumerate(img):
                parent[find(i)] = find(k)
    return [find(i) for i in range(n)], nops


def emit_wien2k_scf(name, supercell_lattice, frac, forces_cart, listed):
    """:POS / :FGL lines for the atoms `listed` (indices, in this order).  Forces are
    written as components along the normalised lattice vectors - phonopy's reading
    of :FGL (trusted; for orthogonal lattices these are the Cartesian components)."""
    L = np.asarray(supercell_lattice, dtype=float)
    red = L / np.linalg.norm(L, axis=1)[:, None]
    comp = np.asarray(forces_cart, dtype=float) @ np.linalg.inv(red)
    lines = []
    for m, a in enumerate(listed):
        p = np.asarray(frac[a], dtype=float) % 1.0
        head = ":POS%03d: ATOM%5d POSITION = " % (m + 1, -(m + 1))
        assert len(head) == 30, len(head)
        lines.append(head + "%7.5f %7.5f %7.5f  MULTIPLICITY =  1  ZZ= 1.000" % tuple(p))
    lines.append("")
    for m, a in enumerate(listed):
        head = (":FGL%03d:%4d.ATOM" % (m + 1, m + 1)).ljust(29)
        lines.append(head + "%16.9f%16.9f%16.9f total forces" % tuple(comp[a]))
    with open(name, "w") as fh:
        fh.write("\n".join(lines) + "\n")
    return name
