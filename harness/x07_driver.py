"""X07 trace recorder: band paths and band-structure book-keeping of the real phonopy, projected to the
observations of spec/BandPathTrace.tla, spec/BandBookTrace.tla and spec/BandApi.tla.

Interpretation (never the code under test):
 * q-points returned by get_band_qpoints are projected to integer numerators over den * (n - 1) (n = number of
   points returned for the segment); `exact` says the floats are those rationals to 1e-12;
 * BandStructure.distances are projected to squared increments in units of 1 / (a^2 det(gram) den^2 / gden)
   (integers when the q-points are rationals and the primitive Gram matrix is a^2 gram / gden with integer gram);
   `incexact` says the projection is exact to 1e-6; the accumulated sums of square roots are evaluated here;
 * band.yaml is parsed with PyYAML independently of phonopy's reader; the reader of phonopy-bandplot
   (_read_band_yaml, _read_band_hdf5, _arrange_band_data) is called as the script calls it.

    python -m harness.x07_driver plan.json out.json
"""
from __future__ import annotations

import contextlib
import io
import json
import os
import sys
import tempfile
import time
import warnings

os.environ.setdefault("OMP_NUM_THREADS", "1")
os.environ.setdefault("MPLBACKEND", "Agg")

from harness import bootstrap  # noqa: F401,E402

import numpy as np  # noqa: E402

warnings.simplefilter("ignore")

import yaml  # noqa: E402
from phonopy import Phonopy  # noqa: E402
from phonopy.phonon import band_structure as bsmod  # noqa: E402

from harness.oracle import Oracle, adj3, det3  # noqa: E402
from harness import xtal  # noqa: E402

WORLDS = {
    # name: (catalogue entry, supercell diag, primitive matrix, integer Gram of the primitive cell, gden)
    "cscl": ("cscl", [3, 3, 3], None, [[1, 0, 0], [0, 1, 0], [0, 0, 1]], 1),
    "tric": ("tric", [3, 2, 2], None, [[4, 1, 1], [1, 5, 2], [1, 2, 6]], 1),
    "tetab": ("tetab", [3, 3, 2], None, [[4, 0, 0], [0, 4, 0], [0, 0, 5]], 1),
    "wz": ("wz", [3, 3, 2], None, [[2, -1, 0], [-1, 2, 0], [0, 0, 5]], 1),
    "naclF": ("nacl", [2, 2, 2], "F", [[2, 1, 1], [1, 2, 1], [1, 1, 2]], 4),
}


def opt(x):
    return dict(has=False, v=[]) if x is None else dict(has=True, v=x)


def is_phonopy_exc(exc):
    import traceback

    tb = traceback.extract_tb(exc.__traceback__)
    return bool(tb) and "/phonopy/" in tb[-1].filename.replace("\\", "/") or any("/phonopy/" in f.filename for f in tb[1:])


# ------------------------------------------------------------------------------------------------
class World:
    def __init__(self, name, seed):
        entry, N, pm, gram, gden = WORLDS[name]
        self.name = name
        self.S = np.diag(N).tolist()
        self.orc = Oracle(entry, [self.S], seed=seed)
        self.a = self.orc.a
        self.gram = gram
        self.gden = gden
        self.metric = adj3(np.array(gram)).tolist()
        self.det = det3(gram)
        self.pm = pm
        self.cell = self.orc.unitcell()
        self.fc = None
        self.ph = self.fresh()
        prim = self.ph.primitive
        g = prim.cell @ prim.cell.T
        want = np.array(gram, dtype=float) * self.a ** 2 / gden
        if np.abs(g - want).max() > 1e-9:
            raise RuntimeError("x07 driver: primitive Gram matrix of %s is not the catalogue's" % name)
        self.nb = 3 * len(prim)

    def fresh(self, with_fc=True):
        with contextlib.redirect_stdout(io.StringIO()):
            ph = Phonopy(self.cell, supercell_matrix=self.S, primitive_matrix=(self.pm if self.pm else np.eye(3)), log_level=0)
            if with_fc:
                if self.fc is None:
                    self.fc = self.orc.supercell_fc(self.S, ph.supercell)
                ph.force_constants = self.fc.copy()
        return ph

    def unit2(self, den):
        """squared length of the unit in which increments are integers"""
        return self.gden / (self.a ** 2 * self.det * den ** 2)


# ------------------------------------------------------------------------------------------------
def run_gen(case, rng):
    """one call of get_band_qpoints(_and_path_connections)"""
    rq = case["rq"]
    den = rq["den"]
    paths = [[[x / den for x in p] for p in path] for path in rq["paths"]]
    style = case["style"]
    if style == "array":
        paths = [np.array(p) for p in paths]
    elif style == "tuple":
        paths = tuple(tuple(tuple(p) for p in path) for path in paths)
    rec = None
    if rq["uselen"]:
        G = np.array(case["gram"], dtype=float)
        L = xtal.lattice_from_gram(G, a=case["a"], rng=rng if case["rotate"] else None)
        rec = np.linalg.inv(L)
    ev = dict(id=case["id"], rq=rq)
    try:
        if case["withconn"]:
            qpts, conn = bsmod.get_band_qpoints_and_path_connections(paths, npoints=rq["np"], rec_lattice=rec)
        else:
            qpts, conn = bsmod.get_band_qpoints(paths, npoints=rq["np"], rec_lattice=rec), None
    except Exception as exc:  # noqa: BLE001
        ev["exc"] = "%s: %s" % (type(exc).__name__, exc)
        ev["got"] = dict(npts=[], pts=[], exact=False, hasconn=False, conn=[])
        return ev
    npts, pts, exact, worst = [], [], True, 0.0
    for q in qpts:
        q = np.array(q, dtype=float)
        n = len(q)
        npts.append(int(n))
        x = q * den * max(n - 1, 0)
        r = np.rint(x)
        if q.ndim != 2 or q.shape[1] != 3:
            exact = False
            pts.append([])
            continue
        worst = max(worst, float(np.abs(x - r).max()) if n else 0.0)
        pts.append([[int(v) for v in row] for row in r])
    if worst > 1e-9:
        exact = False
    ev["got"] = dict(npts=npts, pts=pts, exact=bool(exact), hasconn=conn is not None,
                     conn=[bool(c) for c in conn] if conn is not None else [])
    ev["worst"] = worst
    ev["qpts"] = [np.array(q).tolist() for q in qpts] if case.get("keep") else None
    return ev


# ------------------------------------------------------------------------------------------------
def exact_segment_floats(seg):
    return (np.array(seg["q"], dtype=float) / seg["den"])


def shapes(lst):
    return [[int(x) for x in np.shape(a)] for a in lst]


def script_plots(bp, fn, dist, enabled):
    """phonopy-bandplot run on the file as the command does (new style and --legacy): tick labels per visible axis;
    pos: the ticks sit at the segment ends (new style: up to the common x scale of the figure)."""
    import matplotlib.pyplot as plt

    none = (dict(has=False, panels=[], pos=True), dict(has=False, ticks=[], pos=True))
    total = float(dist[-1][-1]) if len(dist) and len(dist[-1]) else 0.0
    if not enabled or total <= 0.0:
        return none
    ends = [float(dist[0][0])] + [float(d[-1]) for d in dist]
    if any(b - a <= 1e-9 for a, b in zip(ends[:-1], ends[1:])):
        return none         # coinciding tick positions: matplotlib keeps one label per position (not phonopy's doing)
    argv = list(sys.argv)
    out = []
    try:
        for legacy in (False, True):
            sys.argv = ["phonopy-bandplot"] + (["--legacy"] if legacy else []) + [fn]
            with warnings.catch_warnings():
                warnings.simplefilter("ignore")
                with contextlib.redirect_stdout(io.StringIO()):
                    bp.run()
            fig = plt.gcf()
            axes = [a for a in fig.axes if a.get_visible()]
            labs = [[t.get_text() for t in a.get_xticklabels()] for a in axes]
            ticks = [[float(x) for x in a.get_xticks()] for a in axes]
            flat = [x for row in ticks for x in row]
            if legacy:
                pos = len(flat) == len(ends) and all(abs(a - b) <= 1e-6 for a, b in zip(flat, ends))
                out.append(dict(has=True, ticks=labs[0] if len(labs) == 1 else [x for row in labs for x in row] + ["<%d axes>" % len(labs)], pos=bool(pos)))
            else:
                # panel p covers segments [lo, hi]: ticks at ends[lo], ends[lo+1], ..., ends[hi+1], all scaled by one factor
                pos, lo = True, 0
                scale = None
                for row in ticks:
                    want = ends[lo:lo + len(row)]
                    lo += len(row) - 1
                    if len(want) != len(row):
                        pos = False
                        break
                    for a, b in zip(row, want):
                        if b > 1e-9:
                            scale = a / b if scale is None else scale
                            pos = pos and abs(a - scale * b) <= 1e-6 * max(1.0, abs(a))
                        else:
                            pos = pos and abs(a) <= 1e-9
                out.append(dict(has=True, panels=labs, pos=bool(pos and lo == len(ends) - 1)))
            plt.close("all")
    finally:
        sys.argv = argv
        plt.close("all")
    return out[0], out[1]


def run_bs(case, worlds, tmpdir):
    from phonopy.scripts import phonopy_bandplot as bp

    w = worlds[case["world"]]
    cs = dict(metric=w.metric, nb=w.nb, segs=case["segs"], args=case["args"])
    ev = dict(id=case["id"], cs=cs, world=w.name, comp=case["comp"])
    a = case["args"]
    paths = [exact_segment_floats(s) for s in case["segs"]]
    if case["style"] == "list":
        paths_in = [p.tolist() for p in paths]
    else:
        paths_in = [p.copy() for p in paths]
    ph = w.ph
    kw = {}
    if a["conn"]["has"]:
        kw["path_connections"] = list(a["conn"]["v"])
    if a["labels"]["has"]:
        kw["labels"] = list(a["labels"]["v"])
    if a["legacy"]:
        kw["is_legacy_plot"] = True
    try:
        ph.run_band_structure(paths_in, with_eigenvectors=a["ev"], with_group_velocities=a["gv"], is_band_connection=a["bc"], **kw)
        bs = ph.band_structure
        d = ph.get_band_structure_dict()
        with warnings.catch_warnings():
            warnings.simplefilter("ignore")
            tup = ph.get_band_structure()
        ob = {}
        ob["conn"] = opt(None if bs.path_connections is None else [bool(c) for c in bs.path_connections])
        ob["labels"] = opt(None if bs.labels is None else [str(x) for x in bs.labels])
        ob["legacy"] = bool(bs.is_legacy_plot)
        dist = [np.array(x, dtype=float) for x in d["distances"]]
        inc2, sgn, join, incexact, acc = [], [], [], True, True
        prev, run, worst_inc, worst_acc = 0.0, 0.0, 0.0, 0.0
        for s, (seg, ds) in enumerate(zip(case["segs"], dist)):
            u2 = w.unit2(seg["den"])
            row, srow = [], []
            for j, val in enumerate(ds):
                inc = float(val) - prev
                x = inc * inc / u2
                r = int(round(x))
                worst_inc = max(worst_inc, abs(x - r) / max(1.0, r))
                row.append(r)
                srow.append(1 if inc > 0 else (0 if inc == 0 else -1))
                run += np.sqrt(r * u2)
                worst_acc = max(worst_acc, abs(run - float(val)) / max(1.0, abs(run)))
                prev = float(val)
            inc2.append(row)
            sgn.append(srow)
            if s + 1 < len(dist) and len(ds) and len(dist[s + 1]):
                df = float(dist[s + 1][0]) - float(ds[-1])
                join.append(1 if df > 0 else (0 if df == 0 else -1))
        ob["inc2"], ob["sgn"], ob["join"] = inc2, sgn, join
        ob["incexact"] = bool(worst_inc <= 1e-6)
        ob["acc"] = bool(worst_acc <= 1e-10)
        ob["d0"] = bool(len(dist) > 0 and len(dist[0]) > 0 and float(dist[0][0]) == 0.0)
        ob["qsame"] = bool(len(d["qpoints"]) == len(paths) and all(np.array_equal(np.array(x), p) for x, p in zip(d["qpoints"], paths)))
        ob["shq"], ob["shd"], ob["shf"] = shapes(d["qpoints"]), shapes(d["distances"]), shapes(d["frequencies"])
        ob["she"] = opt(None if d["eigenvectors"] is None else shapes(d["eigenvectors"]))
        ob["shg"] = opt(None if d["group_velocities"] is None else shapes(d["group_velocities"]))
        ob["tup"] = bool(isinstance(tup, tuple) and len(tup) == 4 and tup[0] is d["qpoints"] and tup[1] is d["distances"]
                         and tup[2] is d["frequencies"] and tup[3] is d["eigenvectors"])
        ev["margins"] = dict(inc=worst_inc, acc=worst_acc)
        # ---- band.yaml ----
        ext = {None: "", "gzip": ".gz", "lzma": ".xz"}[case["comp"]]
        fn = os.path.join(tmpdir, "band_%d.yaml%s" % (case["id"], ext))
        ph.write_yaml_band_structure(filename=fn, compression=case["comp"])
        if case["comp"] == "gzip":
            import gzip
            with gzip.open(fn) as f:
                data = yaml.safe_load(f)
        elif case["comp"] == "lzma":
            import lzma
            with lzma.open(fn) as f:
                data = yaml.safe_load(f)
        else:
            with open(fn) as f:
                data = yaml.safe_load(f)
        y = {}
        y["nqpoint"], y["npath"] = int(data["nqpoint"]), int(data["npath"])
        y["segn"] = [int(x) for x in data["segment_nqpoint"]]
        y["labels"] = opt([[str(p[0]), str(p[1])] for p in data["labels"]] if "labels" in data else None)
        y["nphonon"] = len(data["phonon"])
        y["natom"] = int(data["natom"])
        allq = np.concatenate(paths) if paths else np.zeros((0, 3))
        alld = np.concatenate(dist) if dist else np.zeros(0)
        allf = np.concatenate([np.array(x) for x in d["frequencies"]])
        ok_n = len(data["phonon"]) == len(allq)
        y["qok"] = bool(ok_n and np.abs(np.array([p["q-position"] for p in data["phonon"]], dtype=float).reshape(-1, 3) - allq).max(initial=0) <= 0.6e-7)
        y["dok"] = bool(ok_n and np.abs(np.array([p["distance"] for p in data["phonon"]], dtype=float) - alld).max(initial=0) <= 0.6e-7)
        yf = [[b["frequency"] for b in p["band"]] for p in data["phonon"]]
        y["fok"] = bool(ok_n and all(len(r) == w.nb for r in yf) and np.abs(np.array(yf, dtype=float) - allf).max(initial=0) <= 0.6e-10)
        rec = np.array(data["reciprocal_lattice"], dtype=float)     # rows a*, b*, c*
        y["recok"] = bool(rec.shape == (3, 3) and np.abs(rec @ ph.primitive.cell.T - np.eye(3)).max() <= 1e-6)
        ob["y"] = y
        # ---- reader ----
        rdist, rfreq, rq, rseg, rlab = bp._read_band_yaml(fn)
        labels, conn, freq_list, dist_list = bp._arrange_band_data(rdist, rfreq, rq, rseg, rlab)
        rd = {}
        rd["segn"] = [int(len(x)) for x in dist_list]
        rd["dok"] = bool(len(dist_list) == len(dist) and all(len(x) == len(z) and np.abs(np.array(x) - z).max(initial=0) <= 0.6e-7 for x, z in zip(dist_list, dist))
                         and all(np.shape(f) == (len(z), w.nb) for f, z in zip(freq_list, dist)))
        rd["labels"] = opt(None if labels is None else [str(x) for x in labels])
        rd["conn"] = [bool(c) for c in conn]
        ob["rd"] = rd
        ob["sp"], ob["so"] = script_plots(bp, fn, dist, case.get("script", False))
        os.unlink(fn)
        ev["ob"] = ob
    except Exception as exc:  # noqa: BLE001
        import traceback

        ev["exc"] = "%s: %s" % (type(exc).__name__, exc)
        ev["tb"] = traceback.format_exc()[-1500:]
        ev["phonopy_exc"] = bool(is_phonopy_exc(exc))
    return ev


CLI_ONLY = ["YamlCounts", "YamlLabels", "ReaderSegments", "ReaderLabels", "ReaderNoLabels", "ReaderConn", "ScriptPanels", "ScriptLegacy"]


def frac(n, d):
    from math import gcd

    g = gcd(abs(n), d)
    n, d = n // g, d // g
    return "%d" % n if d == 1 else "%d/%d" % (n, d)


def run_cli_case(case, worlds, tmpdir):
    """phonopy --band ... in a scratch directory; band.yaml is what the command shows.  Two events: the q-points of the
    file against BandPath (request = the BAND setting), the file / reader / bandplot against BandBook."""
    from harness.c18_cli import run_cli
    from phonopy.file_IO import write_FORCE_CONSTANTS
    from phonopy.interface.vasp import write_vasp
    from phonopy.scripts import phonopy_bandplot as bp

    w = worlds[case["world"]]
    rq = case["rq"]
    den = rq["den"]
    d = os.path.join(tmpdir, "cli_%d" % case["id"])
    os.makedirs(d)
    write_vasp(os.path.join(d, "POSCAR-unitcell"), w.cell)
    write_FORCE_CONSTANTS(w.fc, filename=os.path.join(d, "FORCE_CONSTANTS"))
    band = ", ".join("  ".join(" ".join(frac(x, den) for x in p) for p in path) for path in rq["paths"])
    argv = ["-c", "POSCAR-unitcell", "--readfc"]
    conf = ["DIM = %d %d %d" % tuple(np.diag(w.S))]
    a = case["args"]
    if case["via"] == "conf":
        conf.append("BAND = " + band)
        if rq["np"] is not None:
            conf.append("BAND_POINTS = %d" % rq["np"])
        if a["labels"]["has"]:
            conf.append("BAND_LABELS = " + " ".join(a["labels"]["v"]))
        if rq["uselen"]:
            conf.append("BAND_CONST_INTERVAL = .TRUE.")
        if a["legacy"]:
            conf.append("LEGACY_PLOT = .TRUE.")
        if a["ev"]:
            conf.append("EIGENVECTORS = .TRUE.")
    else:
        argv += ["--band", band]
        if rq["np"] is not None:
            argv += ["--band-points", str(rq["np"])]
        if a["labels"]["has"]:
            argv += ["--band-labels"] + list(a["labels"]["v"])
        if rq["uselen"]:
            argv += ["--band-const-interval"]
        if a["legacy"]:
            argv += ["--legacy-plot"]
        if a["ev"]:
            argv += ["--eigvecs"]
    with open(os.path.join(d, "band.conf"), "w") as f:
        f.write("\n".join(conf) + "\n")
    r = run_cli("phonopy", ["band.conf"] + argv, d)      # the conf file first: --band-labels takes any number of words
    fn = os.path.join(d, "band.yaml")
    out = dict(id=case["id"], world=w.name, argv=argv, conf=conf)
    if r["code"] != 0 or not os.path.exists(fn):
        out["exc"] = "exit code %s %s\n%s" % (r["code"], r["exc"], r["stdout"][-1200:])
        return out
    try:
        with open(fn) as f:
            data = yaml.safe_load(f)
        segn = [int(x) for x in data["segment_nqpoint"]]
        qs = np.array([p["q-position"] for p in data["phonon"]], dtype=float).reshape(-1, 3)
        ds = np.array([p["distance"] for p in data["phonon"]], dtype=float)
        pts, exact, k = [], len(qs) == sum(segn), 0
        dist = []
        for n in segn:
            q = qs[k:k + n]
            dist.append(ds[k:k + n])
            k += n
            x = q * den * max(n - 1, 0)
            rr = np.rint(x)
            if len(q) != n or np.abs(x - rr).max(initial=0) > 0.6e-7 * den * max(n - 1, 1) + 1e-9:
                exact = False
            pts.append([[int(v) for v in row] for row in rr])
        req = dict(rq, np=51 if rq["np"] is None else rq["np"])
        out["gen"] = dict(id=case["id"], rq=req, got=dict(npts=segn, pts=pts, exact=bool(exact), hasconn=False, conn=[]))
        # the segments by definition (counts as written; they are judged by the gen event)
        flat = [(path[i], path[i + 1]) for path in rq["paths"] for i in range(len(path) - 1)]
        conn = [i < len(path) - 2 for path in rq["paths"] for i in range(len(path) - 1)]
        segs = []
        for (p0, p1), n in zip(flat, segn + [2] * len(flat)):
            n = max(n, 2)
            segs.append(dict(den=den * (n - 1), q=[[p0[i] * (n - 1) + (p1[i] - p0[i]) * j for i in range(3)] for j in range(n)]))
        cs = dict(metric=w.metric, nb=w.nb, segs=segs,
                  args=dict(conn=dict(has=True, v=conn), labels=a["labels"], legacy=a["legacy"], ev=a["ev"], gv=False, bc=False))
        y = dict(nqpoint=int(data["nqpoint"]), npath=int(data["npath"]), segn=segn, nphonon=len(data["phonon"]), natom=int(data["natom"]),
                 labels=opt([[str(p[0]), str(p[1])] for p in data["labels"]] if "labels" in data else None))
        rdist, rfreq, rqp, rseg, rlab = bp._read_band_yaml(fn)
        labels, rconn, freq_list, dist_list = bp._arrange_band_data(rdist, rfreq, rqp, rseg, rlab)
        rd = dict(segn=[int(len(x)) for x in dist_list], dok=bool([len(x) for x in freq_list] == segn),
                  labels=opt(None if labels is None else [str(x) for x in labels]), conn=[bool(c) for c in rconn])
        cwd = os.getcwd()
        sp, so = script_plots(bp, fn, dist, True)
        os.chdir(cwd)
        out["bs"] = dict(id=case["id"], cs=cs, only=CLI_ONLY, ob=dict(y=y, rd=rd, sp=sp, so=so))
        out["eigvecs_in_file"] = bool("eigenvector" in data["phonon"][0]["band"][0])
    except Exception as exc:  # noqa: BLE001
        import traceback

        out["exc"] = "%s: %s\n%s" % (type(exc).__name__, exc, traceback.format_exc()[-1200:])
        out["phonopy_exc"] = bool(is_phonopy_exc(exc))
    return out


# ------------------------------------------------------------------------------------------------
def main(plan_path, out_path):
    with open(plan_path) as f:
        plan = json.load(f)
    t0 = time.time()
    rng = np.random.default_rng(plan["seed"])
    gen = [run_gen(c, rng) for c in plan.get("gen", [])]
    worlds = {}
    for c in plan.get("bs", []) + plan.get("api", []) + plan.get("h5", []) + plan.get("cli", []):
        if c["world"] not in worlds:
            worlds[c["world"]] = World(c["world"], plan["seed"])
    bs = []
    with tempfile.TemporaryDirectory(prefix="x07_") as tmpdir:
        for c in plan.get("bs", []):
            bs.append(run_bs(c, worlds, tmpdir))
        cli = [run_cli_case(c, worlds, tmpdir) for c in plan.get("cli", [])]
        api, h5 = [], []
        if plan.get("api") or plan.get("h5"):
            from harness import x07_api
            api = [x07_api.run_history(c, worlds, tmpdir) for c in plan.get("api", [])]
            h5 = [x07_api.run_h5(c, worlds, tmpdir) for c in plan.get("h5", [])]
    with open(out_path, "w") as f:
        json.dump(dict(gen=gen, bs=bs, api=api, h5=h5, cli=cli, wall=time.time() - t0), f)


if __name__ == "__main__":
    main(sys.argv[1], sys.argv[2])
