"""./check --setup : build everything the checks need from files on disk only."""
import glob
import os
import subprocess
import sys

from . import build_ext, tlc

VERIF = build_ext.VERIF


def main():
    deps = os.path.join(VERIF, ".deps")
    if not os.path.isdir(os.path.join(deps, "scipy")):
        r = subprocess.run([sys.executable, "-m", "pip", "install", "--no-index", "--find-links",
                            "/opt/veriftools/wheels", "--target", deps, "--no-deps", "-q", "scipy"])
        if r.returncode != 0:
            print("setup: scipy install failed (C20 will be unavailable)", file=sys.stderr)
    for v in ("omp", "serial"):
        print("ext", v, build_ext.build(v, verbose=True))
    bad = 0
    for f in sorted(glob.glob(os.path.join(VERIF, "spec", "*.tla"))):
        mod = os.path.basename(f)[:-4]
        ok, out = tlc.sany(mod)
        if not ok:
            bad += 1
            print("SANY FAILED", mod, out[-800:])
    print("setup: %d spec modules parsed, %d failed" % (len(glob.glob(os.path.join(VERIF, "spec", "*.tla"))), bad))
    return 1 if bad else 0
