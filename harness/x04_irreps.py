"""X04 recorder: runs of phonopy's IrReps (through Phonopy.set_irreps) on exact spring-model crystals, projected
to the observations spec/Irreps.tla judges.

Projection only (no decision is taken here):
 * operations: integer rotation, translation numerators over the crystal's denominator D (as returned, NOT reduced);
 * ground matrices: conjugated back from Cartesian to lattice components, every 3x3 block written as
   (twelfth k, integer matrix M) with block = M exp(2 pi i k/12), or k = -1 for a zero block;
 * characters: 2 chi = (a + b sqrt3) + i (c + d sqrt3), the unique representation in Z[zeta_12];
 * closeness of neighbouring frequencies against the tolerance given to set_irreps, and against 1e-7 ("numerically equal":
   a pair closer than the tolerance but resolved marks a tolerance coarser than the spectrum) - float comparisons named in the spec;
 * point-group symbol, chosen table variant, rotation symbols, conventional rotations, labels.
Exactness flags say whether the projection residual stayed below TOL (a value off the lattice is a finding of
TLC's Impl invariants, not of the recorder).
"""
from __future__ import annotations

import contextlib
import io
import json
import os

os.environ.setdefault("OMP_NUM_THREADS", "1")

from harness import bootstrap  # noqa: F401,E402

import numpy as np  # noqa: E402

TOL = 1e-8
SQ3 = np.sqrt(3.0)
DIMS = {"sc": [2, 2, 2], "cscl": [3, 3, 3], "hcp": [2, 2, 2], "wz": [3, 3, 2], "tric": [3, 2, 2], "tetab": [3, 3, 2],
        "nacl": [1, 1, 1], "naclg": [1, 1, 1], "bcc": [2, 2, 2], "dia": [2, 2, 2], "zb": [2, 2, 2], "rut": [2, 2, 2], "scx": [3, 3, 3], "hcpx": [2, 2, 2]}


def tables_from_phonopy():
    """character_table.py as plain data: pg -> [variant dict(rl=[sym], ct={label: [int]}, mt={sym: [matrix]})]."""
    from phonopy.phonon.character_table import character_table

    out = {}
    for pg, variants in character_table.items():
        if variants is None:
            continue
        vs = []
        for v in variants:
            rl = v["rotation_list"]
            rl = [rl] if isinstance(rl, str) else list(rl)
            ct = {}
            for lab, row in v["character_table"].items():
                row = [row] if np.isscalar(row) else list(row)
                ct[lab] = row
            mt = {sym: [np.array(m).tolist() for m in mats] for sym, mats in v["mapping_table"].items()}
            vs.append(dict(rl=rl, ct=ct, mt=mt))
        out[pg] = vs
    return out


class World:
    def __init__(self, entry, seed, oracle_cls=None):
        from phonopy import Phonopy
        from harness.oracle import Oracle

        self.entry = entry
        self.S = np.diag(DIMS[entry]).tolist()
        self.orc = (oracle_cls or Oracle)(entry, [self.S], seed=seed)
        if abs(np.linalg.det(np.array(self.orc.cr["G"], dtype=float))) < 1e-9:
            raise ValueError("degenerate Gram matrix")
        self.cell = self.orc.unitcell()
        self.D = self.orc.D
        with contextlib.redirect_stdout(io.StringIO()):
            self.ph = Phonopy(self.cell, supercell_matrix=self.S, primitive_matrix=np.eye(3), log_level=0)
            self.ph.force_constants = self.orc.supercell_fc(self.S, self.ph.supercell)
        self.n = len(self.cell)
        lat = np.array(self.cell.cell).T
        self.K = np.kron(np.eye(self.n), lat)
        self.Ki = np.kron(np.eye(self.n), np.linalg.inv(lat))


def proj_block(B):
    amax = np.abs(B).max()
    if amax < 1e-9:
        return [-1, [[0, 0, 0]] * 3], amax
    z = B.flat[np.argmax(np.abs(B))]
    k = int(np.rint(np.angle(z) / (2 * np.pi / 12))) % 12
    Bk = B * np.exp(-2j * np.pi * k / 12)
    M = np.rint(Bk.real)
    return [k, M.astype(int).tolist()], float(np.abs(Bk - M).max())


def proj_z12(z, dim):
    """2 z = (a + b sqrt3) + i (c + d sqrt3) -> [[a, b], [c, d]], residual."""
    out, res = [], 0.0
    R = 2 * dim + 2
    rng = np.arange(-R, R + 1)
    grid = rng[:, None] + rng[None, :] * SQ3
    for x in (2 * z.real, 2 * z.imag):
        d = np.abs(grid - x)
        ia, ib = np.unravel_index(np.argmin(d), d.shape)
        out.append([int(rng[ia]), int(rng[ib])])
        res = max(res, float(d[ia, ib]))
    return out, res


def record(world, eid, qn, cog, tol, coarse=False):
    """One set_irreps run -> (event for TLC, raw dict for the replay of TLC's multiplication table)."""
    from phonopy.phonon.character_table import character_table

    q = [x / 12.0 for x in qn]
    ev = dict(id=eid, qv=list(qn), cg=bool(cog), crs=bool(coarse), st="ok", ox=True, opl=[], gx=True, gm=[], bsets=[], gaps=[],
              gpf=[], cx=True, chr=[], pgs="", vix=0, rsy=[], cnv=[], lbl=[])
    raw = dict(entry=world.entry, q=q, cog=cog, tol=tol, exc=None, margin=0.0)
    ph = world.ph
    try:
        with contextlib.redirect_stdout(io.StringIO()):
            ph.set_irreps(q, is_little_cogroup=cog, degeneracy_tolerance=tol)
    except Exception as e:  # noqa: BLE001
        ev["st"] = type(e).__name__
        raw["exc"] = "%s: %s" % (type(e).__name__, e)
        return ev, raw
    ir = ph.irreps
    D = world.D
    margin = 0.0
    for r, t in zip(ir._rotations_at_q, ir._translations_at_q):
        tn = np.rint(np.array(t) * D)
        if np.abs(np.array(t) * D - tn).max() > 1e-6:
            ev["ox"] = False
        ev["opl"].append(dict(rot=np.array(r).astype(int).tolist(), tn=tn.astype(int).tolist()))
    n = world.n
    for g in ir.ground_matrices:
        M = world.Ki @ g @ world.K
        blocks = []
        for j in range(n):
            for i in range(n):
                b, res = proj_block(M[3 * j:3 * j + 3, 3 * i:3 * i + 3])
                margin = max(margin, res if b[0] != -1 else res)
                if res > TOL:
                    ev["gx"] = False
                blocks.append(b)
        ev["gm"].append(blocks)
    ev["bsets"] = [[int(b) + 1 for b in s] for s in ir.band_indices]
    f = np.array(ir._freqs)
    ev["gaps"] = [bool(abs(f[i + 1] - f[i]) < tol) for i in range(len(f) - 1)]
    ev["gpf"] = [bool(abs(f[i + 1] - f[i]) < 1e-7) for i in range(len(f) - 1)]     # numerically equal eigenvalues
    for s, chars in zip(ir.band_indices, ir.characters):
        row = []
        for z in chars:
            v, res = proj_z12(complex(z), len(s))
            margin = max(margin, res)
            if res > TOL:
                ev["cx"] = False
            row.append(v)
        ev["chr"].append(row)
    ev["pgs"] = str(ir._pointgroup_symbol)
    if ir._character_table is not None and ir._rotation_symbols:
        for vi, v in enumerate(character_table[ir._pointgroup_symbol]):
            if v is ir._character_table:
                ev["vix"] = vi + 1
        ev["rsy"] = [str(x) for x in ir._rotation_symbols]
    ev["cnv"] = [np.array(r).astype(int).tolist() for r in ir.conventional_rotations]
    if ir._ir_labels is not None:
        ev["lbl"] = ["None" if x is None else str(x) for x in ir._ir_labels]
    raw["margin"] = margin
    raw["irreps"] = [[np.array(m, dtype=complex) for m in irr] for irr in ir.irreps]
    raw["freqs"] = f.tolist()
    raw["ground"] = [np.array(g) for g in ir.ground_matrices]
    return ev, raw


# ---- TLA+ literals -------------------------------------------------------------------------------
def tla(v):
    if isinstance(v, bool):
        return "TRUE" if v else "FALSE"
    if isinstance(v, (int, np.integer)):
        return str(int(v))
    if isinstance(v, str):
        return json.dumps(v)
    if isinstance(v, (list, tuple)):
        return "<<" + ",".join(tla(x) for x in v) + ">>"
    if isinstance(v, dict):
        return "[" + ", ".join("%s |-> %s" % (k, tla(x)) for k, x in v.items()) + "]"
    raise TypeError(type(v))


def tla_strfun(d, val):
    """function with string keys"""
    if not d:
        return "<<>>"
    return "(" + " @@ ".join("%s :> %s" % (json.dumps(k), val(v)) for k, v in d.items()) + ")"


def tla_tables(tabs, only=None):
    def variant(v):
        return "[rl |-> %s, ct |-> %s, mt |-> %s]" % (
            tla(v["rl"]), tla_strfun(v["ct"], tla), tla_strfun(v["mt"], lambda ms: "{" + ",".join(tla(m) for m in ms) + "}"))

    sel = {k: v for k, v in tabs.items() if only is None or k in only}
    return tla_strfun(sel, lambda vs: "<<" + ", ".join(variant(v) for v in vs) + ">>")
