"""C11: mesh-level events (integer fields on small periodic meshes, driven
through the real TetrahedronMesh / get_tetrahedra_frequencies /
run_tetrahedron_method_dos) and API-level sessions on spring-model crystals."""
from __future__ import annotations

import io
import contextlib
import itertools

import numpy as np

from harness import bootstrap  # noqa: F401
from harness import xtal
from harness import c11_tetra as T

from phonopy.structure.atoms import PhonopyAtoms
from phonopy.structure.tetrahedron_method import TetrahedronMethod
from phonopy.phonon.tetrahedron_mesh import TetrahedronMesh, get_tetrahedra_frequencies
from phonopy.phonon.dos import run_tetrahedron_method_dos

DIAG_DIR = T.DIAG_DIR


def det3(M):
    M = [[int(x) for x in r] for r in M]
    return (M[0][0] * (M[1][1] * M[2][2] - M[1][2] * M[2][1]) - M[0][1] * (M[1][0] * M[2][2] - M[1][2] * M[2][0])
            + M[0][2] * (M[1][0] * M[2][1] - M[1][1] * M[2][0]))


def adj3(M):
    M = np.array(M, dtype=object)
    c = [[0] * 3 for _ in range(3)]
    for i in range(3):
        for j in range(3):
            r = [x for x in range(3) if x != i]
            s = [x for x in range(3) if x != j]
            c[j][i] = (-1) ** (i + j) * (M[r[0]][s[0]] * M[r[1]][s[1]] - M[r[0]][s[1]] * M[r[1]][s[0]])
    return [[int(x) for x in r] for r in c]


def microzone_metric(G, mesh):
    """Integer matrix proportional to the Gram matrix of the microzone vectors
    b_i / m_i, for a direct lattice with integer Gram matrix G:
    (b_i . b_j) = adj(G)_ij / det G."""
    A = adj3(G)
    P = mesh[0] * mesh[1] * mesh[2]
    return [[A[i][j] * (P // mesh[i]) * (P // mesh[j]) for j in range(3)] for i in range(3)]


def diag_len2(M, d):
    x = DIAG_DIR[d]
    return sum(x[i] * M[i][j] * x[j] for i in range(3) for j in range(3))


def shortest_diags(M):
    ls = [diag_len2(M, d) for d in range(4)]
    return [d for d in range(4) if ls[d] == min(ls)]


# direct-lattice Gram matrices (integer, positive definite); between them and the
# meshes every main diagonal is the strictly shortest one in some case, and
# cubic / tetragonal ones give exact ties
GRAMS = [
    [[4, 0, 0], [0, 4, 0], [0, 0, 4]],
    [[4, 1, 1], [1, 5, 2], [1, 2, 6]],
    [[4, -1, -1], [-1, 5, -2], [-1, -2, 6]],
    [[4, -1, 1], [-1, 5, 2], [1, 2, 6]],
    [[4, 1, -1], [1, 5, 2], [-1, 2, 6]],
    [[4, 1, 1], [1, 5, -2], [1, -2, 6]],
    [[2, -1, 0], [-1, 2, 0], [0, 0, 3]],
    [[3, 0, 0], [0, 3, 0], [0, 0, 7]],
]


def grid_addresses(mesh, style):
    n = mesh[0] * mesh[1] * mesh[2]
    addr = []
    for g in range(n):
        a = [g % mesh[0], (g // mesh[0]) % mesh[1], g // (mesh[0] * mesh[1])]
        if style == "spglib":  # 0..m/2, then negative
            a = [x - mesh[i] if x > mesh[i] // 2 else x for i, x in enumerate(a)]
        elif style == "shifted":  # any representative is legal for the kernels
            a = [x + mesh[i] * ((g + i) % 3 - 1) for i, x in enumerate(a)]
        addr.append(a)
    return addr


def gp_index(mesh, a):
    return (a[0] % mesh[0]) + (a[1] % mesh[1]) * mesh[0] + (a[2] % mesh[2]) * mesh[0] * mesh[1]


def make_case(rng, mesh, G, mapkind, style, nb, ncoef, vals, ws):
    n = mesh[0] * mesh[1] * mesh[2]
    addr = grid_addresses(mesh, style)
    if mapkind == "inversion":
        mp = [min(g, gp_index(mesh, [-x for x in addr[g]])) for g in range(n)]
    else:
        mp = list(range(n))
    irs = sorted(set(mp))
    irvals = [[int(rng.choice(vals)) for _ in irs] for _ in range(nb)]
    pats = [[1, 2, 3], [2, 3, 1], [3, 1, 2], [1, 3, 2], [0, 2, 4], [6, 0, 0], [2, 2, 2]]
    pats = [p[:ncoef - 1] + [6 - sum(p[:ncoef - 1])] for p in pats]
    coef = [[[0] * nb for _ in range(ncoef)] for _ in irs]
    for r in range(len(irs)):
        for b in range(nb):
            p = pats[int(rng.integers(len(pats)))]
            for m in range(ncoef):
                coef[r][m][b] = int(p[m])
    M = microzone_metric(G, mesh)
    return dict(mesh=[int(x) for x in mesh], diag=shortest_diags(M)[0], map=mp, addr=addr, irvals=irvals,
                ws=[int(w) for w in ws], coef=coef), M


def table_rows(rel, central):
    return [dict(rel=[[int(x) for x in v] for v in rel[t]], c=int(central[t])) for t in range(24)]


def rat_tree(a, flags):
    """nested float array -> nested [num, den]; flags collects exactness"""
    if np.ndim(a) == 0:
        r, ok = T.to_rat(a)
        flags.append(ok)
        return r
    return [rat_tree(x, flags) for x in a]


def run_real(case, G, lattice_rng):
    """Drive the real mesh-level code for one case; returns the event record."""
    mesh = np.array(case["mesh"], dtype="int64")
    n = int(np.prod(mesh))
    L = xtal.lattice_from_gram(np.array(G, dtype=float), a=1.3, rng=lattice_rng)
    cell = PhonopyAtoms(symbols=["H"], scaled_positions=[[0, 0, 0]], cell=L)
    rec = np.linalg.inv(L)
    grid_address = np.array(case["addr"], dtype="int64", order="C")
    mapping = np.array(case["map"], dtype="int64")
    ir = np.array(sorted(set(case["map"])), dtype="int64")
    freqs = np.array(case["irvals"], dtype="double").T.copy()  # (n_ir, n_band)
    ws = np.array(case["ws"], dtype="double")
    nb = freqs.shape[1]
    flags = []
    ev = dict(cs=case)
    tmC = TetrahedronMethod(rec, mesh=mesh)
    tmP = TetrahedronMethod(rec, mesh=mesh, lang="Py")
    ev["tabC"] = table_rows(tmC.tetrahedra, [0] * 24)
    ev["tabPy"] = table_rows(tmP.tetrahedra, tmP._central_indices)
    gp_ir_index = np.zeros(n, dtype="int64")
    pos = {int(g): i for i, g in enumerate(ir)}
    for g in range(n):
        gp_ir_index[g] = pos[int(mapping[g])]
    for lang, key, tm in (("C", "tvC", tmC), ("Py", "tvPy", tmP)):
        tv = []
        for g in ir:
            tf = get_tetrahedra_frequencies(int(g), mesh, grid_address, tm.tetrahedra, gp_ir_index, freqs,
                                            grid_order=[1, int(mesh[0]), int(mesh[0] * mesh[1])], lang=lang)
            tv.append([[[int(round(x)) for x in row] for row in band] for band in tf])
        ev[key] = tv
    coef = np.array(case["coef"], dtype="double")  # (n_ir, ncoef, nband)

    def weights_and_dos(points, suffix):
        for lang, key in (("C", "wC"), ("Py", "wPy")):
            w = {}
            for fn in ("I", "J"):
                thm = TetrahedronMesh(cell, freqs, mesh, grid_address, mapping, ir, lang=lang)
                thm.set(value=fn, frequency_points=points, lang=lang)
                per_ir = []
                for iw in thm:
                    a = np.array(iw) * n  # (nfreq, nband) -> [b][j]
                    per_ir.append(rat_tree(a.T, flags))
                w[fn] = per_ir
            ev[key + suffix] = w
        pd = run_tetrahedron_method_dos(mesh, points, freqs, grid_address, mapping, tmC.tetrahedra, coef=coef)
        td = run_tetrahedron_method_dos(mesh, points, freqs, grid_address, mapping, tmC.tetrahedra)
        full = np.concatenate([np.array(pd), np.array(td)[:, None]], axis=1)  # (nfreq, ncoef+1)
        ev["dosK" + suffix] = dict(I=rat_tree(full, flags))

    # the frequency points in the order of the case (any order), and the same points ascending
    weights_and_dos(ws, "")
    order = sorted(range(len(ws)), key=lambda j: (ws[j], j))
    ev["asc"] = [j + 1 for j in order]
    weights_and_dos(np.array([ws[j] for j in order], dtype="double"), "asc")
    # the DOS classes on the same case: TotalDos / ProjectedDos driven with a stand-in mesh object that
    # carries exactly the attributes they read; the relative grid addresses they hand to the kernel are
    # recorded by wrapping the module-level run_tetrahedron_method_dos
    ev.update(run_dos_classes(case, cell, freqs, grid_address, mapping, ir, ws, coef, flags))
    ev["exact"] = bool(all(flags))
    return ev


class _Recorder:
    """wraps phonopy.phonon.dos.run_tetrahedron_method_dos: records the relative grid addresses per call"""

    def __init__(self):
        import phonopy.phonon.dos as dosmod
        self.mod = dosmod
        self.orig = dosmod.run_tetrahedron_method_dos
        self.calls = []

    def __enter__(self):
        def wrapped(mesh, frequency_points, frequencies, grid_address, grid_mapping_table, relative_grid_address,
                    coef=None):
            self.calls.append(dict(projected=coef is not None, rel=np.array(relative_grid_address).copy()))
            return self.orig(mesh, frequency_points, frequencies, grid_address, grid_mapping_table,
                             relative_grid_address, coef=coef)
        self.mod.run_tetrahedron_method_dos = wrapped
        return self

    def __exit__(self, *a):
        self.mod.run_tetrahedron_method_dos = self.orig


def run_dos_classes(case, cell, freqs, grid_address, mapping, ir, ws, coef, flags):
    from types import SimpleNamespace
    from phonopy.phonon.dos import TotalDos, ProjectedDos

    mesh = np.array(case["mesh"], dtype="int64")
    mult = np.array([int(np.sum(mapping == g)) for g in ir], dtype="int64")
    csum = float(coef[0, :, 0].sum())
    # |e|^2 = coef / csum (xyz projection takes |eigenvectors|^2 as it is: shape (n_ir, n_proj, n_band))
    eig = np.sqrt(coef / csum)
    mo = SimpleNamespace(frequencies=freqs, weights=mult, eigenvectors=eig, mesh_numbers=mesh,
                         grid_address=grid_address, grid_mapping_table=mapping, ir_grid_points=ir,
                         dynamical_matrix=SimpleNamespace(primitive=cell), with_eigenvectors=True)
    out = {}
    with _Recorder() as rec:
        td = TotalDos(mo, use_tetrahedron_method=True)
        td._frequency_points = np.array(ws, dtype="double")   # the frequency list of the case, in its order
        td.run()
        pd = ProjectedDos(mo, use_tetrahedron_method=True, xyz_projection=True)
        pd._frequency_points = np.array(ws, dtype="double")
        pd.run()
    tot = [c for c in rec.calls if not c["projected"]]
    prj = [c for c in rec.calls if c["projected"]]
    if len(tot) != 1 or len(prj) != 1:
        raise RuntimeError("DOS classes did not call the tetrahedron kernel once each: %d, %d" % (len(tot), len(prj)))
    out["tabT"] = table_rows(tot[0]["rel"], [0] * 24)
    out["tabP"] = table_rows(prj[0]["rel"], [0] * 24)
    full = np.concatenate([np.array(pd.projected_dos).T * csum, np.array(td.dos)[:, None]], axis=1)
    out["dosCls"] = dict(I=rat_tree(full, flags))
    return out
