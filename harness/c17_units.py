"""C17 unit part: projection of phonopy's unit-table floats to monomials over
the code's own base constants (abstract state of spec/Units.tla), numeric
evaluation of the specification's monomials, and the physical-crystal replay
through phonopy.load(calculator=...)."""
from __future__ import annotations

import itertools
import math

import numpy as np

from harness import bootstrap  # noqa: F401

import phonopy.units as pu  # noqa: E402
from phonopy.interface.calculator import (  # noqa: E402
    get_default_physical_units,
    get_force_constant_conversion_factor,
)

FC_NAMES = ["eV/angstrom^2", "eV/angstrom.au", "Ry/au^2", "mRy/au^2", "hartree/au^2", "hartree/angstrom.au"]
UNPROJECTABLE = [99] * 7


def bases():
    """EV, AMU, BOHR, HARTREE, TWO, PI, TEN with the code's own values."""
    return [pu.EV, pu.AMU, pu.Bohr, pu.Hartree, 2.0, math.pi, 10.0]


def evaluate(m):
    """value of a doubled-exponent vector"""
    b = bases()
    return math.exp(sum(0.5 * e * math.log(x) for e, x in zip(m, b)))


_BOX = None


def _box():
    global _BOX
    if _BOX is None:
        rng = [range(-2, 3), range(-2, 3), range(-8, 9), range(-3, 4), range(-6, 7), range(-2, 3)]
        ex = np.array(list(itertools.product(*rng)), dtype=float)
        logs = np.log10(np.array(bases()[:6]))
        _BOX = (ex, 0.5 * ex @ logs)
    return _BOX


def project(value, rtol=1e-12):
    """float -> the unique doubled-exponent vector in the box whose value equals
    `value` within rtol (TEN's exponent is solved for), else UNPROJECTABLE."""
    if value is None or not (value > 0):
        return list(UNPROJECTABLE)
    ex, lg = _box()
    x = 2.0 * (math.log10(value) - lg)           # doubled exponent of TEN needed
    r = np.rint(x)
    ok = np.where((np.abs(x - r) < 2.0 * rtol / math.log(10) * 4) & (np.abs(r) <= 60))[0]
    if len(ok) == 0:
        return list(UNPROJECTABLE)
    # smallest total degree if (improbably) several match
    best = min(ok, key=lambda i: (np.abs(ex[i]).sum() + abs(r[i]), tuple(ex[i])))
    m = [int(v) for v in ex[best]] + [int(r[best])]
    if abs(evaluate(m) / value - 1.0) > 50 * rtol:
        return list(UNPROJECTABLE)
    return m


def table_event(calc):
    """Projected unit table of one calculator (abstract state for UnitsTrace)."""
    u = get_default_physical_units(calc)
    conv = {}
    for name in FC_NAMES:
        try:
            conv[name] = project(get_force_constant_conversion_factor(name, calc))
        except Exception:
            conv[name] = list(UNPROJECTABLE)
    return dict(calc=calc,
                factor=project(u["factor"]),
                nacPresent=u["nac_factor"] is not None,
                nac=project(u["nac_factor"]) if u["nac_factor"] is not None else [0] * 7,
                dist=project(u["distance_to_A"]),
                forcePresent=u["force_to_eVperA"] is not None,
                force=project(u["force_to_eVperA"]) if u["force_to_eVperA"] is not None else [0] * 7,
                fcname=str(u["force_constants_unit"]), lname=str(u["length_unit"]), fname=str(u["force_unit"]),
                conv=conv)


# ---------------------------------------------------------------------------
# one physical crystal in every unit system (spec -> code replay)
# ---------------------------------------------------------------------------
def physical_reference(ctx=None, seed=0):
    """CsCl-type crystal of the exact spring-model catalogue; declared to be in
    Angstrom / eV/Angstrom^2 (the reference unit system)."""
    from harness.oracle import Oracle
    from phonopy import Phonopy

    S = [[2, 0, 0], [0, 2, 0], [0, 0, 2]]
    orc = Oracle("cscl", [S], a=2.1, seed=seed, ctx=ctx)
    unit = orc.unitcell()
    ph = Phonopy(unit, supercell_matrix=S, primitive_matrix=np.eye(3), log_level=0)
    fc = orc.supercell_fc(S, ph.supercell)
    born = np.array([np.eye(3) * 0.8, -np.eye(3) * 0.8])
    eps = np.eye(3) * 2.4
    return dict(S=S, unit=unit, fc=fc, born=born, eps=eps)


QPTS = [[0.1, 0.2, 0.3], [0.5, 0.0, 0.0], [0.31, -0.17, 0.05], [0.5, 0.5, 0.5]]


def physical_observables(ref, calc, length_factor, fc_factor, nac=True, method=None, thermal=True):
    """Express the reference crystal in `calc`'s units with the SPECIFICATION's
    factors (length_unit/Angstrom, fc_unit/(eV/Angstrom^2)), run the real code
    through phonopy.load(calculator=calc) and return THz frequencies etc."""
    import contextlib
    import io
    import os
    import tempfile

    import phonopy
    from phonopy.structure.atoms import PhonopyAtoms

    u = ref["unit"]
    cell = PhonopyAtoms(symbols=u.symbols, cell=u.cell / length_factor, scaled_positions=u.scaled_positions,
                        masses=u.masses)
    old = os.getcwd()
    with tempfile.TemporaryDirectory(prefix="c17u_") as d:
        os.chdir(d)
        try:
            with contextlib.redirect_stdout(io.StringIO()):
                ph = phonopy.load(unitcell=cell, supercell_matrix=ref["S"], primitive_matrix=np.eye(3),
                                  calculator=calc, is_nac=nac, produce_fc=False, log_level=0,
                                  nac_params=dict(born=ref["born"].copy(), dielectric=ref["eps"].copy(),
                                                  **({"method": method} if method else {})) if nac else None)
                ph.force_constants = ref["fc"] / fc_factor
                ph.run_qpoints(QPTS)
                fq = ph.get_qpoints_dict()["frequencies"].copy()
                ph.run_qpoints([[0, 0, 0]], nac_q_direction=[1, 0, 0] if nac else None)
                fg = ph.get_qpoints_dict()["frequencies"][0].copy()
                th = np.zeros((3, 4))
                if thermal:
                    ph.run_mesh([4, 4, 4])
                    ph.run_thermal_properties(t_min=0, t_max=300, t_step=100)
                    tp = ph.get_thermal_properties_dict()
                    th = np.array([tp["free_energy"], tp["entropy"], tp["heat_capacity"]])
        finally:
            os.chdir(old)
    return dict(fq=fq, fg=fg, th=th)


# ---------------------------------------------------------------------------
# the route by which the calculator reaches phonopy.load() (UnitsRoute.tla)
# ---------------------------------------------------------------------------
ROUTES = ("arg", "yaml", "disp", "conflict")
NAC_MODES = ("none", "params", "born")


def _born_text(ref):
    """BORN file WITHOUT a factor in its first line (-> the calculator's default)."""
    rows = ["# epsilon and Z* of atoms 1 2", " ".join("%.10f" % x for x in ref["eps"].ravel())]
    rows += [" ".join("%.10f" % x for x in z.ravel()) for z in ref["born"]]
    return "\n".join(rows) + "\n"


def route_observables(ref, calc, length_factor, fc_factor, route, nacmode, other):
    """The reference crystal in `calc`'s units reaches load() by `route`; returns what the
    resulting Phonopy object reports and computes."""
    import contextlib
    import io
    import os
    import tempfile
    import warnings

    import phonopy
    from phonopy import Phonopy
    from phonopy.structure.atoms import PhonopyAtoms

    u = ref["unit"]
    cell = PhonopyAtoms(symbols=u.symbols, cell=u.cell / length_factor, scaled_positions=u.scaled_positions,
                        masses=u.masses)
    fc = ref["fc"] / fc_factor
    nac_kw = {}
    if nacmode == "none":
        nac_kw = dict(is_nac=False)
    elif nacmode == "params":
        nac_kw = dict(is_nac=True, nac_params=dict(born=ref["born"].copy(), dielectric=ref["eps"].copy(), method="wang"))
    old = os.getcwd()
    with tempfile.TemporaryDirectory(prefix="c17r_") as d:
        os.chdir(d)
        try:
            with contextlib.redirect_stdout(io.StringIO()), warnings.catch_warnings():
                warnings.simplefilter("ignore")
                common = dict(produce_fc=False, log_level=0)
                if route == "arg":
                    src = None
                    kw = dict(unitcell=cell, supercell_matrix=ref["S"], primitive_matrix=np.eye(3), calculator=calc)
                else:
                    # the file a run of phonopy with this calculator leaves behind
                    rec = other if route == "conflict" else calc
                    ph0 = phonopy.load(unitcell=cell, supercell_matrix=ref["S"], primitive_matrix=np.eye(3),
                                       calculator=rec, is_nac=False, **common)
                    if route == "disp":
                        ph0.generate_displacements(distance=0.01 / length_factor)
                        ph0.save("phonopy_disp.yaml")
                        src = "phonopy_disp.yaml"
                    else:
                        ph0.force_constants = fc
                        ph0.save("phonopy_params.yaml", settings={"force_constants": True})
                        src = "phonopy_params.yaml"
                    kw = dict(calculator=calc) if route == "conflict" else {}
                if nacmode == "born":      # written only now: ph0 above must not pick it up
                    with open("BORN", "w") as f:
                        f.write(_born_text(ref))
                    nac_kw = dict(is_nac=True)
                ph = phonopy.load(src, **kw, **nac_kw, **common) if src else phonopy.load(**kw, **nac_kw, **common)
                ph.force_constants = fc
                ph.run_qpoints(QPTS)
                fq = ph.get_qpoints_dict()["frequencies"].copy()
                ph.run_qpoints([[0, 0, 0]], nac_q_direction=[1, 0, 0] if nacmode != "none" else None)
                fg = ph.get_qpoints_dict()["frequencies"][0].copy()
                npar = ph.nac_params
        finally:
            os.chdir(old)
    return dict(reported=str(ph.calculator), factor=float(ph.unit_conversion_factor),
                nac=(None if not npar or "factor" not in npar else float(npar["factor"])), fq=fq, fg=fg,
                th=np.zeros((3, 4)))
