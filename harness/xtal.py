"""Realisation of the specification's abstract (integer) crystals as real
PhonopyAtoms, and projection of real cells back to the abstract state."""
from __future__ import annotations

import numpy as np


def random_rotation(rng):
    q, r = np.linalg.qr(rng.normal(size=(3, 3)))
    q = q * np.sign(np.diag(r))
    if np.linalg.det(q) < 0:
        q[:, 0] = -q[:, 0]
    return q


def lattice_from_gram(G, a=1.0, rng=None):
    """Rows = basis vectors with L L^T = a^2 G; randomly oriented when rng given."""
    L = np.linalg.cholesky(np.array(G, dtype=float)) * a
    if rng is not None:
        L = L @ random_rotation(rng)
    if np.linalg.det(L) < 0:
        L = -L
    return np.ascontiguousarray(L)


def triclinic_lattice(rng, scale=4.0):
    while True:
        L = np.eye(3) * scale + rng.uniform(-0.9, 0.9, size=(3, 3))
        if np.linalg.det(L) > 0.5 * scale ** 3:
            return L


SYMBOLS = ["Na", "Cl", "Si", "O", "Ti", "H", "Al", "N"]


def make_cell(num, D, lattice, species=None, masses=None, magmoms=None):
    from phonopy.structure.atoms import PhonopyAtoms

    n = len(num)
    species = species if species is not None else list(range(n))
    symbols = [SYMBOLS[s % len(SYMBOLS)] for s in species]
    pos = np.array(num, dtype=float) / D
    return PhonopyAtoms(symbols=symbols, scaled_positions=pos.reshape(n, 3), cell=lattice,
                        masses=masses, magnetic_moments=magmoms)


def project_to_unit(cart_positions, unit_lattice, D):
    """Cartesian positions -> integer numerators over D in unit-cell coordinates.
    Returns (int array, max residual)."""
    x = np.dot(cart_positions, np.linalg.inv(unit_lattice)) * D
    u = np.rint(x)
    return u.astype(int), float(np.abs(x - u).max()) if len(x) else 0.0
