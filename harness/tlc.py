"""Run TLC on a module of /verif/spec and parse what it reports."""
from __future__ import annotations

import os
import re
import shutil
import subprocess
import tempfile
import time

from . import tla_values

VERIF = os.path.dirname(os.path.dirname(os.path.abspath(__file__)))
SPEC = os.path.join(VERIF, "spec")
JARS = "/opt/veriftools/tla/tla2tools.jar:/opt/veriftools/tla/CommunityModules-deps.jar"
NCPU = os.cpu_count() or 4


class TLCResult:
    def __init__(self):
        self.rc = None
        self.stdout = ""
        self.generated = 0
        self.distinct = 0
        self.depth = 0
        self.violated = None  # name of invariant / property violated
        self.kind = None  # 'invariant' | 'action_property' | 'temporal' | 'assumption' | 'deadlock' | 'postcondition' | 'error'
        self.trace = []  # [(action, state)]
        self.wall = 0.0
        self.coverage = {}  # action -> (distinct, total)
        self.printed = []  # values printed with PrintT / Print
        self.cmd = ""
        self.rundir = None

    @property
    def ok(self):
        return self.rc == 0 and self.violated is None

    def summary(self):
        return dict(states=self.distinct, transitions=self.generated, depth=self.depth,
                    wall_s=round(self.wall, 2), violated=self.violated)


class MachineryError(Exception):
    pass


_re_final = re.compile(r"(\d+) states generated, (\d+) distinct states found")
_re_depth = re.compile(r"The depth of the complete state graph search is (\d+)")
_re_inv = re.compile(r"Invariant (\S+) is violated")
_re_act = re.compile(r"Action property (\S+) is violated")
_re_assume = re.compile(r"Assumption (.*) is false")
_re_cov = re.compile(r"^<(\w+) line \d+, col \d+ to line \d+, col \d+ of module (\w+)>: (\d+):(\d+)", re.M)
_re_sim = re.compile(r"The number of states generated: (\d+)")


def new_rundir(tag="run"):
    base = os.path.join(VERIF, ".run")
    os.makedirs(base, exist_ok=True)
    return tempfile.mkdtemp(prefix=tag + "_", dir=base)


def run(module, cfg=None, *, cfg_text=None, workers=None, dump=False, simulate=None,
        depth=None, seed=None, coverage=False, env=None, timeout=3600, deadlock=None,
        rundir=None, keep=False, extra_files=None, dfs=False, extra_args=()):
    """Run TLC on spec/<module>.tla with spec/<cfg> (or literal cfg_text).

    All modules of /verif/spec are copied into a private run directory, so runs
    do not interfere and generated files never land in the tree.
    simulate: dict(num=..., file=bool) -> -simulate mode.
    """
    own = rundir is None
    rundir = rundir or new_rundir(module)
    for f in os.listdir(SPEC):
        if f.endswith(".tla"):
            shutil.copy(os.path.join(SPEC, f), rundir)
    for name, text in (extra_files or {}).items():
        with open(os.path.join(rundir, name), "w") as fh:
            fh.write(text)
    cfgname = module + "_run.cfg"
    if cfg_text is None:
        with open(os.path.join(SPEC, cfg or (module + ".cfg"))) as fh:
            cfg_text = fh.read()
    with open(os.path.join(rundir, cfgname), "w") as fh:
        fh.write(cfg_text)
    workers = workers or NCPU
    java = ["java", "-XX:+UseParallelGC", "-Xmx6g", "-Xss32m"]
    if dfs:
        java.append("-Dtlc2.tool.queue.IStateQueue=StateDeque")
    cmd = java + ["-cp", JARS, "tlc2.TLC", "-workers", str(workers), "-metadir",
                  os.path.join(rundir, "md"), "-noGenerateSpecTE", "-config", cfgname]
    if deadlock is False:
        pass  # set CHECK_DEADLOCK FALSE in cfg
    if dump:
        cmd += ["-dump", os.path.join(rundir, "states")]
    if coverage:
        cmd += ["-coverage", "1"]
    simdir = None
    if simulate:
        spec = "num=%d" % simulate.get("num", 100)
        if simulate.get("file"):
            simdir = os.path.join(rundir, "sim")
            os.makedirs(simdir, exist_ok=True)
            spec = "file=%s/tr,%s" % (simdir, spec)
        cmd += ["-simulate", spec]
        if depth:
            cmd += ["-depth", str(depth)]
    if seed is not None:
        cmd += ["-seed", str(seed)]
    cmd += list(extra_args)
    cmd.append(module + ".tla")
    e = dict(os.environ)
    e.pop("JAVA_TOOL_OPTIONS", None)
    if env:
        e.update({k: str(v) for k, v in env.items()})
    res = TLCResult()
    res.cmd = " ".join(cmd)
    res.rundir = rundir
    t0 = time.time()
    try:
        p = subprocess.run(cmd, cwd=rundir, env=e, stdout=subprocess.PIPE,
                           stderr=subprocess.STDOUT, timeout=timeout)
    except subprocess.TimeoutExpired as ex:
        subprocess.run(["pkill", "-f", os.path.join(rundir, "md")])
        if simulate:
            res.stdout = (ex.stdout or b"").decode(errors="replace")
            res.rc = 0
        else:
            if own and not keep:
                shutil.rmtree(rundir, ignore_errors=True)
            raise MachineryError("TLC timeout after %ss: %s" % (timeout, module))
    else:
        res.stdout = p.stdout.decode(errors="replace")
        res.rc = p.returncode
    res.wall = time.time() - t0
    out = res.stdout
    m = None
    for m in _re_final.finditer(out):
        pass
    if m:
        res.generated, res.distinct = int(m.group(1)), int(m.group(2))
    else:
        m = _re_sim.search(out)
        if m:
            res.generated = res.distinct = int(m.group(1))
    m = _re_depth.search(out)
    if m:
        res.depth = int(m.group(1))
    for mm in _re_cov.finditer(out):
        res.coverage[mm.group(1)] = (int(mm.group(3)), int(mm.group(4)))
    m = _re_inv.search(out)
    if m:
        res.violated, res.kind = m.group(1), "invariant"
    m2 = _re_act.search(out)
    if m2 and not res.violated:
        res.violated, res.kind = m2.group(1), "action_property"
    if not res.violated and "Temporal properties were violated" in out:
        res.violated, res.kind = "temporal", "temporal"
    if not res.violated and "Deadlock reached" in out:
        res.violated, res.kind = "deadlock", "deadlock"
    m3 = _re_assume.search(out)
    if m3 and not res.violated:
        res.violated, res.kind = "ASSUME " + m3.group(1)[:80], "assumption"
    if not res.violated and re.search(r"[Pp]ost-?condition.*(violated|false)", out):
        res.violated, res.kind = "postcondition", "postcondition"
    # An invariant whose value does not depend on the state (it only reads the MC constants of this run) and
    # is FALSE is reported by TLC as "The invariant of X is equal to FALSE" (rc 151) before any state is
    # generated: that IS a violation of X (in every state), not a machinery failure.
    mc = re.search(r"The invariant of (\S+) is equal to FALSE", out)
    const_false = None
    if mc and not res.violated:
        res.violated, res.kind = mc.group(1), "invariant"
        const_false = mc.group(1)
    res.violations = []  # all (name, trace) pairs when run with -continue
    if const_false:
        res.violations.append((const_false, []))
        res.trace = []
    elif res.violated:
        ms = list(re.finditer(r"(?:Invariant|Action property) (\S+) is violated", out))
        for i, mm in enumerate(ms):
            end = ms[i + 1].start() if i + 1 < len(ms) else len(out)
            res.violations.append((mm.group(1), tla_values.parse_error_trace(out[mm.end():end])))
        res.trace = res.violations[0][1] if res.violations else tla_values.parse_error_trace(out)
    elif res.rc not in (0, None):
        # parse / semantic / evaluation error: machinery failure
        if own and not keep:
            shutil.rmtree(rundir, ignore_errors=True)
        i = out.find("Error:")
        head = out[i:i + 2500] if i >= 0 else out[-2500:]
        try:
            with open(os.path.join(VERIF, ".run", "last_tlc_failure_%s.log" % module), "w") as fh:
                fh.write(out)
        except OSError:
            pass
        raise MachineryError("TLC failed rc=%s on %s\n%s" % (res.rc, module, head))
    if dump:
        res.dump_path = os.path.join(rundir, "states.dump")
    if simdir:
        res.simdir = simdir
    res._own = own
    res._keep = keep
    return res


def cleanup(res):
    if res.rundir and os.path.isdir(res.rundir):
        shutil.rmtree(res.rundir, ignore_errors=True)


def printed_values(stdout):
    """Values printed by PrintT(<<...>>): lines that parse as TLA+ values (bracket matching
    across lines; safe for -workers 1)."""
    vals = []
    buf = ""
    depth = 0
    for line in stdout.splitlines():
        if depth == 0 and not line.startswith(("<<", "[", "{", "(")):
            continue
        buf += line + "\n"
        depth += line.count("<<") + line.count("[") + line.count("{") + line.count("(")
        depth -= line.count(">>") + line.count("]") + line.count("}") + line.count(")")
        if depth <= 0:
            try:
                vals.append(tla_values.parse_value(buf))
            except ValueError:
                pass
            buf = ""
            depth = 0
    return vals


def sany(module):
    cmd = ["java", "-cp", JARS, "tla2sany.SANY", module + ".tla"]
    p = subprocess.run(cmd, cwd=SPEC, stdout=subprocess.PIPE, stderr=subprocess.STDOUT)
    out = p.stdout.decode()
    ok = p.returncode == 0 and "error" not in out.lower().replace("errors: 0", "")
    return ok, out
