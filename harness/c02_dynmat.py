"""Shared driver of C02 and C03: binds spec/DynMat.tla (+DynMatTrace.tla) to
phonopy's dynamical-matrix code.

code -> spec : real sessions Phonopy(unitcell, S, P, store_dense_svecs) are
  projected to case records (atom order, p2s/s2p, masses, svecs table as exact
  integers) and judged by TLC (DynMatTrace).
spec -> code : TLC publishes, per case, the force-constant rows, the Hermitian
  Fourier series `herm`, the definition series `def`, the commensurate q-set,
  the probe q/G points and the reciprocal point groups; this module realises
  them as arrays, drives the real kernels (compiled batch solver through
  run_qpoints, compiled single-q DynamicalMatrix.run, pure-Python
  DynamicalMatrix.run(lang='Py'); full and compact arrays; dense and sparse
  svecs) and compares.  exp / sqrt / eigvalsh and the change to Cartesian
  components are the named primitives interpreted here, never by phonopy code.
"""
from __future__ import annotations

import contextlib
import io
import math
import os
import re

import numpy as np

from harness import bootstrap  # noqa: F401
from harness import tla_values, xtal
from harness import tlc as tlcmod
from harness.tla_values import to_tla

P1 = ([[1, 0, 0], [0, 1, 0], [0, 0, 1]], 1)
PF = ([[0, 1, 1], [1, 0, 1], [1, 1, 0]], 2)
PI = ([[-1, 1, 1], [1, -1, 1], [1, 1, -1]], 2)
PSHEAR = ([[1, 1, 0], [0, 1, 0], [0, 0, 1]], 1)  # another basis of the same lattice
PSWAP = ([[0, 1, 0], [0, 0, 1], [1, 0, 0]], 1)   # cyclic relabelling of the axes


def diag(a, b, c):
    return [[a, 0, 0], [0, b, 0], [0, 0, c]]


ROT45 = [[1, 1, 0], [-1, 1, 0], [0, 0, 1]]
ROT45x2 = [[1, 1, 0], [-1, 1, 0], [0, 0, 2]]
FCCLIKE = [[0, 1, 1], [1, 0, 1], [1, 1, 0]]
BCCLIKE = [[-1, 1, 1], [1, -1, 1], [1, 1, -1]]
SHEAR2 = [[2, 1, 0], [0, 2, 0], [0, 0, 1]]
DET3 = [[2, -1, 0], [1, 1, 0], [0, 0, 1]]
HEX3 = [[1, -1, 0], [1, 2, 0], [0, 0, 1]]
CYC = [[1, 1, 0], [0, 1, 1], [1, 0, 1]]
NEG = [[-1, 0, 0], [0, -2, 0], [0, 0, 1]]   # negative entries, positive determinant

# geometry space: (entry, S, (Pn, Pd)).  Tiers take prefixes / subsets.
GEOMS_QUICK = [
    ("sc", diag(2, 2, 2), P1), ("sc", diag(3, 3, 3), P1), ("sc", ROT45x2, PSHEAR), ("sc", DET3, PSWAP),
    ("cscl", diag(2, 2, 2), P1), ("cscl", FCCLIKE, P1),
    ("nacl", diag(1, 1, 1), PF), ("nacl", ROT45, PF), ("nacl", diag(2, 2, 2), PF),
    ("naclg", diag(2, 1, 1), PF), ("naclg", diag(1, 1, 1), P1),
    ("bcc", diag(2, 2, 2), PI), ("bcc", FCCLIKE, PI),
    ("hcp", HEX3, P1), ("hcp", diag(3, 3, 2), P1),
    ("wz", diag(2, 2, 1), P1),
    ("tric", CYC, P1), ("tric", NEG, P1),
    ("tetab", ROT45x2, P1), ("tetab", diag(3, 3, 2), P1),
]
GEOMS_MORE = [
    ("sc", BCCLIKE, P1), ("sc", diag(4, 1, 2), P1), ("sc", SHEAR2, P1), ("sc", FCCLIKE, PSHEAR), ("sc", diag(4, 4, 4), P1),
    ("cscl", ROT45, P1), ("cscl", diag(3, 3, 3), P1), ("cscl", SHEAR2, PSWAP), ("cscl", DET3, P1), ("cscl", BCCLIKE, P1),
    ("nacl", diag(2, 1, 1), PF), ("nacl", diag(1, 1, 1), P1), ("nacl", diag(1, 1, 2), PF), ("nacl", ROT45x2, PF),
    ("naclg", diag(2, 2, 2), PF), ("naclg", ROT45, PF), ("naclg", diag(1, 2, 1), P1),
    ("bcc", diag(3, 3, 3), PI), ("bcc", diag(1, 1, 1), PI), ("bcc", diag(2, 2, 2), P1), ("bcc", ROT45x2, PI),
    ("bcc", diag(4, 4, 4), PI),
    ("hcp", diag(2, 2, 1), P1), ("hcp", diag(2, 2, 2), P1), ("hcp", diag(3, 3, 1), P1),
    ("hcp", [[2, 1, 0], [0, 1, 0], [0, 0, 2]], P1), ("hcp", diag(4, 4, 2), P1),
    ("wz", HEX3, P1), ("wz", diag(2, 2, 2), P1), ("wz", diag(3, 3, 1), P1), ("wz", diag(1, 1, 2), P1),
    ("tric", diag(2, 1, 2), P1), ("tric", diag(2, 2, 2), P1), ("tric", SHEAR2, P1), ("tric", DET3, PSHEAR),
    ("tric", diag(3, 2, 2), P1),
    ("tetab", diag(2, 2, 2), P1), ("tetab", diag(2, 2, 1), P1), ("tetab", ROT45, P1), ("tetab", CYC, P1),
    ("tetab", diag(4, 4, 3), P1),
]

# CODATA-2018 realisation of the named unit factor sqrt(eV/amu)/Angstrom/(2 pi) in THz
UNIT_FACTOR = math.sqrt(1.602176634e-19 / 1.66053906660e-27) / 1.0e-10 / (2 * math.pi) / 1.0e12

SYMBOL_OF = {1: "Na", 2: "Cl", 3: "Si", 4: "O"}
_CAT = {}
_ORACLES = {}


def catalogue(ctx=None):
    """geometry of the catalogue entries, published by TLC (spec/DynMatCatalogue.tla)."""
    if not _CAT:
        cfg = "INIT Init\nNEXT Next\nCHECK_DEADLOCK FALSE\nINVARIANT WellFormed\n"
        if ctx is not None:
            res = ctx.tlc("DynMatCatalogue", cfg_text=cfg, dump=True, keep=True, workers=1, requirement=False)
        else:
            res = tlcmod.run("DynMatCatalogue", cfg_text=cfg, dump=True, keep=True, workers=1)
        try:
            if res.violated:
                raise tlcmod.MachineryError("catalogue entry not well formed: %s" % res.violated)
            for c in tla_values.parse_dump(res.dump_path)[0]["cat"]:
                _CAT[c["name"]] = c
        finally:
            tlcmod.cleanup(res)
    return _CAT


class Xtal:
    """One catalogue entry realised on a real, randomly oriented lattice with the entry's Gram
    matrix (never calls phonopy numerics)."""

    def __init__(self, cr, seed, a=2.0):
        self.cr = cr
        self.o = dict(entry=cr["name"])
        self.D = cr["D"]
        self.G = np.array(cr["G"], dtype=float)
        self.L = xtal.lattice_from_gram(self.G, a=a, rng=np.random.default_rng(seed))
        self.Linv = np.linalg.inv(self.L)
        self.species = [at["sp"] for at in cr["atoms"]]
        self.masses = [float(at["m"]) for at in cr["atoms"]]
        self.num = [list(at["num"]) for at in cr["atoms"]]

    def unitcell(self):
        from phonopy.structure.atoms import PhonopyAtoms

        return PhonopyAtoms(symbols=[SYMBOL_OF[s] for s in self.species],
                            scaled_positions=np.array(self.num, dtype=float) / self.D,
                            cell=self.L, masses=self.masses)


def oracle(entry, seed, ctx=None):
    k = (entry, seed)
    if k not in _ORACLES:
        _ORACLES[k] = Xtal(catalogue(ctx)[entry], seed)
    return _ORACLES[k]


def pmat(P):
    return np.array(P[0], dtype=float) / P[1]


def quiet():
    return contextlib.redirect_stdout(io.StringIO())


def make_session(orc, S, P, dense):
    from phonopy import Phonopy

    with quiet():
        return Phonopy(orc.unitcell(), supercell_matrix=S, primitive_matrix=pmat(P),
                       store_dense_svecs=dense, log_level=0)


class ProjectionError(Exception):
    """The real state does not project onto the abstract domain (non-integer where the
    specification has integers): reported as a violation by the callers."""


def project_session(ph, orc, S, P, layout, store, fck, scale, cid):
    """Real session -> case record of DynMat.tla."""
    D = orc.D
    sc = ph.supercell
    u, resid = xtal.project_to_unit(sc.positions, orc.L, D)
    if resid > 1e-6:
        raise ProjectionError("supercell positions off the 1/D grid by %g" % resid)
    atoms = []
    for k in range(len(sc)):
        a = None
        for ai, n in enumerate(orc.num):
            if all((int(u[k][c]) - n[c]) % D == 0 for c in range(3)) and SYMBOL_OF[orc.species[ai]] == sc.symbols[k]:
                a = ai + 1
                break
        if a is None:
            raise ProjectionError("supercell atom %d is not an image of a unit-cell atom" % k)
        atoms.append(dict(a=a, u=[int(v) for v in u[k]]))
    prim = ph.primitive
    svecs, multi = prim.get_smallest_vectors()
    Pm = pmat(P)
    ns, npr = len(sc), len(prim)
    tab, mult = [], []
    worst = 0.0
    for k in range(ns):
        row, mrow = [], []
        for i in range(npr):
            if store == "dense":
                m, adrs = int(multi[k, i, 0]), int(multi[k, i, 1])
                v = svecs[adrs:adrs + m]
            else:
                m = int(multi[k, i])
                v = svecs[k, i, :m]
            w = np.dot(v, Pm.T) * D   # primitive -> unit coordinates, numerators over D
            wi = np.rint(w)
            if len(w):
                worst = max(worst, float(np.abs(w - wi).max()))
            row.append(set(tuple(int(c) for c in r) for r in wi))
            mrow.append(m)
        tab.append(row)
        mult.append(mrow)
    if worst > 1e-6:
        raise ProjectionError("shortest vectors off the 1/D grid by %g" % worst)
    pm = np.array(prim.masses, dtype=float)
    pmi = np.rint(pm)
    if not (np.isfinite(pm).all() and (pm > 0).all() and pm.max() < 2000):
        raise ProjectionError("primitive masses are not positive finite numbers: %r" % (pm.tolist(),))
    pmu = np.rint(pm * 1e6)   # micro-units: a mass that is not the catalogue's integer is decided by TLC (ReqMasses)
    # propagation of masses to the three cells (Phonopy.masses setter)
    t = scale["t"]
    s_ok = all(abs(sc.masses[k] - t * orc.masses[atoms[k]["a"] - 1]) < 1e-9 for k in range(ns))
    uc = ph.unitcell
    u_ok = all(abs(uc.masses[a] - t * orc.masses[a]) < 1e-9 for a in range(len(uc)))
    return dict(id=cid, entry=orc.o["entry"], S=[list(map(int, r)) for r in S], Pn=P[0], Pd=P[1], atoms=atoms,
                p2s=[int(v) + 1 for v in prim.p2s_map], s2p=[int(v) + 1 for v in prim.s2p_map],
                pmass=[int(v) for v in pmi], pmassU=[int(v) for v in pmu], svecs=tab, mult=mult, layout=layout, store=store,
                fck=fck, scale=scale, massOK=bool(s_ok and u_ok), cbox=cbox_for(S, P))


def sbox_for(ev, orc):
    """smallest search box for which AssumeSearchComplete can hold (mirror of the criterion,
    with the logged shortest length as the bound); TLC re-checks it exactly."""
    G = np.array(orc.cr["G"], dtype=float)
    Ginv = np.linalg.inv(G)
    D = orc.D
    b = 1
    for k, at in enumerate(ev["atoms"]):
        for i, s in enumerate(ev["p2s"]):
            d = np.array(at["u"]) - np.array(ev["atoms"][s - 1]["u"])
            r = np.array(next(iter(ev["svecs"][k][i])), dtype=float)
            l2 = float(r @ G @ r)
            for c in range(3):
                need = (abs(d[c]) + np.sqrt(l2 * Ginv[c, c])) / D
                b = max(b, int(np.floor(need)) + 1)
    return b


def log_event(ctx, ph, orc, geom, layout, store, fck, scale, cid):
    """project a real session to an event; a session outside the abstract domain is a violation."""
    entry, S, P = geom
    where = dict(entry=entry, S=S, P=P, store=store, layout=layout)
    try:
        ev = project_session(ph, orc, S, P, layout, store, fck, scale, cid)
    except ProjectionError as e:
        ctx.violation("projection:" + layout, "real session does not project: %s" % e, where)
        return None
    if min(min(r) for r in ev["mult"]) < 1:
        ctx.violation("svecs:zero-multiplicity", "a pair has multiplicity 0", where)
        return None
    ev["sbox"] = sbox_for(ev, orc)
    return ev


def event_tla(ev):
    return to_tla({k: v for k, v in ev.items() if not k.startswith("_")})


def binding_selfcheck(ctx, ev, orc):
    """Demonstrate that the trace specification REJECTS wrong tables: one recorded event is corrupted
    in one field at a time; TLC must flag each corruption with the expected judgement.  A corrupted
    trace that is accepted is a failure of the machinery (exit 2), not of phonopy."""
    import copy

    D = orc.D
    S = np.array(ev["S"])
    # a pair with several equidistant images, and any pair
    multi_pair = next(((k, i) for k in range(len(ev["atoms"])) for i in range(len(ev["p2s"]))
                       if ev["mult"][k][i] > 1), None)
    k0, i0 = multi_pair if multi_pair else (len(ev["atoms"]) - 1, 0)
    muts = []

    def mut(name, expect, f):
        e = copy.deepcopy(ev)
        e["id"] = 1000 + len(muts)
        f(e)
        muts.append((name, expect, e))

    def longer(e):   # one stored vector replaced by a LONGER image of the same pair
        r = sorted(e["svecs"][k0][i0])[0]
        e["svecs"][k0][i0] = (e["svecs"][k0][i0] - {r}) | {tuple(int(v) for v in np.array(r) + 2 * D * S[:, 0])}
    mut("svec-longer-image", ["SvecShortestSets"], longer)

    def offclass(e):   # one stored vector moved by a unit-lattice vector that is not a supercell vector
        r = sorted(e["svecs"][k0][i0])[0]
        for t in ([1, 0, 0], [0, 1, 0], [0, 0, 1]):
            if np.abs(np.linalg.solve(S.astype(float), np.array(t, dtype=float)) % 1.0).max() > 1e-9:
                e["svecs"][k0][i0] = (e["svecs"][k0][i0] - {r}) | {tuple(int(v) for v in np.array(r) + D * np.array(t))}
                return
    if abs(round(np.linalg.det(S))) > 1:
        mut("svec-wrong-class", ["SvecCongruent"], offclass)
    if multi_pair:
        def dropped(e):   # one of the equidistant images missing
            r = sorted(e["svecs"][k0][i0])[0]
            e["svecs"][k0][i0] = e["svecs"][k0][i0] - {r}
            e["mult"][k0][i0] -= 1
        mut("svec-missing-image", ["SvecShortestSets"], dropped)

    def badmult(e):
        e["mult"][k0][i0] += 1
    mut("multiplicity", ["Multiplicity"], badmult)

    def badmass(e):
        e["pmass"][0] += 1
        e["pmassU"][0] += 1000000
    mut("mass", ["Masses"], badmass)
    if len(ev["p2s"]) > 1:
        def swapped(e):
            e["p2s"][0], e["p2s"][1] = e["p2s"][1], e["p2s"][0]
        mut("p2s-order", ["ConformsMaps"], swapped)
    if len(ev["atoms"]) > len(ev["p2s"]):
        def wrongs2p(e):   # a supercell atom mapped to a primitive atom of another sublattice / or itself
            k = next(k for k in range(len(e["atoms"])) if (k + 1) not in e["p2s"])
            e["s2p"][k] = k + 1
        mut("s2p", ["CaseWellFormed"], wrongs2p)
    invs = INV_STRUCT + INV_C02 + INV_ASSUME + INV_CONF + ["Hermitian", "GPeriodic", "HermitianBeforeSymmetrisation"]
    res, pubs = run_tlc(ctx, "DynMatTrace", [event_tla(e) for _, _, e in muts], invs, workers=2)
    outcome = {}
    for name, expect, e in muts:
        v = pubs.get(e["id"], {}).get("verdict", {})
        failed = sorted(n for n, ok in v.items() if not ok)
        outcome[name] = failed
        if not all(x in failed for x in expect):
            raise tlcmod.MachineryError("binding self-check: corrupted trace %r not rejected by %s (failed: %s)"
                                        % (name, expect, failed))
    named = set(n for n, _ in res.violations)
    if not named:
        raise tlcmod.MachineryError("binding self-check: TLC reported no invariant violation on corrupted traces")
    ctx.extra["binding_selfcheck"] = dict(corrupted_traces=len(muts), rejected_by=outcome,
                                          tlc_invariants_violated=sorted(named))
    ctx.traces += len(muts)


# ---------------------------------------------------------------------------
# TLC
# ---------------------------------------------------------------------------
INV_STRUCT = ["ReqCaseWellFormed", "ReqSvecCongruent", "ReqSvecShortestSets", "ReqMultiplicity", "ReqMasses",
              "ReqMassesPropagate", "CommQComplete", "PrimRotationsIntegral"]
INV_C02 = ["ImplEqFourierAtCommensurate", "ImplEqFourierShortRange", "ImplEqFourierAtCommensurateQ",
           "SeriesPermSym", "SeriesSumRule", "ChiralBlocksAsymmetric"]
INV_C03 = ["Hermitian", "HermitianBeforeSymmetrisation", "TimeReversal", "GPeriodic", "ASR", "GenBreaksASR",
           "PointGroupDefinition", "PointGroupCovariance", "Scaling"]
INV_ASSUME = ["AssumeSearchComplete"]
INV_CONF = ["ConformsMaps"]


JUDGEMENT_OF = {
    "ReqCaseWellFormed": "CaseWellFormed", "ImplCaseWellFormed": "CaseWellFormed",
    "ReqSvecCongruent": "SvecCongruent", "ImplSvecCongruent": "SvecCongruent",
    "ReqSvecShortestSets": "SvecShortestSets", "ConformsSvecs": "SvecShortestSets",
    "AssumeSearchComplete": "SearchComplete",
    "ReqMultiplicity": "Multiplicity", "ImplMultiplicity": "Multiplicity",
    "ReqMasses": "Masses", "ConformsMasses": "Masses",
    "ReqMassesPropagate": "MassesPropagate", "ImplMassesPropagate": "MassesPropagate",
    "CommQComplete": "CommQComplete",
    "ImplEqFourierAtCommensurate": "EqFourierAtCommensurate", "ImplEqFourierShortRange": "EqFourierShortRange",
    "ImplEqFourierAtCommensurateQ": "EqFourierAtCommensurateQ",
    "Hermitian": "Hermitian", "HermitianBeforeSymmetrisation": "HermitianBeforeSymmetrisation",
    "TimeReversal": "TimeReversal", "GPeriodic": "GPeriodic", "ASR": "ASR", "GenBreaksASR": "GenBreaksASR",
    "PointGroupDefinition": "PointGroupDefinition", "PointGroupCovariance": "PointGroupCovariance",
    "PrimRotationsIntegral": "PrimRotationsIntegral", "Scaling": "Scaling", "ConformsMaps": "ConformsMaps", "TermsAreSpringsTerms": "TermsAreSpringsTerms",
    "SeriesPermSym": "SeriesPermSym", "SeriesSumRule": "SeriesSumRule", "ChiralBlocksAsymmetric": "ChiralBlocksAsymmetric",
}


def cfg_text(invs):
    return ("SPECIFICATION Spec\nCONSTANTS\n Cases <- MCCases\n Judgements <- MCJudgements\n"
            "CHECK_DEADLOCK FALSE\n") + "".join("INVARIANT %s\n" % i for i in invs)


def cbox_for(S, P):
    """smallest box holding one integer row m per class modulo the row lattice of T = P^-1 S
    (TLC re-checks with CommQComplete)."""
    T = np.rint(np.dot(np.linalg.inv(pmat(P)), np.array(S, dtype=float))).astype(int)
    n = abs(int(round(np.linalg.det(T))))
    Tinv = np.linalg.inv(T.astype(float))
    b = 0
    while True:
        rng_ = range(-b, b + 1)
        keys = set()
        for i in rng_:
            for j in rng_:
                for k in rng_:
                    f = np.dot(np.array([i, j, k], dtype=float), Tinv)
                    f = np.rint((f - np.floor(f + 1e-9)) * n).astype(int) % n
                    keys.add(tuple(f))
        if len(keys) >= n:
            return b
        b += 1


# short TLC runs: cheap JIT, few GC threads (the machine is shared)
JAVA_OPTS = os.environ.get("C02_JAVA_OPTS", "-XX:ParallelGCThreads=2")


def _pub_states(dump_path):
    with open(dump_path) as f:
        text = f.read()
    hs = list(re.finditer(r"^State (\d+):[^\n]*$", text, re.M))
    out = []
    for i, h in enumerate(hs):
        end = hs[i + 1].start() if i + 1 < len(hs) else len(text)
        body = text[h.end():end]
        if '/\\ pc = "pub"' in body:
            out.append(tla_values.parse_state_body(body))
    return out


def _fn(v):
    """TLA function value as dict (sequences come back as lists; empty as [])."""
    if isinstance(v, dict):
        return v
    if isinstance(v, (list, tuple)):
        return {i + 1: x for i, x in enumerate(v)}
    raise TypeError(type(v))


def run_tlc(ctx, module, cases_tla, invs, workers=4, coverage=False, timeout=1500):
    """cases_tla: list of TLA+ expressions (case records or ModelCase(...) calls).
    -> (res, {id: published state})"""
    judg = sorted(set(JUDGEMENT_OF[i] for i in invs))
    mc = "---- MODULE MC_%s ----\nEXTENDS %s\nMCCases == {%s}\nMCJudgements == %s\n====\n" % (
        module, module, ",\n".join(cases_tla), to_tla(set(judg)))
    res = ctx.tlc("MC_" + module, cfg_text=cfg_text(invs), extra_files={"MC_%s.tla" % module: mc},
                  requirement=False, extra_args=("-continue",), keep=True, dump=True, workers=workers,
                  coverage=coverage, timeout=timeout, env=dict(JAVA_TOOL_OPTIONS=JAVA_OPTS))
    try:
        pubs = {}
        if os.path.exists(res.dump_path):
            for st in _pub_states(res.dump_path):
                pubs[st["x"]["id"]] = st
    finally:
        tlcmod.cleanup(res)
    return res, pubs


def witness_of(trace):
    if not trace:
        return None
    st = trace[-1][1]
    x = st.get("x", {})
    return dict(id=x.get("id"), entry=x.get("entry"), S=x.get("S"), Pn=x.get("Pn"), Pd=x.get("Pd"),
                layout=x.get("layout"), store=x.get("store"), fck=x.get("fck"), scale=x.get("scale"))


def report_tlc(ctx, res, tag, prop_invs, what, pubs=None):
    """Turn TLC's verdicts into violations.  prop_invs: invariants whose failure is a
    violation of the property; Assume* failures are machinery failures."""
    names = sorted(set(n for n, _ in res.violations))
    wit = {}
    for n, tr in res.violations:
        wit.setdefault(n, witness_of(tr))
    if pubs:  # every failing case, from the published verdicts
        for n in names:
            j = JUDGEMENT_OF.get(n)
            ids = sorted(i for i, st in pubs.items() if st.get("verdict", {}).get(j) is False)
            if wit.get(n) is not None:
                wit[n]["all_failing_case_ids"] = ids[:40]
    bad_assume = [n for n in names if n.startswith("Assume")]
    if bad_assume:
        raise tlcmod.MachineryError("model constant too small: %s fails for %s" % (bad_assume, wit[bad_assume[0]]))
    for n in names:
        if n in prop_invs:
            ctx.violation("%s:%s" % (tag, n), "%s: %s fails (TLC) for %s" % (what, n, wit[n]),
                          dict(invariant=n, witness=wit[n]))
    other = [n for n in names if n not in prop_invs]
    if other:
        ctx.extra.setdefault("other_invariants_violated", {})[tag] = {n: wit[n] for n in other}
    if res.violated and not names:
        raise tlcmod.MachineryError("TLC reported %s without an invariant name:\n%s" % (res.violated, res.stdout[-2000:]))
    return names


# ---------------------------------------------------------------------------
# interpretation of the named primitives on TLC's exact data
# ---------------------------------------------------------------------------
class Published:
    """One published state of DynMat.tla realised for numerical evaluation."""

    def __init__(self, st, orc):
        self.st = st
        self.x = st["x"]
        self.out = st["out"]
        self.orc = orc
        self.D = orc.D
        self.lcm = st["lcm"]
        self.s = self.x["scale"]["s"]
        self.mass = [float(m) for m in st["mass"]]
        self.np = len(self.x["p2s"])
        self.ns = len(self.x["atoms"])
        self.P = np.array(self.x["Pn"], dtype=float) / self.x["Pd"]
        self.Pinv = np.linalg.inv(self.P)
        self.herm = self._series(st["herm"], 2.0 * self.lcm)
        self.defs = self._series(st["def"], 1.0)
        self.shortRange = bool(self.out["shortRange"])

    def _series(self, ser, denom):
        out = {}
        for p, f in _fn(ser).items():
            i, j = p
            f = _fn(f) if f else {}
            if not f:
                out[(i - 1, j - 1)] = (np.zeros((0, 3)), np.zeros((0, 3, 3)))
                continue
            rs = np.array([list(r) for r in f.keys()], dtype=float)
            Ts = np.array([[list(row) for row in T] for T in f.values()], dtype=float) / denom
            # covariant lattice components D^2 Phi~ -> Cartesian Phi
            Ts = np.einsum("ab,nbc,dc->nad", self.orc.Linv, Ts / self.D ** 2, self.orc.Linv)
            out[(i - 1, j - 1)] = (rs, Ts)
        return out

    def q_unit(self, q_prim):
        return np.dot(np.array(q_prim, dtype=float), self.Pinv)

    def evaluate(self, which, q_prim, scale=1.0):
        """sum_r C_r e^{2 pi i q.r/D} / sqrt(m_i m_j)  (q in primitive reciprocal coordinates)."""
        ser = self.herm if which == "herm" else self.defs
        qu = self.q_unit(q_prim)
        dm = np.zeros((3 * self.np, 3 * self.np), dtype=complex)
        for (i, j), (rs, Ts) in ser.items():
            if len(rs) == 0:
                continue
            ph = np.exp(2j * np.pi * np.dot(rs, qu) / self.D)
            blk = np.einsum("n,nab->ab", ph, Ts) * scale / math.sqrt(self.mass[i] * self.mass[j])
            dm[3 * i:3 * i + 3, 3 * j:3 * j + 3] = blk * (self.s if which == "def" else 1.0)
        return dm

    def series_equal(self):
        """are herm and s*def the same formal series (exact integers)?"""
        h, d = _fn(self.st["herm"]), _fn(self.st["def"])
        for p in h:
            hp = _fn(h[p]) if h[p] else {}
            dp = _fn(d[p]) if d[p] else {}
            for r in set(hp) | set(dp):
                a = np.array(hp.get(r, np.zeros((3, 3))), dtype=np.int64)
                b = np.array(dp.get(r, np.zeros((3, 3))), dtype=np.int64) * (2 * self.lcm * self.s)
                if (a != b).any():
                    return False
        return True

    def comm_q_prim(self):
        """commensurate q-points (primitive reciprocal coordinates) chosen by TLC: q_unit = m S^-1."""
        Sinv = np.linalg.inv(np.array(self.x["S"], dtype=float))
        return [np.dot(np.dot(np.array(m, dtype=float), Sinv), self.P) for m in sorted(self.out["commM"])]

    def probe_q_prim(self):
        return [np.array(q[0], dtype=float) / q[1] for q in sorted(self.out["probeQ"], key=repr)]

    def probe_q_classes(self):
        """TLC's probe points by kind: (gamma, generic incommensurate ones, zone-boundary ones)."""
        pts = sorted(self.out["probeQ"], key=lambda q: (q[1], tuple(q[0])))
        gamma = [np.zeros(3) for q in pts if not any(q[0])]
        generic = [np.array(q[0], dtype=float) / q[1] for q in pts if q[1] not in (1, 2)]
        zb = [np.array(q[0], dtype=float) / q[1] for q in pts if q[1] == 2]
        return gamma, generic, zb

    def fc_arrays(self, rng):
        """the force-constant array of the case: rows of the primitive atoms from TLC's fcrow.
        full layout: every other row is noise (the model says they are never read)."""
        rows = np.array(self.st["fcrow"], dtype=float)  # (np, ns, 3, 3) integers D^2 Phi~
        cart = np.einsum("ab,inbc,dc->inad", self.orc.Linv, rows / self.D ** 2, self.orc.Linv)
        compact = np.ascontiguousarray(cart)
        full = rng.normal(size=(self.ns, self.ns, 3, 3)) * (np.abs(cart).max() + 1.0)
        for i, s in enumerate(self.x["p2s"]):
            full[s - 1] = cart[i]
        return np.ascontiguousarray(full), compact


def eig_freqs(dm, factor):
    e = np.linalg.eigvalsh(dm)
    return e, np.sign(e) * np.sqrt(np.abs(e)) * factor


def real_dynmats(ph, qs, langs=("batch", "C", "Py")):
    """the real kernels: {'batch': run_qpoints, 'C': DynamicalMatrix.run, 'Py': run(lang='Py')}"""
    out = {}
    if "batch" in langs:
        with quiet():
            ph.run_qpoints(np.array(qs, dtype=float), with_dynamical_matrices=True)
        d = ph.get_qpoints_dict()
        out["batch"] = np.array(d["dynamical_matrices"])
        out["frequencies"] = np.array(d["frequencies"])
    dmo = ph.dynamical_matrix
    for lang in ("C", "Py"):
        if lang in langs:
            mats = []
            for q in qs:
                dmo.run(np.array(q, dtype=float), lang=lang)
                mats.append(np.array(dmo.dynamical_matrix))
            out[lang] = np.array(mats)
    return out
