"""X04: the exact spring-model oracle (harness/springs.py + oracle.py) for the entries of spec/IrrepsCatalogue.tla.
Same computation, by TLC, through spec/IrrepsSpringsDump.tla (SpringsDump with the extended catalogue); the Oracle class
is reused unchanged apart from where the integers come from."""
from __future__ import annotations

import hashlib
import json
import os

import numpy as np

from . import springs, xtal
from . import tlc as tlcmod
from . import tla_values
from .oracle import Oracle
from .tla_values import to_tla

_MODS = ["IntLinAlg", "Crystal", "Springs", "Catalogue", "IrrepsCatalogue", "IrrepsSpringsDump"]
BASE = {"sc", "cscl", "nacl", "naclg", "bcc", "hcp", "wz", "tric", "tetab"}


def _spec_hash():
    h = hashlib.blake2b(digest_size=8)
    for m in _MODS:
        with open(os.path.join(tlcmod.SPEC, m + ".tla"), "rb") as f:
            h.update(f.read())
    return h.hexdigest()


def compute(entry, mats, repbox=3, ctx=None):
    if entry in BASE:
        return springs.compute(entry, mats, repbox=repbox, ctx=ctx)
    mats = [[[int(x) for x in r] for r in m] for m in mats]
    key = hashlib.blake2b(json.dumps(["x04", entry, mats, repbox, _spec_hash()]).encode(), digest_size=10).hexdigest()
    cdir = os.path.join(tlcmod.VERIF, ".cache", "springs")
    os.makedirs(cdir, exist_ok=True)
    cpath = os.path.join(cdir, key + ".json")
    if os.path.exists(cpath):
        with open(cpath) as f:
            out = json.load(f)
    else:
        mc = ("---- MODULE MC_IrrepsSpringsDump ----\nEXTENDS IrrepsSpringsDump\nMCEntry == %s\nMCMats == %s\nMCRepBox == %d\n====\n"
              % (to_tla(entry), "{" + ", ".join(to_tla(m) for m in mats) + "}", repbox))
        res = tlcmod.run("MC_IrrepsSpringsDump", cfg_text=springs.CFG, extra_files={"MC_IrrepsSpringsDump.tla": mc}, dump=True, keep=True)
        try:
            if res.violated:
                raise tlcmod.MachineryError("spring model of %s violates %s (specification defect)" % (entry, res.violated))
            states = tla_values.parse_dump(res.dump_path)
        finally:
            tlcmod.cleanup(res)
        out = dict(entry=entry, cells={}, tlc=dict(states=res.distinct, transitions=res.generated, wall_s=round(res.wall, 2)))
        for st in states:
            if st["pc"] == "series":
                out["terms"] = [dict(a=t["a"], b=t["b"], t=t["t"], r=t["r"], T=t["T"]) for t in st["terms"]] \
                    if not isinstance(st["terms"], frozenset) else [dict(x) for x in map(dict, st["terms"])]
                out["crystal"] = st["cr"]
                out["aut"] = [[list(map(list, p[0])), list(p[1])] for p in st["aut"]]
            elif st["pc"] == "built":
                out["cells"][json.dumps(st["S"])] = dict(S=st["S"], atoms=st["atoms"], fc=st["fc"])
        tmp = cpath + ".tmp%d" % os.getpid()
        with open(tmp, "w") as f:
            json.dump(out, f)
        os.replace(tmp, cpath)
    if ctx is not None:
        ctx.states += out["tlc"]["states"]
        ctx.transitions += out["tlc"]["transitions"]
        ctx.tlc_runs.append(dict(module="IrrepsSpringsDump", cfg="(generated)", entry=entry, **out["tlc"]))
    return out


class XOracle(Oracle):
    def __init__(self, entry, mats, a=2.0, seed=0, rotate=True, ctx=None, repbox=3):
        self.o = compute(entry, mats, repbox=repbox, ctx=ctx)
        self.cr = self.o["crystal"]
        self.D = self.cr["D"]
        self.G = np.array(self.cr["G"], dtype=float)
        rng = np.random.default_rng(seed)
        self.a = a
        self.L = xtal.lattice_from_gram(self.G, a=a, rng=rng if rotate else None)
        self.Linv = np.linalg.inv(self.L)
        self.species = [at["sp"] for at in self.cr["atoms"]]
        self.masses = [float(at["m"]) for at in self.cr["atoms"]]
        self.num = [at["num"] for at in self.cr["atoms"]]
