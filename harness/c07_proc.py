"""C07 process histories: handle the named crystals, in the given order, in THIS Python process
and print (JSON) what every compact-layout routine and the space-group route returned for each.

    python -m harness.c07_proc '{"seed": 0, "names": ["ab221", "ab411"]}'

A single name gives the crystal's results in isolation.  Inputs and lattices depend on
(seed, name) only, so a crystal gets the same arrays wherever it stands in a history.
Each crystal is built only when its turn comes (building it already calls phonopy)."""
from __future__ import annotations

import json
import sys
import zlib

import numpy as np

from harness import bootstrap  # noqa: F401
from harness import c07_real as R

# crystals used only here: same cell with different supercell matrices of equal determinant, ...
PROC_SPECS = [
    dict(name="ab221", sym=["Na", "Cl"], num=[[0, 0, 0], [1, 1, 1]], D=2, lat="tric", S=[2, 2, 1], P=None),
    dict(name="ab411", sym=["Na", "Cl"], num=[[0, 0, 0], [1, 1, 1]], D=2, lat="tric", S=[4, 1, 1], P=None),
    dict(name="ab141", sym=["Na", "Cl"], num=[[0, 0, 0], [1, 1, 1]], D=2, lat="tric", S=[1, 4, 1], P=None),
    dict(name="sc124", sym=["Na"], num=[[0, 0, 0]], D=1, lat="tric", S=[1, 2, 4], P=None),
    dict(name="sc118", sym=["Na"], num=[[0, 0, 0]], D=1, lat="tric", S=[1, 1, 8], P=None),
    dict(name="sc141", sym=["Na"], num=[[0, 0, 0]], D=1, lat="tric", S=[1, 4, 1], P=None),
    dict(name="scnd4", sym=["Na"], num=[[0, 0, 0]], D=1, lat="tric", S=[[1, 1, 0], [-1, 1, 0], [0, 0, 2]], P=None),
    dict(name="bccP112", sym=["Na", "Na"], num=[[0, 0, 0], [1, 1, 1]], D=2, lat="cubic", S=[1, 1, 2], P=None),
]


def spec_of(name):
    for sp in PROC_SPECS + R.SPECS:
        if sp["name"] == name:
            return sp
    raise KeyError(name)


def bundle(rs, xc, xf):
    """-> record [arr, shown, tables, exact] of literals (see Result in spec/SymProcess.tla)."""
    fl = dict(exact=True, bitexact=True)
    arr = {}
    shown = 0

    def guarded(route, fn):
        try:
            arr[route] = fn()
        except Exception as e:  # a routine working with another crystal's tables may well raise
            arr[route] = R.UNREPRESENTABLE
            fl["exact"] = False
            fl.setdefault("raised", []).append("%s: %s" % (route, type(e).__name__))

    if rs.np_ != rs.ns:
        K = R.denom(rs.ns, 1)
        guarded("sym", lambda: R.project(R.fn_compact(rs, xc, 1), K, fl))
        guarded("symapi", lambda: R.project(R.api_symmetrize(rs, xc, 1), K, fl))
        guarded("transpose", lambda: R.project(R.fn_transpose(rs, xc), 1, fl))
        try:
            out, text = R.fn_drift(rs, xc)
            arr["drift"] = R.project(out, 1, fl)
            shown = R.parse_drift(text, fl)
        except Exception as e:
            arr["drift"] = R.UNREPRESENTABLE
            shown = dict(first=dict(num=0, den=1, k=0, l=0), second=dict(num=0, den=1, k=0, l=0))
            fl["exact"] = False
        guarded("expand", lambda: R.project(R.fn_expand(rs, xc), 1, fl))
        guarded("tocompact", lambda: R.project(R.fn_tocompact(rs, xf), 1, fl))
    if rs.ops is not None:
        guarded("sg", lambda: R.project(rs.to_frame(R.api_sg(rs, rs.to_cart(xf))), len(rs.ops), fl))
    prim = rs.prim
    s2pp, nsym = R.FCM.get_nsym_list_and_s2pp(prim.s2p_map, prim.p2p_map, prim.atomic_permutations)
    return dict(arr=arr, shown=shown, tables=dict(s2pp=[int(v) for v in s2pp], nsym=[int(v) for v in nsym]),
                exact=bool(fl["exact"]), raised=fl.get("raised", []))


def handle(name, seed):
    rng = np.random.default_rng([seed, zlib.crc32(name.encode())])
    rs = R.RealSystem(spec_of(name), rng)
    xc = rng.integers(-2, 3, size=(rs.np_, rs.ns, 3, 3))
    xf = rng.integers(-2, 3, size=(rs.ns, rs.ns, 3, 3))
    rec = rs.record()
    rec.pop("log_s2pp", None)
    rec.pop("log_nsym", None)
    return dict(sys=name, record=rec, inputs=dict(c=R.arr_lit(xc), f=R.arr_lit(xf)), out=bundle(rs, xc, xf))


def main():
    req = json.loads(sys.argv[1])
    res = [handle(n, req["seed"]) for n in req["names"]]
    sys.stdout.write("C07PROC " + json.dumps(res) + "\n")


if __name__ == "__main__":
    main()
