"""Regenerate DESIGN.md section 11.4 (table of repaired defects and list of recorded findings) from
known_findings.json, and section 11.5's table from seeded/ (harness.seeded_table).  Text outside the
generated blocks is left alone."""
import io
import json
import os
import re
import contextlib

VERIF = os.path.dirname(os.path.dirname(os.path.abspath(__file__)))


def fixed_table(k):
    rows = ["| property | commit | what failed |", "|---|---|---|"]
    for f in k["fixed"]:
        m = re.match(r"fixed: property=(\S+) (\S+) (.*)", f)
        pid, commit, what = m.groups()
        if pid.startswith("X"):
            pid += "(extra)"
        rows.append("| %s | `%s` | %s |" % (pid, commit, what.replace("|", "/")))
    return "\n".join(rows)


def findings_list(k):
    groups = {}
    for f in k["findings"]:
        groups.setdefault(f["property"], []).append(f)
    out = []
    for pid, fs in groups.items():
        if pid == "C15":
            continue  # described by hand (13 alias classes)
        for f in fs:
            key = f.get("key") or f.get("key_prefix")
            out.append("* **%s** — key `%s`: %s" % (pid, key, f["what"]))
    return "\n".join(out)


def main():
    p = os.path.join(VERIF, "DESIGN.md")
    s = open(p).read()
    k = json.load(open(os.path.join(VERIF, "known_findings.json")))
    # 11.4 table
    i = s.index("| property | commit | what failed |")
    j = s.index("\n\n", i)
    s = s[:i] + fixed_table(k) + s[j:]
    # recorded findings other than C15
    i = s.index("* **X03** — key")
    j = s.index("\n\n", i)
    s = s[:i] + findings_list(k) + s[j:]
    # 11.5 table
    from . import seeded_table
    buf = io.StringIO()
    with contextlib.redirect_stdout(buf):
        seeded_table.main()
    i = s.index("| seed | property | change (file) |")
    j = s.index("\n\n", i) if "\n\n" in s[i:] else len(s)
    s = s[:i] + buf.getvalue().rstrip("\n") + s[j:]
    open(p, "w").write(s)
    print("DESIGN.md 11.4 / 11.5 regenerated: %d fixed, %d findings" % (len(k["fixed"]), len(k["findings"])))


if __name__ == "__main__":
    main()
