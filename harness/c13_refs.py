"""C13 - reference semantics of the 19 compiled kernels at the extension boundary.

REF[kernel](args) -> dict(out={argpos: expected array}, ret=expected return)

The in-repository Python version is used where one exists with the same
signature level (tetrahedron tables and weights, tetrahedra frequencies,
permutation search); the others are direct numpy transcriptions of the
documented formulae (comments in c/*.c, docstrings in phonopy/harmonic/*.py),
written from the definition (whole-array expressions, complex arithmetic,
full <-> compact expansion), not by copying the loops of the C code.
Arguments are never modified.
"""
from __future__ import annotations

import numpy as np

KB = 8.6173382568083159e-05


def _c(a):
    """double view (..., 2n) -> complex (..., n)."""
    a = np.ascontiguousarray(a)
    return a.view("complex128")


def _phase_mean(q, svecs, multi_pair):
    m, adrs = int(multi_pair[0]), int(multi_pair[1])
    v = svecs[adrs:adrs + m]
    return np.exp(2j * np.pi * (v @ q)).sum() / m


# ---- dynamical matrices -------------------------------------------------------
def _dielectric_part(q, eps):
    return float(q @ eps @ q)


def _charge_sum(num_patom, factor, q_cart, born):
    qb = np.einsum("k,ikj->ij", q_cart, born)  # (natom, 3)
    return np.einsum("ia,jb->ijab", qb, qb) * factor


def _dm_at_q(fc, q, svecs, multi, masses, s2p, p2s, charge_sum=None):
    npa = len(p2s)
    nsa = len(s2p)
    dm = np.zeros((npa * 3, npa * 3), dtype=complex)
    for i in range(npa):
        for j in range(npa):
            blk = np.zeros((3, 3), dtype=complex)
            for k in range(nsa):
                if s2p[k] != p2s[j]:
                    continue
                elem = fc[p2s[i], k].astype(complex)
                if charge_sum is not None:
                    elem = elem + charge_sum[i, j]
                blk += elem * _phase_mean(q, svecs, multi[k, i])
            dm[3 * i:3 * i + 3, 3 * j:3 * j + 3] = blk / np.sqrt(masses[i] * masses[j])
    return (dm + dm.conj().T) / 2


def _get_dd(G_list, num_patom, q_cart, q_dir_cart, eps, pos, lam, tol):
    L2 = 4 * lam * lam
    K = G_list + q_cart
    KK = np.zeros((len(G_list), 3, 3))
    for g, k in enumerate(K):
        if np.sqrt(k @ k) < tol:
            if q_dir_cart is None:
                continue
            KK[g] = np.outer(q_dir_cart, q_dir_cart) / _dielectric_part(q_dir_cart, eps)
        else:
            dp = _dielectric_part(k, eps)
            KK[g] = np.outer(k, k) / dp * np.exp(-dp / L2)
    dd = np.zeros((num_patom, 3, num_patom, 3), dtype=complex)
    for i in range(num_patom):
        for j in range(num_patom):
            ph = np.exp(2j * np.pi * (G_list @ (pos[i] - pos[j])))
            dd[i, :, j, :] = np.einsum("g,gab->ab", ph, KK)
    return dd


def _multiply_borns(dd_in, born):
    # dd[i,a,j,b] = sum_{a',b'} dd_in[i,a',j,b'] Z_i[a',a] Z_j[b',b]
    return np.einsum("imjn,imk,jnl->ikjl", dd_in, born, born)


def _recip_dd(dd_q0, G_list, q_cart, q_dir_cart, born, eps, pos, factor, lam, tol):
    n = len(pos)
    dd = _multiply_borns(_get_dd(G_list, n, q_cart, q_dir_cart, eps, pos, lam, tol), born)
    for i in range(n):
        dd[i, :, i, :] -= dd_q0[i]
    return dd * factor


def ref_recip_dipole_dipole(a):
    (dd, dd_q0, G_list, q_cart, q_dir, born, eps, pos, is_nac_q_zero, factor, lam, tol, _omp) = a
    n = len(pos)
    out = _recip_dd(_c(dd_q0).reshape(n, 3, 3), G_list, q_cart, None if is_nac_q_zero else q_dir,
                    born.reshape(n, 3, 3), eps.reshape(3, 3), pos, factor, lam, tol)
    return dict(out={0: out.reshape(n, 3, n, 3).view("double").reshape(dd.shape)})


def ref_recip_dipole_dipole_q0(a):
    (dd_q0, G_list, born, eps, pos, lam, tol, _omp) = a
    n = len(pos)
    t = _multiply_borns(_get_dd(G_list, n, np.zeros(3), None, eps.reshape(3, 3), pos, lam, tol), born.reshape(n, 3, 3))
    s = t.sum(axis=2)  # (n, 3, 3)
    s = (s + s.conj().transpose(0, 2, 1)) / 2
    return dict(out={0: np.ascontiguousarray(s).view("double").reshape(dd_q0.shape)})


def ref_dynamical_matrices(a):
    (dm, qpoints, fc, svecs, multi, positions, masses, s2p, p2s, q_direction, born, eps, reclat, nac_factor,
     dd_q0, G_list, lam, is_nac, is_nac_q_zero, use_wang) = a
    npa, nsa = len(p2s), len(s2p)
    qdir = None if (is_nac_q_zero or not is_nac) else q_direction
    eps = np.asarray(eps).reshape(3, 3)
    # the Python layer may allocate more matrices than q-points (1-D q-point argument)
    out = np.array(_c(dm).reshape(-1, 3 * npa, 3 * npa), copy=True)
    qdc = None if qdir is None else reclat @ qdir
    for iq, q in enumerate(qpoints):
        if use_wang:
            b3 = np.asarray(born).reshape(npa, 3, 3)
            n = nsa // npa
            q_cart = reclat @ q
            cs = None
            if np.sqrt(q_cart @ q_cart) < 1e-5:
                if qdir is not None:
                    cs = _charge_sum(npa, nac_factor / n / _dielectric_part(qdc, eps), qdc, b3)
            else:
                cs = _charge_sum(npa, nac_factor / n / _dielectric_part(q_cart, eps), q_cart, b3)
            out[iq] = _dm_at_q(fc, q, svecs, multi, masses, s2p, p2s, cs)
        else:
            d = _dm_at_q(fc, q, svecs, multi, masses, s2p, p2s, None)
            if is_nac:
                b3 = np.asarray(born).reshape(npa, 3, 3)
                dd = _recip_dd(_c(dd_q0).reshape(npa, 3, 3), G_list, reclat @ q, qdc, b3, eps, positions, nac_factor,
                               lam, 1e-5)
                mm = np.sqrt(np.outer(masses, masses))
                d = d + (dd / mm[:, None, :, None]).reshape(3 * npa, 3 * npa)
            out[iq] = d
    return dict(out={0: out.view("double").reshape(dm.shape)})


def ref_transform_dynmat_to_fc(a):
    (fc, dm, comm, svecs, multi, masses, s2pp, fc_index_map, _omp) = a
    npa = multi.shape[1]
    nsa = multi.shape[0]
    N = nsa // npa
    dmc = _c(dm).reshape(len(comm), 3 * npa, 3 * npa)
    out = np.array(fc, copy=True)
    out.reshape(-1)[: npa * nsa * 9] = 0
    for i in range(npa):
        for j in range(nsa):
            m, adrs = int(multi[j, i, 0]), int(multi[j, i, 1])
            v = svecs[adrs:adrs + m]
            ph = np.exp(-2j * np.pi * (comm @ v.T)).sum(axis=1) / m  # per commensurate point
            pj = s2pp[j]
            blk = np.einsum("k,kab->ab", ph, dmc[:, 3 * i:3 * i + 3, 3 * pj:3 * pj + 3]).real
            out[fc_index_map[i], j] += blk * np.sqrt(masses[i] * masses[pj]) / N
    return dict(out={0: out})


def ref_derivative_dynmat(a):
    (ddm, fc, q, lattice, reclat, svecs, multi, masses, s2p, p2s, nac_factor, born, eps, q_dir, is_nac,
     is_nac_q_zero, _omp) = a
    npa, nsa = len(p2s), len(s2p)
    eps = np.asarray(eps, dtype=float).reshape(3, 3)
    out = np.zeros((3, 3 * npa, 3 * npa), dtype=complex)
    dnac = ddnac = None
    if is_nac:
        b3 = np.asarray(born, dtype=float).reshape(npa, 3, 3)
        factor = nac_factor * npa / nsa
        qc = reclat @ (q if is_nac_q_zero else q_dir)
        C = qc @ eps @ qc
        A = np.einsum("x,ixl->il", qc, b3)  # A[i, l]
        dC = np.array([qc @ (eps[k, :] + eps[:, k]) for k in range(3)])
        ms = np.sqrt(np.outer(masses, masses))
        dnac = np.einsum("il,jm->ijlm", A, A) / C / ms[:, :, None, None] * factor
        ddnac = np.zeros((3, npa, npa, 3, 3))
        for k in range(3):
            dA = b3[:, k, :]  # dA[i, l] = Z_i[k, l]
            t = (np.einsum("il,jm->ijlm", dA, A) + np.einsum("il,jm->ijlm", A, dA)
                 - np.einsum("il,jm->ijlm", A, A) * dC[k] / C)
            ddnac[k] = t / (C * ms[:, :, None, None]) * factor
    for i in range(npa):
        for j in range(npa):
            blk = np.zeros((3, 3, 3), dtype=complex)
            ms_ij = np.sqrt(masses[i] * masses[j])
            for k in range(nsa):
                if s2p[k] != p2s[j]:
                    continue
                m, adrs = int(multi[k, i, 0]), int(multi[k, i, 1])
                v = svecs[adrs:adrs + m]
                e = np.exp(2j * np.pi * (v @ q))
                cart = v @ lattice.T  # lattice holds column vectors
                coef = (2j * np.pi * cart * e[:, None]).sum(axis=0) / m  # (3,)
                elem = fc[p2s[i], k] / ms_ij
                if is_nac:
                    elem = elem + dnac[i, j]
                blk += coef[:, None, None] * elem[None]
                if is_nac:
                    blk += ddnac[:, i, j] * (e.sum() / m)
            out[:, 3 * i:3 * i + 3, 3 * j:3 * j + 3] = blk
    base = _c(ddm).reshape(3, 3 * npa, 3 * npa)
    out = out + base
    out = (out + out.conj().transpose(0, 2, 1)) / 2
    return dict(out={0: out.view("double").reshape(ddm.shape)})


# ---- force-constant symmetrisers ------------------------------------------------
def _expand_compact(fc, perms, s2pp, p2s, nsym):
    """FULL[i, j] = fc[s2pp[i], perms[nsym[i]][j]] (translation invariance)."""
    ns = fc.shape[1]
    full = np.zeros((ns, ns, 3, 3))
    for i in range(ns):
        full[i] = fc[s2pp[i]][perms[nsym[i]]]
    return full


def _transpose_compact(fc, perms, s2pp, p2s, nsym):
    """compact'[ip, j] = FULL[j, p2s[ip]]^T."""
    out = np.empty_like(fc)
    for ip in range(fc.shape[0]):
        for j in range(fc.shape[1]):
            out[ip, j] = fc[s2pp[j], perms[nsym[j]][p2s[ip]]].T
    return out


def ref_transpose_compact_fc(a):
    fc, perms, s2pp, p2s, nsym = a
    return dict(out={0: _transpose_compact(fc, perms, s2pp, p2s, nsym)})


def ref_perm_trans_symmetrize_compact_fc(a):
    fc, perms, s2pp, p2s, nsym, level = a
    f = np.array(fc, copy=True)
    for _ in range(level):
        for _n in range(2):
            f = _transpose_compact(f, perms, s2pp, p2s, nsym)
            f = f - f.mean(axis=1, keepdims=True)
        f = (f + _transpose_compact(f, perms, s2pp, p2s, nsym)) / 2
    for ip in range(f.shape[0]):
        s = f[ip].sum(axis=0) - f[ip, p2s[ip]]
        f[ip, p2s[ip]] = -(s + s.T) / 2
    return dict(out={0: f})


def ref_perm_trans_symmetrize_fc(a):
    fc, level = a
    f = np.array(fc, copy=True)
    n = f.shape[0]
    for _ in range(level):
        f = f - f.mean(axis=0, keepdims=True)
        f = f - f.mean(axis=1, keepdims=True)
        f = (f + f.transpose(1, 0, 3, 2)) / 2
    for i in range(n):
        s = f[i].sum(axis=0) - f[i, i]
        f[i, i] = -(s + s.T) / 2
    return dict(out={0: f})


def ref_distribute_fc2(a):
    fc2, atom_list, fc_idx, r_carts, perms, map_atoms, map_syms = a
    out = np.array(fc2, copy=True)
    rev = {}
    for i, at in enumerate(atom_list):
        if map_atoms[at] == at:
            rev[int(at)] = i
    for i, at in enumerate(atom_list):
        done = int(map_atoms[at])
        if done == at:
            continue
        R = r_carts[map_syms[at]]
        p = perms[map_syms[at]]
        src = fc2[fc_idx[rev[done]]][p]  # (n, 3, 3)
        out[fc_idx[i]] += np.einsum("la,nlm,mb->nab", R, src, R)
    return dict(out={0: out})


# ---- structure -----------------------------------------------------------------------
def ref_compute_permutation(a):
    perm, lat, pos, rot_pos, symprec = a
    n = len(pos)
    out = -np.ones(n, dtype=perm.dtype)
    used = set()
    ok = True
    for j in range(n):
        d = pos - rot_pos[j]
        d -= np.rint(d)
        dist = np.sqrt(((d @ lat.T) ** 2).sum(axis=1))
        cand = [i for i in np.nonzero(dist < symprec)[0] if i not in used]
        if len(cand) != 1:
            ok = False
            return dict(out={}, ret=None, ambiguous=True)
        out[j] = cand[0]
        used.add(cand[0])
    return dict(out={0: out}, ret=bool(ok))


def _shortest(pos_to, pos_from, lattice_points, reduced_basis, trans_mat, symprec):
    res = {}
    for i in range(len(pos_to)):
        for j in range(len(pos_from)):
            vec = pos_to[i] - pos_from[j] + lattice_points  # (k, 3)
            length = np.sqrt(((vec @ reduced_basis.T) ** 2).sum(axis=1))
            sel = np.nonzero(length - length.min() < symprec)[0]
            res[(i, j)] = vec[sel] @ trans_mat.T
    return res


def ref_gsv_sparse(a):
    sv, multi, pos_to, pos_from, lp, rb, tm, symprec = a
    res = _shortest(pos_to, pos_from, lp, rb, tm, symprec)
    osv = np.array(sv, copy=True)
    om = np.array(multi, copy=True)
    for (i, j), v in res.items():
        osv[i, j, :len(v)] = v
        om[i, j] = len(v)
    return dict(out={0: osv, 1: om})


def ref_gsv_dense(a):
    sv, multi, pos_to, pos_from, lp, rb, tm, initialize, symprec = a
    res = _shortest(pos_to, pos_from, lp, rb, tm, symprec)
    osv = np.array(sv, copy=True)
    om = np.array(multi, copy=True)
    adrs = 0
    for i in range(len(pos_to)):
        for j in range(len(pos_from)):
            v = res[(i, j)]
            if initialize:
                om[i, j] = [len(v), adrs]
            else:
                osv[adrs:adrs + len(v)] = v
            adrs += len(v)
    return dict(out={0: osv, 1: om})


# ---- tetrahedron method -------------------------------------------------------------
def _canon_tetra(table, central):
    """Tetrahedra with the central vertex first and the other three sorted: the
    only vertex order the kernels depend on (column 0 = the vertex at the origin)."""
    t = np.asarray(table).reshape(-1, 4, 3)
    out = np.zeros_like(t)
    for n in range(len(t)):
        c = int(central[n])
        rest = sorted(tuple(int(x) for x in t[n][v]) for v in range(4) if v != c)
        out[n, 0] = t[n][c]
        out[n, 1:] = rest
    return out.reshape(np.asarray(table).shape)


def _canon_c(table):
    return _canon_tetra(table, np.zeros(np.asarray(table).size // 12, dtype=int))


def ref_relative_grid_address(a):
    from phonopy.structure.tetrahedron_method import _get_relative_grid_addresses_from_microzone_lattice

    out, reclat = a
    tab, ci = _get_relative_grid_addresses_from_microzone_lattice(reclat)
    return dict(out={0: _canon_tetra(np.array(tab, dtype=out.dtype), ci)}, canon={0: _canon_c})


def ref_all_relative_grid_address(a):
    from phonopy.structure.tetrahedron_method import _get_relative_grid_addresses_from_main_diagonal

    (out,) = a
    res = []
    for i in range(4):
        tab, ci = _get_relative_grid_addresses_from_main_diagonal(i)
        res.append(_canon_tetra(np.array(tab, dtype=out.dtype), ci))
    return dict(out={0: np.array(res, dtype=out.dtype)}, canon={0: _canon_c})


def _py_weights(omegas, tetrahedra_omegas, function):
    """In-repository Python implementation (lang='Py').  The C kernels take the
    vertex in column 0 of every tetrahedron as the central one, which is the
    layout the Python layer produces; the Python class is told the same."""
    from phonopy.structure.tetrahedron_method import TetrahedronMethod

    tm = TetrahedronMethod(None, lang="Py")
    tm._central_indices = np.zeros(24, dtype=int)
    tm.set_tetrahedra_omegas(np.array(tetrahedra_omegas, dtype="double"))
    tm.run(omegas, value=function)
    return tm.get_integration_weight()


def ref_integration_weight(a):
    omega, tet, function = a
    return dict(out={}, ret=float(_py_weights(float(omega), tet, function)))


def ref_integration_weight_at_omegas(a):
    iw, omegas, tet, function = a
    return dict(out={0: np.array(_py_weights(list(omegas), tet, function), dtype="double").reshape(iw.shape)})


def ref_tetrahedra_frequencies(a):
    from phonopy.phonon.tetrahedron_mesh import _get_tetrahedra_frequencies_Py

    out, grid_points, mesh, grid_address, gp_ir_index, rga, frequencies = a
    order = np.array([1, mesh[0], mesh[0] * mesh[1]])
    res = np.array(out, copy=True)
    for i, gp in enumerate(grid_points):
        res[i] = _get_tetrahedra_frequencies_Py(gp, mesh, grid_address, rga, gp_ir_index, frequencies, order)
    return dict(out={0: res})


def ref_tetrahedron_method_dos(a, weight_fn=None):
    dos, mesh, freq_points, frequencies, coef, grid_address, gmt, rga = a
    order = np.array([1, mesh[0], mesh[0] * mesh[1]])
    ir = [i for i in range(len(gmt)) if gmt[i] == i]
    gp2ir = {g: k for k, g in enumerate(ir)}
    weights = np.array([np.count_nonzero(gmt == g) for g in ir])
    out = np.array(dos, copy=True)
    nband = frequencies.shape[1]
    for i, g in enumerate(ir):
        nb = np.dot((grid_address[g] + rga.reshape(-1, 3)) % mesh, order)  # (96,)
        iri = np.array([gp2ir[int(gmt[x])] for x in nb]).reshape(24, 4)
        for k in range(nband):
            tet = frequencies[iri, k]
            iw = weight_fn(freq_points, tet) * weights[i]  # (nfreq,)
            out[i, k] += iw[:, None] * coef[i, :, k][None, :]
    return dict(out={0: out})


# ---- thermal properties -----------------------------------------------------------------
def ref_thermal_properties(a):
    props, temps, freqs, weights, cutoff, classical = a
    out = np.array(props, copy=True)
    with np.errstate(all="ignore"):
        for j, T in enumerate(temps):
            if not T > 0:
                continue
            f = freqs[freqs > cutoff] if False else None
            mask = freqs > cutoff
            x = freqs / (KB * T)
            if classical:
                F = KB * T * np.log(x)
                S = KB - KB * np.log(x)
                C = np.full_like(freqs, KB)
            else:
                # F = kT ln(1 - e^-x), S = k [x/(e^x - 1) - ln(1 - e^-x)], C = k x^2 e^x/(e^x - 1)^2,
                # written with e^-x so that they are defined for every x > 0
                em = np.exp(-x)
                om = -np.expm1(-x)  # 1 - e^-x
                F = KB * T * np.log(om)
                S = KB * (x * em / om - np.log(om))
                C = KB * x * x * em / (om * om)
            w = weights[:, None].astype(float)
            for c, arr in enumerate((F, S, C)):
                # per q-point partial sums, then the sum over q-points (the kernel's order)
                per_q = np.array([arr[i][mask[i]].sum() * weights[i] if mask[i].any() else 0.0
                                  for i in range(len(freqs))])
                out[j, c] += per_q.sum()
    return dict(out={0: out})


REF = {
    "transform_dynmat_to_fc": ref_transform_dynmat_to_fc,
    "perm_trans_symmetrize_fc": ref_perm_trans_symmetrize_fc,
    "perm_trans_symmetrize_compact_fc": ref_perm_trans_symmetrize_compact_fc,
    "transpose_compact_fc": ref_transpose_compact_fc,
    "dynamical_matrices_with_dd_openmp_over_qpoints": ref_dynamical_matrices,
    "recip_dipole_dipole": ref_recip_dipole_dipole,
    "recip_dipole_dipole_q0": ref_recip_dipole_dipole_q0,
    "derivative_dynmat": ref_derivative_dynmat,
    "thermal_properties": ref_thermal_properties,
    "distribute_fc2": ref_distribute_fc2,
    "compute_permutation": ref_compute_permutation,
    "gsv_set_smallest_vectors_sparse": ref_gsv_sparse,
    "gsv_set_smallest_vectors_dense": ref_gsv_dense,
    "tetrahedra_relative_grid_address": ref_relative_grid_address,
    "all_tetrahedra_relative_grid_address": ref_all_relative_grid_address,
    "tetrahedra_integration_weight": ref_integration_weight,
    "tetrahedra_integration_weight_at_omegas": ref_integration_weight_at_omegas,
    "tetrahedra_frequencies": ref_tetrahedra_frequencies,
    "tetrahedron_method_dos": ref_tetrahedron_method_dos,
}

# kernels whose outputs are integers or copies of inputs: compared exactly
EXACT = {"compute_permutation", "tetrahedra_relative_grid_address", "all_tetrahedra_relative_grid_address",
         "tetrahedra_frequencies", "transpose_compact_fc"}
