"""Exact spring-model oracle for the unstable crystals of spec/C19Unstable.tla: the same TLC computation as
harness/springs.py (spec/C19SpringsDump.tla is SpringsDump.tla bound to C19Unstable's entries), realised
by harness/oracle.py's Oracle."""
from __future__ import annotations

import hashlib
import json
import os

import numpy as np

from . import springs, tla_values, xtal
from . import tlc as tlcmod
from .oracle import Oracle
from .tla_values import to_tla

_MODS = ["IntLinAlg", "Crystal", "Springs", "Catalogue", "C19Unstable", "C19SpringsDump"]
NAMES = ("usc", "ucscl", "utric")


def compute(entry, mats, repbox=3, ctx=None):
    mats = [[[int(x) for x in r] for r in m] for m in mats]
    h = hashlib.blake2b(digest_size=8)
    for m in _MODS:
        with open(os.path.join(tlcmod.SPEC, m + ".tla"), "rb") as f:
            h.update(f.read())
    key = hashlib.blake2b(json.dumps([entry, mats, repbox, h.hexdigest()]).encode(), digest_size=10).hexdigest()
    cdir = os.path.join(tlcmod.VERIF, ".cache", "springs")
    os.makedirs(cdir, exist_ok=True)
    cpath = os.path.join(cdir, "c19u_" + key + ".json")
    if os.path.exists(cpath):
        with open(cpath) as f:
            out = json.load(f)
        if ctx is not None:
            ctx.states += out["tlc"]["states"]
            ctx.transitions += out["tlc"]["transitions"]
            ctx.tlc_runs.append(dict(module="C19SpringsDump", cfg="(generated, cached result)", entry=entry, **out["tlc"]))
        return out
    mc = ("---- MODULE MC_C19SpringsDump ----\nEXTENDS C19SpringsDump\nMCEntry == %s\nMCMats == %s\nMCRepBox == %d\n====\n"
          % (to_tla(entry), "{" + ", ".join(to_tla(m) for m in mats) + "}", repbox))
    res = tlcmod.run("MC_C19SpringsDump", cfg_text=springs.CFG, extra_files={"MC_C19SpringsDump.tla": mc}, dump=True, keep=True)
    try:
        if res.violated:
            raise tlcmod.MachineryError("spring model of %s violates %s (specification defect)" % (entry, res.violated))
        states = tla_values.parse_dump(res.dump_path)
    finally:
        tlcmod.cleanup(res)
    out = dict(entry=entry, cells={}, tlc=dict(states=res.distinct, transitions=res.generated, wall_s=round(res.wall, 2)))
    for st in states:
        if st["pc"] == "series":
            out["terms"] = [dict(a=t["a"], b=t["b"], t=t["t"], r=t["r"], T=t["T"]) for t in st["terms"]] \
                if not isinstance(st["terms"], frozenset) else [dict(x) for x in map(dict, st["terms"])]
            out["crystal"] = st["cr"]
            out["aut"] = [[list(map(list, p[0])), list(p[1])] for p in st["aut"]]
        elif st["pc"] == "built":
            out["cells"][json.dumps(st["S"])] = dict(S=st["S"], atoms=st["atoms"], fc=st["fc"])
    if ctx is not None:
        ctx.states += res.distinct
        ctx.transitions += res.generated
        ctx.tlc_runs.append(dict(module="C19SpringsDump", cfg="(generated)", entry=entry, **res.summary()))
    tmp = cpath + ".tmp%d" % os.getpid()
    with open(tmp, "w") as f:
        json.dump(out, f)
    os.replace(tmp, cpath)
    return out


class UnstableOracle(Oracle):
    def __init__(self, entry, mats, a=2.0, seed=0, ctx=None, repbox=3):
        self.o = compute(entry, mats, repbox=repbox, ctx=ctx)
        self.cr = self.o["crystal"]
        self.D = self.cr["D"]
        self.G = np.array(self.cr["G"], dtype=float)
        self.a = a
        self.L = xtal.lattice_from_gram(self.G, a=a, rng=np.random.default_rng(seed))
        self.Linv = np.linalg.inv(self.L)
        self.species = [at["sp"] for at in self.cr["atoms"]]
        self.masses = [float(at["m"]) for at in self.cr["atoms"]]
        self.num = [at["num"] for at in self.cr["atoms"]]
