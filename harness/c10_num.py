"""C10: the interpretation side (DESIGN 2.3) of spec/Thermal*.tla.

* constants of the documented unit system (own literals, not phonopy.units),
* numerically stable closed forms of the named per-mode expressions
  ("Fth", "ZPE", "S", "Cv", "Fcl", "Scl", "Cvcl"), cross-checked with
  50-digit `decimal` arithmetic,
* realisation of the abstract levels of Thermal.tla as frequencies and
  temperatures, a stand-in mesh object, runners of the real code,
* interpretation of a bag of terms (replay), and decoding of a real run into
  integer coefficients (trace validation).

Nothing here uses phonopy's own formulas or constants.
"""
from __future__ import annotations

import decimal
import math
import types

import numpy as np

# ---- documented unit system (phonopy/units.py literals, CODATA of the package) ----
PLANCK_EVS = 4.13566733e-15      # h [eV s]
EV_J = 1.60217733e-19            # [J]
KB_J = 1.3806504e-23             # [J/K]
AVOGADRO = 6.02214179e23
KB = KB_J / EV_J                 # [eV/K]
THZ_TO_EV = PLANCK_EVS * 1e12    # [eV/THz]
EV_TO_KJMOL = EV_J / 1000 * AVOGADRO
UNIT = {"F": EV_TO_KJMOL, "S": EV_TO_KJMOL * 1000, "Cv": EV_TO_KJMOL * 1000}   # kJ/mol, J/K/mol, J/K/mol

# ---- realisation of levels for decoding runs --------------------------------
DELTA_THZ = 2.0 ** -6            # frequency quantum
MEXP = {1: 2, 2: 5, 3: 8, 4: 10}  # level L -> nu_L = DELTA * 2^MEXP[L]  (0.0625, 0.5, 4, 16 THz)
NUINT = {L: 2 ** m for L, m in MEXP.items()}
NLEV = 4


def nu_of_level_decode(L):
    if L == 0:
        return 0.0
    s = -1.0 if L < 0 else 1.0
    return s * DELTA_THZ * NUINT[abs(L)]


# ---- stable closed forms (arguments: nu [THz] > 0, T [K] > 0), results in eV or eV/K ----
def prim(kind, nu, T):
    nu = np.asarray(nu, dtype=float)
    e = nu * THZ_TO_EV
    if kind == "ZPE":
        return e / 2 + 0 * np.asarray(T, dtype=float)
    T = np.asarray(T, dtype=float)
    kT = KB * T
    x = e / kT
    if kind == "Fth":
        # kT ln(1 - e^-x)
        return kT * np.where(x < 0.5, np.log(-np.expm1(-x)), np.log1p(-np.exp(-x)))
    if kind == "S":
        # k [ x/(e^x - 1) - ln(1 - e^-x) ]
        em = np.exp(-x)
        d = -np.expm1(-x)
        return KB * (x * em / d - np.where(x < 0.5, np.log(d), np.log1p(-em)))
    if kind == "Cv":
        em = np.exp(-x)
        d = -np.expm1(-x)
        return KB * x * x * em / (d * d)
    if kind == "Fcl":
        return kT * np.log(x)
    if kind == "Scl":
        return KB * (1.0 - np.log(x))
    if kind == "Cvcl":
        return KB + 0 * x
    raise KeyError(kind)


def prim_decimal(kind, nu, T, prec=50):
    """Same expressions from the documented formulas in `prec`-digit arithmetic."""
    with decimal.localcontext() as c:
        c.prec = prec
        D = decimal.Decimal
        e = D(float(nu)) * D(THZ_TO_EV)
        if kind == "ZPE":
            return float(e / 2)
        kT = D(KB) * D(float(T))
        x = e / kT
        if kind == "Fth":
            return float(kT * (1 - (-x).exp()).ln())
        if kind == "S":
            # (1/2T) h nu coth(x/2) - k ln(2 sinh(x/2))
            h = x / 2
            ch = (h.exp() + (-h).exp()) / 2
            sh = (h.exp() - (-h).exp()) / 2
            return float(e / (2 * D(float(T))) * ch / sh - D(KB) * (2 * sh).ln())
        if kind == "Cv":
            ex = x.exp()
            return float(D(KB) * x * x * ex / ((ex - 1) ** 2))
        if kind == "Fcl":
            return float(kT * x.ln())
        if kind == "Scl":
            return float(D(KB) * (1 - x.ln()))
        if kind == "Cvcl":
            return float(D(KB))
    raise KeyError(kind)


def x_of(nu, T):
    return nu * THZ_TO_EV / (KB * T)


def x_class(x):
    """Classes of h nu / k T named in ThermalIdentities.tla / Thermal replay tolerances."""
    if x < 1e-6:
        return "tiny"
    if x < 1e-3:
        return "small"
    if x <= 700.0:
        return "normal"
    if x <= 1400.0:
        return "big"
    return "huge"


TOL = {"tiny": 1e-4, "small": 1e-7, "normal": 1e-10, "big": 1e-10, "huge": 1e-10}
_ORDER = ["normal", "big", "huge", "small", "tiny"]


def tol_for(xs):
    """Relative tolerance of a sum whose terms have the given x values: the loosest class present
    (cancellation in exp(x) - 1 of the coded forms costs eps / x)."""
    t = 1e-10
    for x in xs:
        t = max(t, TOL[x_class(x)])
    return t


# ---- stand-in mesh and runners of the real code -----------------------------
def make_mesh(freqs, weights, eigvecs=None, Z=1):
    m = types.SimpleNamespace()
    m.frequencies = np.array(freqs, dtype="double", order="C")
    m.weights = np.array(weights, dtype="int64")
    m.eigenvectors = eigvecs
    m.dynamical_matrix = types.SimpleNamespace(primitive=types.SimpleNamespace(Z=Z))
    return m


def run_real(mesh, temperatures, lang, cutoff=None, pretend_real=False, band_indices=None,
             is_projection=False, classical=False):
    """ThermalProperties(...).run(lang) on the real code.  Returns a dict; an exception of the
    real code is returned as status 'error'."""
    from phonopy.phonon.thermal_properties import ThermalProperties

    try:
        with np.errstate(all="ignore"):
            tp = ThermalProperties(mesh, cutoff_frequency=cutoff, pretend_real=pretend_real,
                                   band_indices=band_indices, is_projection=is_projection, classical=classical)
            tp.temperatures = temperatures
            tp.run(lang=lang)
            t, F, S, Cv = tp.thermal_properties
            out = dict(status="ok", T=np.array(t), F=np.array(F), S=np.array(S), Cv=np.array(Cv),
                       zpe=float(tp.zero_point_energy), nmodes=int(tp.number_of_modes),
                       nint=int(tp.number_of_integrated_modes), proj=None)
            if is_projection:
                pt, pF, pS, pCv = tp._projected_thermal_properties
                out["proj"] = dict(T=np.array(pt), F=np.array(pF), S=np.array(pS), Cv=np.array(pCv))
            return out
    except Exception as ex:  # noqa: BLE001 - reported as the implementation's behaviour
        return dict(status="error", err="%s: %s" % (type(ex).__name__, ex))


# ---- realisation of a Thermal.tla configuration ------------------------------
def eigvecs_from_e2(e2, ed, rng):
    """Complex eigenvector arrays with |e[k, b]|^2 = e2[q][k][b] / ed and random phases."""
    e2 = np.array(e2, dtype=float) / ed
    ph = np.exp(2j * np.pi * rng.random(e2.shape))
    return np.sqrt(e2) * ph


class Realisation:
    """Concrete numbers for one abstract configuration."""

    def __init__(self, cfg, nu_of_level, pos_temps, rng):
        self.cfg = cfg
        lev = np.array(cfg["lev"])
        self.freqs = np.vectorize(nu_of_level)(lev).astype(float)
        self.weights = list(cfg["w"])
        self.cutoff = None if not cfg["cutGiven"] else (float(nu_of_level(cfg["cut"])) if cfg["cut"] >= 0 else -0.75)
        self.band_indices = [b - 1 for b in cfg["bi"]] if cfg["biGiven"] else None
        self.eig = eigvecs_from_e2(cfg["e2"], cfg["ed"], rng) if cfg["proj"] else None
        # temperature list: every abstract entry becomes a block of real temperatures
        self.T = []
        self.tlevel = []   # abstract index (1-based position in cfg.temps) of each real temperature
        for i, t in enumerate(cfg["temps"]):
            if t < 0:
                vals = [-5.0]
            elif t == 0:
                vals = [0.0]
            else:
                vals = list(pos_temps)
            self.T += vals
            self.tlevel += [i + 1] * len(vals)
        self.nu_of_level = nu_of_level
        # memory layouts (cfg.fl / cfg.wl / cfg.el): same VALUES, different buffers
        self.fl, self.wl, self.el = cfg.get("fl", "c"), cfg.get("wl", "int64"), cfg.get("el", "c")
        if self.fl == "float32":          # values rounded to binary32 first, so that the values are what is compared
            f32 = lambda v: float(np.float32(v))  # noqa: E731
            self.freqs = np.vectorize(f32)(self.freqs).astype(float)
            self.nu_of_level = lambda L, nu=nu_of_level: f32(nu(L))
            if self.cutoff is not None and self.cutoff > 0:
                self.cutoff = f32(self.cutoff)

    def mesh(self):
        m = make_mesh(self.freqs, self.weights, self.eig)
        nq, nb = self.freqs.shape
        if self.fl == "f":
            m.frequencies = np.asfortranarray(self.freqs)
        elif self.fl == "strided":
            big = np.full((2 * nq, 3 * nb), 123.456)
            big[::2, ::3] = self.freqs
            m.frequencies = big[::2, ::3]
        elif self.fl == "float32":
            m.frequencies = self.freqs.astype("float32")
        w = np.array(self.weights, dtype="int64")
        if self.wl == "uint64":
            m.weights = w.astype("uint64")
        elif self.wl == "intc":
            buf = np.ones(2 * nq + 4, dtype="intc")      # padding 1: an int64 read never sees the value alone
            buf[:nq] = w
            m.weights = buf[:nq]
        elif self.wl == "strided":
            buf = np.full(2 * nq, 7, dtype="int64")
            buf[::2] = w
            m.weights = buf[::2]
        if self.eig is not None:
            if self.el == "f":
                m.eigenvectors = np.asfortranarray(self.eig)
            elif self.el == "strided":
                big = np.full((nq, 2 * nb, 2 * nb), 0.3 + 0.4j)
                big[:, ::2, ::2] = self.eig
                m.eigenvectors = big[:, ::2, ::2]
        return m

    def run(self, lang):
        c = self.cfg
        return run_real(self.mesh(), self.T, lang, cutoff=self.cutoff, pretend_real=c["pr"],
                        band_indices=self.band_indices, is_projection=c["proj"], classical=c["classical"])


def bag_value(bag, nu_of_level, T, k=None):
    """Interpret a bag of terms at temperature T: sum c * kind(nu(lev), T) and sum |.| (for tolerances)."""
    tot = 0.0
    mag = 0.0
    xs = []
    for t in bag:
        if k is not None and t["k"] != k:
            continue
        nu = nu_of_level(t["lev"])
        v = float(prim(t["kind"], nu, T if T > 0 else 1.0))
        tot += t["c"] * v
        mag += abs(t["c"] * v)
        if T > 0:
            xs.append(x_of(nu, T))
    return tot, mag, xs


# ---- decoding a real run into integer coefficients ---------------------------
DECODE_T = [2.0 * (3000.0 / 2.0) ** (i / 15.0) for i in range(16)]   # 2 K .. 3000 K, x <= 384


def _lstsq_int(A, y, scale_tol=1e-6):
    """Solve A c = y, return (rounded ints, exact flag, max rounding distance, relative residual)."""
    A = np.asarray(A, dtype=float)
    y = np.asarray(y, dtype=float)
    if not (np.all(np.isfinite(y)) and np.all(np.isfinite(A))):
        return None, False, float("inf"), float("inf")
    norms = np.linalg.norm(A, axis=0)
    norms[norms == 0] = 1.0
    c, *_ = np.linalg.lstsq(A / norms, y, rcond=None)
    c = c / norms
    ci = np.round(c)
    dist = float(np.max(np.abs(c - ci))) if len(c) else 0.0
    res = A @ ci - y
    denom = np.linalg.norm(np.abs(A) @ np.abs(ci)) + 1e-300
    rel = float(np.linalg.norm(res) / denom) if np.any(ci != 0) else float(np.linalg.norm(y))
    return [int(v) for v in ci], bool(dist < scale_tol and rel < 1e-9), dist, rel


def decode_series(Tpos, y, quantity, classical, wsum):
    """y: reported values (documented units) at positive temperatures Tpos for one output series
    (total or one projected component, already multiplied by the common denominator).
    Quantum: integer coefficient per frequency level (and the constant of F in units of h*DELTA/2).
    Classical: (N, M) with N = number of terms, M = sum c * MEXP[lev]."""
    Tpos = np.asarray(Tpos, dtype=float)
    y = np.asarray(y, dtype=float) * wsum / UNIT[quantity]          # eV or eV/K, un-normalised
    levels = list(range(1, NLEV + 1))
    nus = [nu_of_level_decode(L) for L in levels]
    zq = THZ_TO_EV * DELTA_THZ / 2
    if not classical:
        kind = {"F": "Fth", "S": "S", "Cv": "Cv"}[quantity]
        cols = [prim(kind, nu, Tpos) for nu in nus]
        if quantity == "F":
            cols.append(np.full(len(Tpos), zq))
        ci, exact, dist, rel = _lstsq_int(np.array(cols).T, y)
        if ci is None:
            return dict(exact=False, finite=False, coef=[0] * NLEV, z=0, dist=dist, rel=rel)
        return dict(exact=exact, finite=True, coef=ci[:NLEV], z=(ci[NLEV] if quantity == "F" else 0), dist=dist, rel=rel)
    kT = KB * Tpos
    lnq = math.log(THZ_TO_EV * DELTA_THZ)     # ln(h nu_L) = lnq + MEXP[L] ln 2
    ln2 = math.log(2.0)
    if quantity == "F":      # kT [ N (lnq - ln kT) + M ln2 ]
        cols = [kT * (lnq - np.log(kT)), kT * ln2]
    elif quantity == "S":    # k [ N (1 - lnq + ln kT) - M ln2 ]
        cols = [KB * (1 - lnq + np.log(kT)), -KB * ln2 * np.ones(len(Tpos))]
    else:                    # k N
        cols = [KB * np.ones(len(Tpos))]
    ci, exact, dist, rel = _lstsq_int(np.array(cols).T, y)
    if ci is None:
        return dict(exact=False, finite=False, n=0, m=0, dist=dist, rel=rel)
    return dict(exact=exact, finite=True, n=ci[0], m=(ci[1] if quantity != "Cv" else 0), dist=dist, rel=rel)


def decode_const(value, wsum):
    """A reported energy (kJ/mol) that should be a zero-point energy: integer multiple of h*DELTA/2."""
    if not np.isfinite(value):
        return 0, False
    z = value * wsum / UNIT["F"] / (THZ_TO_EV * DELTA_THZ / 2)
    zi = int(round(z))
    return zi, bool(abs(z - zi) < 1e-6 * max(1.0, abs(z)))
