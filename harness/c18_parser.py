"""C18 parser level: cases over the tag/option table, the real PhonopyConfParser
driven through every route, results projected to the abstract settings of
spec/CLI.tla."""
from __future__ import annotations

import contextlib
import io
import os
import sys
import tempfile

from harness import bootstrap  # noqa: F401
from harness import c18_table as T

from phonopy.cui.phonopy_argparse import get_parser
from phonopy.cui.settings import PhonopyConfParser

CONTROL = {
    "phonopy": {"fc_symmetry": False, "is_nac": False, "load_phonopy_yaml": False},
    "load": {"fc_symmetry": True, "is_nac": True, "load_phonopy_yaml": True},
}
_PARSERS = {}
_TMP = None


def _parser(cmd):
    if cmd not in _PARSERS:
        old = sys.argv
        sys.argv = ["phonopy"]
        try:
            _PARSERS[cmd] = get_parser(**CONTROL[cmd])[0]
        finally:
            sys.argv = old
    return _PARSERS[cmd]


def project(settings, cmd):
    """Real settings object -> diff against the documented defaults (tokens)."""
    dflt = T.defaults_of(cmd)
    diff = {}
    for a, v in settings._v.items():
        if a not in dflt:
            diff[a] = "UNKNOWN-ATTRIBUTE:" + T.tok(v)
            continue
        t = T.attr_tok(a, v)
        if t != T.attr_tok(a, dflt[a]):
            diff[a] = t
    for a in dflt:
        if a not in settings._v:
            diff[a] = "MISSING-ATTRIBUTE"
    return diff


def run_real(cmd, file_lines, argv):
    """One construction of the settings exactly as phonopy_script._read_phonopy_settings does it."""
    global _TMP
    if _TMP is None:
        import atexit
        import shutil

        _TMP = tempfile.mkdtemp(prefix="c18p_")
        atexit.register(shutil.rmtree, _TMP, True)
    out = io.StringIO()
    try:
        with contextlib.redirect_stdout(out), contextlib.redirect_stderr(out):
            args = _parser(cmd).parse_args(list(argv))
            fn = None
            if file_lines:
                fn = os.path.join(_TMP, "case.conf")
                with open(fn, "w") as f:
                    f.write("\n".join(file_lines) + "\n")
            kw = {}
            if cmd == "load":
                kw["default_settings"] = CONTROL[cmd]
            p = PhonopyConfParser(filename=fn, args=args, **kw)
        return dict(st="ok", diff=project(p.settings, cmd)), p.confs
    except SystemExit as e:
        return dict(st="EXIT:%s" % (e.code,), diff={}), None
    except Exception as e:  # noqa: BLE001 - an exception of the front end is an observable result
        return dict(st="EXC:%s" % type(e).__name__, diff={}), None


# ---- cases -------------------------------------------------------------------
def _example(item):
    r = T._BY_KEY[item[0]]
    return r, next(e for e in r["examples"] if e["id"] == item[1])


def file_line(item, alias=None):
    r, e = _example(item)
    return "%s = %s" % ((alias or r["key"]).upper(), e["text"])


def has_option(item, cmd):
    _, e = _example(item)
    return e["argv"] is not None and cmd in e["cmds"]


def argv_of(item, alt=None):
    _, e = _example(item)
    return list(e["argv"] if alt is None else e["alts"][alt])


def order(items):
    """canonical order of the items of a configuration: the order in which
    read_options stores options whose parameters overlap (table column oo)."""
    return sorted(items, key=lambda it: T._BY_KEY[it[0]]["oo"])


def tla_items(items):
    return [dict(k=k, e=e) for k, e in items]


def build_event(eid, cmd, kind, items, routes):
    """routes: list of (F items, O items, file alias map / argv alt)"""
    runs = []
    for F, O, opt in routes:
        lines = [file_line(it, (opt or {}).get("alias")) for it in F]
        argv = []
        for it in O:
            argv += argv_of(it, (opt or {}).get("alt"))
        res, _ = run_real(cmd, lines, argv)
        runs.append(dict(F=tla_items(F), O=tla_items(O), res=res, lines=lines, argv=argv))
    return dict(id=eid, cmd=cmd, kind=kind, items=tla_items(items), runs=runs)


def single_events(cmd):
    evs = []
    for r in T.ROWS:
        for e in r["examples"]:
            it = (r["key"], e["id"])
            routes = [([it], [], None)]
            for a in r["aliases"]:
                routes.append(([it], [], dict(alias=a)))
            if has_option(it, cmd):
                routes.append(([], [it], None))
                for i in range(len(e["alts"])):
                    routes.append(([], [it], dict(alt=i)))
            evs.append(build_event("s:%s:%s:%s" % (cmd, r["key"], e["id"]), cmd, "single", [it], routes))
    return evs


def override_events(cmd):
    evs = []
    for r in T.ROWS:
        for e2 in r["examples"]:
            it2 = (r["key"], e2["id"])
            if not has_option(it2, cmd) or not e2["override"]:
                continue
            others = [e for e in r["examples"] if e["id"] != e2["id"]]
            if len(others) > 2:  # one partner value is enough (CALCULATOR has 16)
                j = [e["id"] for e in r["examples"]].index(e2["id"])
                others = [r["examples"][(j + 1) % len(r["examples"])]]
            for e1 in others:
                it1 = (r["key"], e1["id"])
                evs.append(build_event("o:%s:%s:%s>%s" % (cmd, r["key"], e2["id"], e1["id"]), cmd, "override",
                                       [it1, it2], [([it1], [it2], None), ([], [it2], None)]))
    return evs


# second example values that change how a row interacts with others
PAIR_EXTRA = {"pdos": ["auto"], "qpoints": ["T"], "anime": ["b"], "mesh_symmetry": ["T"], "symmetry": ["T"],
              "force_constants": ["write"], "fc_format": ["t"], "tprop": ["F"], "moment_order": ["z"],
              "mesh": ["len"], "band": ["auto"], "irreps": ["qt"], "eigenvectors": ["F"]}


def pair_items(rng, quick):
    """unordered pairs of (row, example) of different rows: every pair of interacting rows
    (first example of each, plus the examples of PAIR_EXTRA), and a seeded sample of the
    remaining pairs of rows (all of them in the thorough tier)."""
    def exs(key, extra=True):
        r = T._BY_KEY[key]
        ids = [e["id"] for e in r["examples"] if e["pair"]][:1] + (PAIR_EXTRA.get(key, []) if extra else [])
        return [(key, i) for i in ids]

    inter = T.INTERACTING
    pairs = []
    seen = set()
    for a in inter:
        for b in inter:
            if a >= b:
                continue
            seen.add((a, b))
            ea, eb = exs(a), exs(b)
            for ia in ea:
                for ib in eb:
                    if ia is ea[0] or ib is eb[0] or not quick:
                        pairs.append((ia, ib))
    rest = [(a, b) for a in T.ROW_KEYS for b in T.ROW_KEYS if a < b and (a, b) not in seen]
    rng.shuffle(rest)
    if quick:
        rest = rest[:250]
    for a, b in rest:
        if exs(a, False) and exs(b, False):
            pairs.append((exs(a, False)[0], exs(b, False)[0]))
    return pairs, len(seen), len(rest)


def pair_events(pairs, rng):
    """one event per pair, for the command whose parser has the options of both items (else of one)"""
    evs = []
    for ia, ib in pairs:
        a, b = order([ia, ib])
        best = None
        for cmd in (("load", "phonopy") if rng.random() < 0.5 else ("phonopy", "load")):
            n = int(has_option(a, cmd)) + int(has_option(b, cmd))
            if best is None or n > best[0]:
                best = (n, cmd)
        n, cmd = best
        if n == 0:
            continue
        routes = [([a, b], [], None)]
        oa, ob = has_option(a, cmd), has_option(b, cmd)
        if oa and ob:
            routes.append(([], [a, b], None))
        if ob:
            routes.append(([a], [b], None))
        if oa:
            routes.append(([b], [a], None))
        evs.append(build_event("p:%s:%s:%s+%s:%s" % (cmd, a[0], a[1], b[0], b[1]), cmd, "pair", [a, b], routes))
    return evs


def triple_items(rng, quick):
    """3-subsets of the rows of each interacting family (first example of each row; in the thorough
    tier also the PAIR_EXTRA examples of one member)."""
    import itertools

    out = []
    for fam, rows in T.TRIPLE_FAMILIES.items():
        subs = list(itertools.combinations(rows, 3))
        if quick and len(subs) > 45:
            rng.shuffle(subs)
            subs = subs[:45]
        for sub in subs:
            first = [(k, [e["id"] for e in T._BY_KEY[k]["examples"] if e["pair"]][0]) for k in sub]
            out.append(first)
            for i, k in enumerate(sub):
                for x in PAIR_EXTRA.get(k, [])[:1 if quick else 3]:
                    if quick and rng.random() < 0.6:
                        continue
                    alt = list(first)
                    alt[i] = (k, x)
                    out.append(alt)
    return out


def triple_events(triples, rng):
    """every way of splitting the three items between the file and the options"""
    import itertools

    evs = []
    for items in triples:
        items = order(items)
        cmd = max(("load", "phonopy") if rng.random() < 0.5 else ("phonopy", "load"),
                  key=lambda c: sum(has_option(it, c) for it in items))
        routes = []
        for mask in itertools.product((0, 1), repeat=3):
            if any(m and not has_option(it, cmd) for m, it in zip(mask, items)):
                continue
            routes.append(([it for m, it in zip(mask, items) if not m], [it for m, it in zip(mask, items) if m], None))
        if len(routes) < 2:
            continue
        evs.append(build_event("t:%s:%s" % (cmd, "+".join("%s:%s" % it for it in items)), cmd, "triple", items, routes))
    return evs


def empty_event(cmd):
    return build_event("e:%s" % cmd, cmd, "empty", [], [([], [], None)])
