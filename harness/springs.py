"""Exact spring-model oracle: runs TLC on spec/SpringsDump.tla for a catalogue
entry and a set of supercell matrices, checks the invariances there, and
returns the exact integer force constants / Fourier series for the harness
to realise as real arrays.  Results are cached under .cache/springs keyed by
the hash of the spec modules involved."""
from __future__ import annotations

import hashlib
import json
import os

import numpy as np

from . import tlc as tlcmod
from . import tla_values
from .tla_values import to_tla

VERIF = tlcmod.VERIF
_MODS = ["IntLinAlg", "Crystal", "Springs", "Catalogue", "SpringsDump"]

CFG = """SPECIFICATION Spec
CONSTANTS
 Entry <- MCEntry
 Mats <- MCMats
 RepBox <- MCRepBox
CHECK_DEADLOCK FALSE
INVARIANT InvReach
INVARIANT InvReps
INVARIANT InvPermSym
INVARIANT InvTransInv
INVARIANT InvSeriesPerm
INVARIANT InvSeriesSpaceGroup
"""


def _spec_hash():
    h = hashlib.blake2b(digest_size=8)
    for m in _MODS:
        with open(os.path.join(tlcmod.SPEC, m + ".tla"), "rb") as f:
            h.update(f.read())
    return h.hexdigest()


def compute(entry, mats, repbox=3, ctx=None, use_cache=True):
    """-> dict(crystal=..., terms=[...], aut=[...], cells={Skey: dict(S, atoms, fc)}).
    Raises tlcmod.MachineryError if an invariance of the model fails (that is a
    defect of the specification, not of phonopy)."""
    mats = [[[int(x) for x in r] for r in m] for m in mats]
    key = hashlib.blake2b(json.dumps([entry, mats, repbox, _spec_hash()]).encode(), digest_size=10).hexdigest()
    cdir = os.path.join(VERIF, ".cache", "springs")
    os.makedirs(cdir, exist_ok=True)
    cpath = os.path.join(cdir, key + ".json")
    if use_cache and os.path.exists(cpath):
        with open(cpath) as f:
            out = json.load(f)
        if ctx is not None:
            ctx.states += out["tlc"]["states"]
            ctx.transitions += out["tlc"]["transitions"]
            ctx.tlc_runs.append(dict(module="SpringsDump", cfg="(generated, cached result)", entry=entry, **out["tlc"]))
        return out
    mc = ("---- MODULE MC_SpringsDump ----\nEXTENDS SpringsDump\nMCEntry == %s\nMCMats == %s\nMCRepBox == %d\n====\n"
          % (to_tla(entry), "{" + ", ".join(to_tla(m) for m in mats) + "}", repbox))
    res = tlcmod.run("MC_SpringsDump", cfg_text=CFG, extra_files={"MC_SpringsDump.tla": mc}, dump=True, keep=True)
    try:
        if res.violated:
            raise tlcmod.MachineryError("spring model of %s violates %s (specification defect)" % (entry, res.violated))
        states = tla_values.parse_dump(res.dump_path)
    finally:
        tlcmod.cleanup(res)
    out = dict(entry=entry, cells={}, tlc=dict(states=res.distinct, transitions=res.generated, wall_s=round(res.wall, 2)))
    for st in states:
        if st["pc"] == "series":
            out["terms"] = [dict(a=t["a"], b=t["b"], t=t["t"], r=t["r"], T=t["T"]) for t in st["terms"]] \
                if not isinstance(st["terms"], frozenset) else [dict(x) for x in map(dict, st["terms"])]
            out["crystal"] = st["cr"]
            out["aut"] = [[list(map(list, p[0])), list(p[1])] for p in st["aut"]]
        elif st["pc"] == "built":
            out["cells"][json.dumps(st["S"])] = dict(S=st["S"], atoms=st["atoms"], fc=st["fc"])
    if ctx is not None:
        ctx.states += res.distinct
        ctx.transitions += res.generated
        ctx.tlc_runs.append(dict(module="SpringsDump", cfg="(generated)", entry=entry, **res.summary()))
    tmp = cpath + ".tmp%d" % os.getpid()
    with open(tmp, "w") as f:
        json.dump(out, f)
    os.replace(tmp, cpath)
    return out
