"""X03 trace recorder: dynamic structure factor and phonon moments of the real phonopy, projected to the
observations of spec/DSFTrace.tla and spec/MomentApi.tla.

Interpretation (never the code under test):
 * DSF, Q commensurate with the supercell: the DEFINITION of one-phonon creation evaluated on the real
   eigenvectors of the supercell force constants (exact spring-model oracle) - no phase convention enters;
 * DSF, any Q: the formula in its 16 readings (eigenvector conjugated or not, form factor or scattering
   length, Debye-Waller from the mesh or 1, n+1 or n) on eigen-solutions obtained through ANOTHER route
   (get_dynamical_matrix_at_q + numpy) - degenerate sets are compared as sums;
 * Debye-Waller exponents: thermal displacements by definition from the supercell modes;
 * moments: the definition on the full mesh from the oracle's lattice Fourier sum.

    VERIF_EXT_VARIANT=omp|serial python -m harness.x03_driver plan.json out.json
"""
from __future__ import annotations

import contextlib
import io
import json
import sys
import time
import warnings

from harness import bootstrap  # noqa: F401

import numpy as np  # noqa: E402

warnings.simplefilter("ignore")

from phonopy import Phonopy  # noqa: E402
import phonopy._phonopy as phonoc  # noqa: E402
from phonopy.spectrum.dynamic_structure_factor import atomic_form_factor_WK1995  # noqa: E402
from phonopy.units import AMU, THz, Kb, THzToEv, Hbar, EV, Angstrom  # noqa: E402

from harness.oracle import Oracle  # noqa: E402

DEN = 12
B_LEN = {"Na": 3.63, "Cl": 9.577}
AFF = {"Na": [3.148690, 2.594987, 4.073989, 6.046925, 0.767888, 0.070139, 0.995612, 14.1226457, 0.968249, 0.217037, 0.045300],
       "Cl": [1.061802, 0.144727, 7.139886, 1.171795, 6.524271, 19.467656, 2.355626, 60.320301, 35.829404, 0.000436, -34.916604]}
DSF_CRYSTALS = {"tric": [3, 2, 2], "tetab": [3, 3, 2], "wz": [3, 3, 2], "cscl": [3, 3, 3]}
TOL_S = 1e-8


def aff_func(symbol, s):
    return atomic_form_factor_WK1995(s, AFF[symbol])


def n_be(f, T):
    return 1.0 / (np.exp(f * THzToEv / (Kb * T)) - 1.0)


class DsfWorld:
    def __init__(self, entry, seed):
        self.entry = entry
        self.N = DSF_CRYSTALS[entry]
        self.S = np.diag(self.N).tolist()
        self.orc = Oracle(entry, [self.S], seed=seed)
        self.cell = self.orc.unitcell()
        self.ph = self.fresh()
        ph = self.ph
        self.factor = ph.unit_conversion_factor
        sc = ph.supercell
        self.m_sc = np.array(sc.masses)
        self.X = np.array(sc.positions)
        self.sym_sc = list(sc.symbols)
        self.s2u = np.array(sc.s2u_map)
        u2u = sc.u2u_map
        self.img_of = np.array([u2u[int(k)] for k in self.s2u])      # supercell atom -> unit-cell atom index
        n = len(sc)
        D = np.zeros((3 * n, 3 * n))
        for i in range(n):
            for j in range(n):
                D[3 * i:3 * i + 3, 3 * j:3 * j + 3] = self.fc[i, j] / np.sqrt(self.m_sc[i] * self.m_sc[j])
        lam, self.U = np.linalg.eigh((D + D.T) / 2)
        self.f_sc = np.sign(lam) * np.sqrt(np.abs(lam)) * self.factor
        self.rec = np.linalg.inv(self.cell.cell)      # columns: reciprocal basis
        self.pos = np.array(self.cell.scaled_positions)
        self.m = np.array(self.cell.masses)
        self.symbols = list(self.cell.symbols)
        self.ncell = int(np.prod(self.N))
        G = np.array(self.orc.cr["G"], dtype=int)
        self.metric = adj3(G).tolist()

    def fresh(self):
        with contextlib.redirect_stdout(io.StringIO()):
            ph = Phonopy(self.cell, supercell_matrix=self.S, primitive_matrix=np.eye(3), log_level=0)
            if not hasattr(self, "fc"):
                self.fc = self.orc.supercell_fc(self.S, ph.supercell)
            ph.force_constants = self.fc.copy()
        return ph

    # thermal displacements along qhat by definition, from the supercell modes
    def u2(self, qhat, T, fmin, fmax):
        out = np.zeros(len(self.m))
        for s, f in enumerate(self.f_sc):
            if not (f > fmin) or (fmax is not None and not (f < fmax)):
                continue
            q2 = Hbar * EV / Angstrom ** 2 * ((n_be(f, T) + 0.5) / (f * 1e12 * 2 * np.pi))
            proj = np.abs(self.U[:, s].reshape(-1, 3) @ qhat) ** 2 / (self.m_sc * AMU)
            np.add.at(out, self.img_of, q2 * proj)
        return out / self.ncell

    def fvals(self, src, Qlen):
        if src == "aff":
            return np.array([aff_func(s, Qlen / 2) for s in self.symbols])
        return np.array([B_LEN[s] for s in self.symbols])

    def formula(self, Q, q, freqs, eigvecs, T, fmin, conj, fv, dw, bose_np1):
        """S(Q, nu) in the reading (conj, fv, dw, bose) from eigen-solutions at q."""
        Qc = self.rec @ Q
        G = Q - q
        ph = np.exp((-2j if conj else 2j) * np.pi * (self.pos @ G))
        S = np.zeros(len(freqs))
        for nu, f in enumerate(freqs):
            if fmin < f:
                ea = eigvecs[:, nu].reshape(-1, 3)
                F = np.sum(fv / np.sqrt(2 * self.m) * dw * (ea @ Qc) * 2 * np.pi * ph) / np.sqrt(f)
                S[nu] = abs(F) ** 2 * (n_be(f, T) + (1 if bose_np1 else 0))
        return S / (AMU * (2 * np.pi * THz) ** 2)

    def brute_force(self, Q, T, fmin, fv_sc, dw_sc):
        """sum over supercell modes s: |sum_a f_a/sqrt(2 m_a) DW_a (Q.U_as) exp(2 pi i Q.x_a)|^2 (n+1)/f_s / Ncell"""
        Qc = self.rec @ Q
        pref = fv_sc / np.sqrt(2 * self.m_sc) * dw_sc * np.exp(2j * np.pi * (self.X @ Qc)) * 2 * np.pi
        out = []
        for s, f in enumerate(self.f_sc):
            if fmin < f:
                amp = np.sum(pref * (self.U[:, s].reshape(-1, 3) @ Qc))
                out.append((f, abs(amp) ** 2 / self.ncell / f * (n_be(f, T) + 1) / (AMU * (2 * np.pi * THz) ** 2)))
        return out


def adj3(M):
    c = np.zeros((3, 3), dtype=np.int64)
    for i in range(3):
        for j in range(3):
            mm = np.delete(np.delete(M, i, 0), j, 1)
            c[i, j] = (-1) ** (i + j) * (mm[0, 0] * mm[1, 1] - mm[0, 1] * mm[1, 0])
    return c.T


def groups(freqs, tol=1e-5):
    order = np.argsort(freqs, kind="stable")
    gs, cur = [], [order[0]]
    for k in order[1:]:
        if abs(freqs[k] - freqs[cur[-1]]) < tol * max(1.0, abs(freqs[k])):
            cur.append(k)
        else:
            gs.append(cur)
            cur = [k]
    gs.append(cur)
    return gs


def dsf_case(w, case, rng, evid):
    cfg = case["cfg"]
    T = case["T"]
    N = np.array(w.N)
    # Q-points on the 1/12 grid: commensurate with the supercell, generic, zone boundary, zero
    Qn = []
    for kind in case["qkinds"]:
        G = rng.integers(-2, 3, size=3) * DEN
        if kind == "comm":
            k = np.array([rng.integers(0, N[i]) * (DEN // N[i]) for i in range(3)])
            if not k.any():
                k[0] = DEN // N[0]
            Qn.append(G + k)
        elif kind == "generic":
            Qn.append(G + np.array([5, 1, -2]) * (1 if rng.integers(2) else -1) + rng.integers(0, 2, size=3) * 6 * 0)
        elif kind == "boundary":
            Qn.append(G + np.array([6, 0, 0]))
        else:
            Qn.append(np.zeros(3, dtype=int))
    Qn = np.array(Qn, dtype=int)
    Qs = Qn / DEN
    fmin = case["fmin"]
    fmax = case["fmax"]
    kw = {}
    if cfg["src"] in ("aff", "both"):
        kw["atomic_form_factor_func"] = aff_func
    if cfg["src"] in ("b", "both"):
        kw["scattering_lengths"] = B_LEN
    ph = w.fresh() if cfg["mesh"] == "none" else w.ph
    status, exc = "ok", None
    try:
        with contextlib.redirect_stdout(io.StringIO()):
            if cfg["mesh"] == "sym_ev":
                ph.run_mesh(w.N, is_mesh_symmetry=True, with_eigenvectors=True, is_gamma_center=True)
            elif cfg["mesh"] == "full_noev":
                ph.run_mesh(w.N, is_mesh_symmetry=False, with_eigenvectors=False, is_gamma_center=True)
            elif cfg["mesh"] == "full_ev":
                ph.run_mesh(w.N, is_mesh_symmetry=False, with_eigenvectors=True, is_gamma_center=True)
            ph.run_dynamic_structure_factor(Qs, T, freq_min=fmin, freq_max=fmax, **kw)
            qf, S = ph.get_dynamic_structure_factor()
            freqs_code = np.array(ph._dynamic_structure_factor.frequencies)
    except RuntimeError as ex:
        status, exc = "RuntimeError", repr(ex)[:160]
    except Exception as ex:  # noqa: BLE001
        status, exc = type(ex).__name__, repr(ex)[:160]
    events = []
    fm = 0.0 if fmin is None else fmin
    for iq in range(len(Qs)):
        ev = dict(id=evid + iq, entry=w.entry, cfg=cfg, metric=w.metric, den=DEN, Qn=[int(x) for x in Qn[iq]], qn=[0, 0, 0],
                  exact=True, T=T, fmin=fmin, fmax=fmax, exc=exc,
                  out=dict(status=status, toks=[], cutoff="na", bf="na"))
        events.append(ev)
        if status != "ok":
            continue
        Q = Qs[iq]
        q = np.array(qf[iq])
        qn = np.rint(q * DEN)
        ev["exact"] = bool(np.abs(q * DEN - qn).max() < 1e-9)
        ev["qn"] = [int(x) for x in qn]
        Sc = np.array(S[iq])
        fc_ = freqs_code[iq]
        ev["out"]["cutoff"] = "ok" if all(Sc[k] == 0.0 for k in range(len(fc_)) if not fm < fc_[k]) else "bad"
        # another route to the eigen-solutions at q
        D = np.array(ph.get_dynamical_matrix_at_q(q))
        lam, evec = np.linalg.eigh(D)
        fr = np.sign(lam) * np.sqrt(np.abs(lam)) * w.factor
        Qc = w.rec @ Q
        Ql = np.linalg.norm(Qc)
        if Ql < 1e-8:
            dwm = np.zeros(len(w.m))
        else:
            dwm = np.exp(-0.5 * (2 * np.pi * Ql) ** 2 * w.u2(Qc / Ql, T, fm, fmax))
        gs = groups(fr)
        gsum = lambda arr: np.array([arr[g].sum() for g in gs])  # noqa: E731
        # the code's array grouped by ITS frequencies must be comparable: same grouping by sorted order
        if np.abs(np.sort(fc_) - np.sort(fr)).max() > 1e-6 * max(1.0, np.abs(fr).max()):
            ev["out"]["toks"] = []
            continue
        code_g = np.array([Sc[[k for k in range(len(fc_)) if any(abs(fc_[k] - fr[j]) < 1e-5 * max(1.0, abs(fr[j])) for j in g)]].sum() for g in gs])
        toks = []
        best = None
        for conj in (True, False):
            for src in ("aff", "b"):
                fv = w.fvals(src, Ql)
                for dwn, dw in (("mesh", dwm), ("one", np.ones(len(w.m)))):
                    for bose in (True, False):
                        ref = gsum(w.formula(Q, q, fr, evec, T, fm, conj, fv, dw, bose))
                        sc = max(np.abs(ref).max(), np.abs(code_g).max(), 1e-300)
                        e = np.abs(code_g - ref).max() / sc if sc > 1e-290 else 0.0
                        if e < TOL_S:
                            toks.append(dict(ph="conj" if conj else "plain", f=src, dw=dwn, bose="np1" if bose else "n"))
                            best = e if best is None else min(best, e)
        ev["out"]["toks"] = toks
        ev["err"] = best
        # the definition on the supercell modes (commensurate Q only)
        if cfg["anymode"] and Ql > 1e-8 and all((Qn[iq][i] * N[i]) % DEN == 0 for i in range(3)) and cfg["src"] != "neither":
            src = "aff" if cfg["src"] in ("aff", "both") else "b"
            fv = w.fvals(src, Ql)
            bf = w.brute_force(Q, T, fm, fv[w.img_of], dwm[w.img_of])
            ref = np.array([sum(v for f, v in bf if any(abs(f - fr[j]) < 1e-5 * max(1.0, abs(fr[j])) for j in g)) for g in gs])
            sc = max(np.abs(ref).max(), np.abs(code_g).max())
            ev["out"]["bf"] = "ok" if np.abs(code_g - ref).max() <= 1e-7 * sc else "bad"
            ev["bf_err"] = float(np.abs(code_g - ref).max() / sc)
    return events


# ---------------------------------------------------------------------------------------
MOM_CRYSTALS = {"cscl": [4, 4, 4], "tetab": [4, 4, 2], "wz": [3, 3, 2]}


class MomWorld:
    def __init__(self, entry, seed):
        self.entry = entry
        self.S = [[2, 0, 0], [0, 2, 0], [0, 0, 2]]
        self.orc = Oracle(entry, [self.S], seed=seed)
        self.cell = self.orc.unitcell()
        with contextlib.redirect_stdout(io.StringIO()):
            self.ph = Phonopy(self.cell, supercell_matrix=self.S, primitive_matrix=np.eye(3), log_level=0)
            self.ph.force_constants = self.orc.supercell_fc(self.S, self.ph.supercell)
        self.mesh = MOM_CRYSTALS[entry]
        self.grid = {}

    def full(self, gc):
        if gc not in self.grid:
            ph = self.ph
            ph.run_mesh(self.mesh, is_mesh_symmetry=False, is_gamma_center=gc)
            qs = np.array(ph.mesh.qpoints)
            fr, p = [], []
            for q in qs:
                lam, e = np.linalg.eigh(self.orc.dynmat(q))
                fr.append(np.sign(lam) * np.sqrt(np.abs(lam)) * ph.unit_conversion_factor)
                p.append(np.abs(e) ** 2)           # (component, band)
            self.grid[gc] = (np.array(fr), np.array(p))
        return self.grid[gc]

    def definition(self, gc, q, fmin, fmax, gamma=None):
        """The definition on the full mesh.  The three acoustic modes at Gamma have |f| ~ 1e-7 THz of either sign in
        any floating-point evaluation - on either side of the default lower bound 1e-8 - and an arbitrary basis;
        for those three modes (only) inclusion and |e|^2 are taken as the object under test reports them
        (gamma = (frequencies, |e|^2) of its Gamma point)."""
        fr, p = self.full(gc)
        fr = fr.copy()
        p = p.copy()
        lo = 1e-8 if fmin is None else fmin
        hi = np.inf if fmax is None else fmax
        for i in range(fr.shape[0]):
            amb = [b for b in range(fr.shape[1]) if abs(fr[i, b]) < 1e-4]
            if amb and gamma is not None:
                gf, gp = gamma
                gamb = [b for b in range(len(gf)) if abs(gf[b]) < 1e-4]
                if len(gamb) == len(amb):
                    for b, gb in zip(amb, gamb):
                        fr[i, b] = gf[gb]
                        if gp is not None:
                            p[i, :, b] = gp[:, gb]
        sel = (fr > lo - (1e-8 if fmin is not None else 0)) & (fr < hi + 1e-8)
        if not q["proj"]:
            den = sel.sum()
            return np.array((fr[sel] ** q["ord"]).sum() / den) if den else None
        nc = p.shape[1]
        num = np.zeros(nc)
        den = np.zeros(nc)
        for i in range(fr.shape[0]):
            for b in range(fr.shape[1]):
                if sel[i, b]:
                    num += fr[i, b] ** q["ord"] * p[i, :, b]
                    den += p[i, :, b]
        r = num / den
        return np.array([r[3 * a:3 * a + 3].sum() / 3 for a in range(nc // 3)])


def moment_session(w, ses, gc, evid):
    ph = w.ph
    fr_all, _ = w.full(gc)
    fpos = fr_all[fr_all > 1e-3]
    fmin_v = float(np.quantile(fpos, 0.3)) + 1.23e-4
    fmax_v = float(np.quantile(fpos, 0.8)) + 2.34e-4
    with contextlib.redirect_stdout(io.StringIO()):
        ph.run_mesh(w.mesh, is_mesh_symmetry=ses["mesh"]["sym"], with_eigenvectors=ses["mesh"]["ev"], is_gamma_center=gc)
    ph._moment = None      # a session starts without an earlier moment object
    gamma = None
    qs = np.array(ph.mesh.qpoints)
    ig = [i for i in range(len(qs)) if np.abs(qs[i]).max() < 1e-9]
    if ig:
        ev = ph.mesh.eigenvectors
        gamma = (np.array(ph.mesh.frequencies[ig[0]]), None if ev is None else np.abs(np.array(ev[ig[0]])) ** 2)
    obs = []
    prev, prev_q = None, None
    for q in ses["reqs"]:
        fmin = fmin_v if q["lo"] else None
        fmax = fmax_v if q["hi"] else None
        o = dict(status="ok", eqdef="na", one="na", stale="na")
        try:
            ph.run_moment(order=q["ord"], is_projection=q["proj"], freq_min=fmin, freq_max=fmax)
            val = ph.get_moment()
            val = None if val is None else np.array(val, dtype=float)
        except Exception as ex:  # noqa: BLE001
            o["status"] = "raised"
            o["exc"] = type(ex).__name__
            obs.append(o)
            continue
        want = w.definition(gc, q, fmin, fmax, gamma)
        ok = val is not None and want is not None and val.shape == want.shape and \
            bool(np.abs(val - want).max() <= 1e-9 * max(1.0, np.abs(want).max()))
        o["eqdef"] = "yes" if ok else "no"
        o["value"] = None if val is None else np.atleast_1d(val).tolist()
        o["definition"] = None if want is None else np.atleast_1d(want).tolist()
        if q["ord"] == 0:
            o["one"] = "yes" if val is not None and bool(np.abs(val - 1.0).max() < 1e-12) else "no"
        # stale: the value of the EARLIER, different request (an identical request legitimately repeats its value)
        o["stale"] = "yes" if (not ok and prev is not None and val is not None and prev_q != q and prev.shape == val.shape
                               and np.array_equal(prev, val)) else "no"
        prev, prev_q = val, q
        obs.append(o)
    return dict(id=evid, entry=w.entry, gc=gc, ses=ses, obs=obs, window=[fmin_v, fmax_v])


def main(argv):
    plan_path, out_path = argv
    with open(plan_path) as f:
        plan = json.load(f)
    omp = bool(phonoc.use_openmp())
    rng = np.random.default_rng([plan["seed"], 3, int(omp)])
    t0 = time.time()
    dw, mw = {}, {}
    dsf_events, mom_events = [], []
    evid = plan["id_base"]
    for case in plan["dsf"]:
        en = case["entry"]
        if en not in dw:
            dw[en] = DsfWorld(en, plan["seed"])
        evs = dsf_case(dw[en], case, rng, evid + 1)
        evid += len(evs)
        dsf_events += evs
    for item in plan["moment"]:
        en = item["entry"]
        if en not in mw:
            mw[en] = MomWorld(en, plan["seed"])
        evid += 1
        mom_events.append(moment_session(mw[en], item["ses"], item["gc"], evid))
    with open(out_path, "w") as f:
        json.dump(dict(omp=omp, dsf=dsf_events, moment=mom_events, wall=time.time() - t0), f)


if __name__ == "__main__":
    main(sys.argv[1:])
