"""C11 step E: API sessions on spring-model crystals (spec/DosApi.tla).

The total / projected DOS returned by the public API is recomputed from the
mesh's frequencies and eigenvectors with the numpy realisation of the
specification's definition (harness/c11_tetra.py) - star of every grid point
on the periodic field, geometric vertex weights - and with the smearing
kernels written out here; the comparisons are logged as classes and judged by
TLC."""
from __future__ import annotations

import contextlib
import io
import math

import numpy as np

from harness import bootstrap  # noqa: F401
from harness import c11_tetra as T
from harness import tlc as tlcmod
from harness.oracle import Oracle
from harness.tla_values import to_tla

from phonopy import Phonopy
from phonopy.phonon.dos import TotalDos, ProjectedDos
from phonopy.phonon.tetrahedron_mesh import TetrahedronMesh
from phonopy.structure.tetrahedron_method import TetrahedronMethod

TOL_POINT = 1e-9      # point-wise agreement with the definition, relative to the largest value
TOL_QUAD = 5e-2       # quadrature statements (trapezoid on a fine grid), relative to the number of bands
TOL_ADD = 1e-10       # projections add up to the total, relative to the largest total
TOL_ADD_POINT = 1e-9  # ... and relative to the total at the same frequency point (gaps, tails)
TOL_DERIV = 1e-5      # density vs central difference of the cumulative weight, relative to the largest density
TOL_QUAD_NORMAL = 1e-6
TOL_QUAD_CAUCHY = 2e-3

SESSIONS_QUICK = [
    ("cscl", [[2, 0, 0], [0, 2, 0], [0, 0, 1]], [3, 3, 2]),
    ("tric", [[2, 0, 0], [0, 2, 0], [0, 0, 2]], [2, 3, 2]),
    ("hcp", [[2, 0, 0], [0, 2, 0], [0, 0, 1]], [3, 3, 2]),
    ("tetab", [[2, 0, 0], [0, 2, 0], [0, 0, 1]], [2, 2, 3]),
    ("bcc", [[2, 0, 0], [0, 2, 0], [0, 0, 2]], [4, 3, 3]),
    ("wz", [[2, 0, 0], [0, 2, 0], [0, 0, 1]], [3, 3, 2]),
]
# primitive cells in another (unimodular) basis of the same lattice + anisotropic meshes: the reciprocal basis
# vectors then have pairwise products of mixed sign ("frustrated"), and dividing them by the mesh numbers
# changes which main diagonal of the microzone is the shortest (checked below, with a margin)
SESSIONS_QUICK += [
    ("tric", [[2, 0, 0], [0, 2, 0], [0, 0, 2]], [4, 3, 2], [[-1, -1, -1], [-1, -1, 0], [0, 1, -1]]),
    ("tetab", [[2, 0, 0], [0, 2, 0], [0, 0, 1]], [2, 4, 3], [[-1, -1, -1], [-1, -1, 0], [-1, 0, 1]]),
]
SESSIONS_THOROUGH = SESSIONS_QUICK + [
    ("bcc", [[2, 0, 0], [0, 2, 0], [0, 0, 2]], [2, 3, 4], [[-1, -1, -1], [-1, 0, -1], [1, -1, 0]]),
    ("hcp", [[2, 0, 0], [0, 2, 0], [0, 0, 1]], [4, 2, 3], [[-1, -1, -1], [-1, -1, 0], [0, 1, -1]]),
    ("tric", [[2, 0, 0], [0, 2, 0], [0, 0, 2]], [2, 4, 3], [[-1, -1, -1], [-1, -1, 0], [0, 1, 1]]),
    ("sc", [[2, 0, 0], [0, 2, 0], [0, 0, 2]], [4, 4, 4]),
    ("nacl", [[1, 0, 0], [0, 1, 0], [0, 0, 1]], [3, 3, 3]),
    ("naclg", [[1, 0, 0], [0, 1, 0], [0, 0, 2]], [3, 2, 2]),
    ("naclg", [[1, 0, 0], [0, 1, 0], [0, 0, 2]], [2, 2, 2]),   # shifted 2x2x2: one orbit, every simplex flat, DOS = 0
    ("tric", [[2, 0, 0], [0, 2, 0], [0, 0, 2]], [4, 2, 3]),
    ("hcp", [[2, 0, 0], [0, 2, 0], [0, 0, 1]], [5, 5, 3]),
    ("cscl", [[2, 0, 0], [0, 2, 0], [0, 0, 1]], [4, 4, 4]),
]


def cls(resid, tol):
    if not np.isfinite(resid):
        return "nan"
    return "ok" if resid <= tol else "off"


class Margins:
    def __init__(self):
        self.m = {}

    def note(self, name, resid, tol):
        if np.isfinite(resid):
            self.m[name] = max(self.m.get(name, 0.0), float(resid) / tol)


# ---------------------------------------------------------------------------
# the definition on a mesh


def diag_candidates(cell_matrix, mesh):
    rec = np.linalg.inv(cell_matrix) / np.array(mesh, dtype=float)  # columns b_j / m_j
    ls = np.array([np.sum((rec @ np.array(d, dtype=float)) ** 2) for d in T.DIAG_DIR])
    return [d for d in range(4) if ls[d] <= ls.min() * (1 + 1e-9)]


def mesh_tables(mesh_obj):
    mesh = [int(x) for x in mesh_obj.mesh_numbers]
    ga = np.array(mesh_obj.grid_address, dtype=int)
    mp = np.array(mesh_obj.grid_mapping_table, dtype=int)
    ir = np.array(mesh_obj.ir_grid_points, dtype=int)
    n = mesh[0] * mesh[1] * mesh[2]
    idx = (ga[:, 0] % mesh[0]) + (ga[:, 1] % mesh[1]) * mesh[0] + (ga[:, 2] % mesh[2]) * mesh[0] * mesh[1]
    if not (len(ga) == n and np.array_equal(idx, np.arange(n))):
        raise tlcmod.MachineryError("grid addresses are not in index order")
    pos = {int(g): i for i, g in enumerate(ir)}
    irindex = np.array([pos[int(mp[g])] for g in range(n)])
    mult = np.array([int(np.sum(mp == g)) for g in ir])
    return mesh, ga, mp, ir, irindex, mult, n


def star_tuples(mesh_obj, freqs, d):
    """(n_ir, n_band, 24, 4) value tuples, central vertex first, from the DEFINITION of the periodic field"""
    mesh, ga, mp, ir, irindex, mult, n = mesh_tables(mesh_obj)
    full = freqs[irindex]  # (n, nb)
    star = T.star_of(d)
    out = np.zeros((len(ir), freqs.shape[1], 24, 4))
    for r, g in enumerate(ir):
        out[r, :, :, 0] = full[g][:, None]
        for t, S in enumerate(star):
            for k, s in enumerate(sorted(S)):
                a = ga[g] + np.array(s)
                j = (a[0] % mesh[0]) + (a[1] % mesh[1]) * mesh[0] + (a[2] % mesh[2]) * mesh[0] * mesh[1]
                out[r, :, t, k + 1] = full[j]
    return out, mult, n


_GPW_CACHE = {}


def def_gp_weights(fn, tuples, ws):
    """(n_ir, n_band, n_w): (1/6) SUM_star weight of the central vertex"""
    key = (fn, tuples.tobytes(), np.asarray(ws, dtype=float).tobytes())
    if key in _GPW_CACHE:
        return _GPW_CACHE[key]
    nir, nb = tuples.shape[:2]
    v = tuples.reshape(-1, 4)
    nw = len(ws)
    out = np.zeros((nir, nb, nw))
    chunk = max(1, 400000 // max(1, len(v)))
    for j0 in range(0, nw, chunk):
        wj = np.asarray(ws[j0:j0 + chunk], dtype=float)
        vv = np.repeat(v[None, :, :], len(wj), axis=0).reshape(-1, 4)
        ww = np.repeat(wj, len(v))
        x = T.def_weight(fn, vv, ww, "R").reshape(len(wj), nir, nb, 24).sum(axis=3) / 6.0
        out[:, :, j0:j0 + len(wj)] = np.moveaxis(x, 0, 2)
    if len(_GPW_CACHE) > 64:
        _GPW_CACHE.clear()
    _GPW_CACHE[key] = out
    return out


def def_dos_thm(gpw, mult, n, coef=None):
    """coef: (n_ir, n_proj, n_band) or None -> (n_w,) or (n_proj, n_w)"""
    if coef is None:
        return np.einsum("r,rbj->j", mult, gpw) / n
    return np.einsum("r,rmb,rbj->mj", mult, coef, gpw) / n


def kernel(name, sigma, x):
    if name == "cauchy":
        return sigma / math.pi / (x ** 2 + sigma ** 2)
    return np.exp(-x ** 2 / (2 * sigma ** 2)) / (math.sqrt(2 * math.pi) * sigma)


def kernel_mass(name, sigma, lo, hi, f):
    """INT_lo^hi K(f - w) dw for every f"""
    if name == "cauchy":
        return (np.arctan((hi - f) / sigma) - np.arctan((lo - f) / sigma)) / math.pi
    erf = np.vectorize(math.erf)
    return 0.5 * (erf((hi - f) / (sigma * math.sqrt(2))) - erf((lo - f) / (sigma * math.sqrt(2))))


def def_dos_smear(name, sigma, freqs, weights, ws, coef=None):
    wq = np.array(weights, dtype=float)
    out = []
    for w in ws:
        k = kernel(name, sigma, freqs - w)  # (nq, nb)
        if coef is None:
            out.append(np.sum(wq[:, None] * k) / wq.sum())
        else:
            out.append(np.einsum("q,qmb,qb->m", wq, coef, k) / wq.sum())
    return np.array(out).T if coef is not None else np.array(out)


def coefficients(eigvecs, kind, direction=None):
    """|e|^2 projections (n_q, n_proj, n_band) from eigenvectors (n_q, 3n, n_band)"""
    e = np.asarray(eigvecs)
    nq, n3, nb = e.shape
    if kind == "xyz":
        return np.abs(e) ** 2
    ex = e.reshape(nq, n3 // 3, 3, nb)
    if kind == "atoms":
        return (np.abs(ex) ** 2).sum(axis=2)
    d = np.array(direction, dtype=float)
    d = d / np.linalg.norm(d)
    return np.abs(np.einsum("qaxb,x->qab", ex, d)) ** 2


# ---------------------------------------------------------------------------


def trapz(y, x):
    return float(np.sum((y[1:] + y[:-1]) * np.diff(x)) / 2.0)


def total_checks(step, fp, dos, nb, mg):
    step["finite"] = bool(np.all(np.isfinite(dos)))
    top = float(np.max(np.abs(dos))) if step["finite"] else float("nan")
    step["nonneg"] = bool(step["finite"] and dos.min() >= -1e-12 * max(top, 1.0))
    return top


def diag_lengths(cell_matrix, mesh):
    rec = np.linalg.inv(cell_matrix) / np.array(mesh, dtype=float)
    return np.array([np.sum((rec @ np.array(d, dtype=float)) ** 2) for d in T.DIAG_DIR])


def diag_of_table(rel):
    """which main diagonal a (24,4,3) table of relative grid addresses belongs to (-1: none)"""
    got = set(frozenset(tuple(int(x) for x in v) for v in row if any(v)) for row in np.array(rel))
    for d in range(4):
        if got == set(T.star_of(d)):
            return d
    return -1


def run_session(ctx, entry, S, mesh_numbers, k, mg, pmat=None, recorder=None, with_presentations=True):
    name = "%s S=%s mesh=%s%s" % (entry, S, mesh_numbers, "" if pmat is None else " P=%s" % pmat)
    orc = Oracle(entry, [S], seed=ctx.seed + 11 + k, ctx=ctx)
    with contextlib.redirect_stdout(io.StringIO()):
        ph = Phonopy(orc.unitcell(), supercell_matrix=S, primitive_matrix=pmat, log_level=0)
    ph.force_constants = orc.supercell_fc(S, ph.supercell)
    nb = 3 * len(ph.primitive)
    ses = dict(name=name, nbands=nb, steps=[])
    rng = np.random.default_rng(ctx.seed * 7 + k)
    gamma = bool(k % 2)

    def attempt(step, fn):
        try:
            fn(step)
            step["err"] = ""
        except tlcmod.MachineryError:
            raise
        except Exception as e:  # an exception of phonopy where the specification expects a result
            # the call raised where the specification expects a result: the step is logged as "failed"
            # (no result fields), ImplNoError reports it
            step = dict(op="failed", what=str(step.get("op")), err="%s: %s" % (type(e).__name__, str(e)[:200]))
        ses["steps"].append(step)

    # ---- full grid -------------------------------------------------------
    attempt(dict(op="mesh", symmetry=False), lambda st: ph.run_mesh(
        mesh_numbers, with_eigenvectors=True, is_mesh_symmetry=False, is_gamma_center=gamma))
    if ses["steps"][-1]["err"]:
        return ses
    mo = ph._mesh
    freqs = np.array(mo.frequencies)
    eig = np.array(mo.eigenvectors)
    cands = diag_candidates(ph.primitive.cell, mesh_numbers)
    l_scaled, l_plain = diag_lengths(ph.primitive.cell, mesh_numbers), diag_lengths(ph.primitive.cell, [1, 1, 1])
    ses["mesh_changes_diagonal"] = bool(int(np.argmin(l_scaled)) != int(np.argmin(l_plain))
                                        and np.sort(l_scaled)[1] > 1.05 * np.sort(l_scaled)[0]
                                        and np.sort(l_plain)[1] > 1.05 * np.sort(l_plain)[0])

    def division(st, want_projected):
        """the main diagonal of the table the DOS class handed to the kernel in the last call"""
        calls = [c for c in recorder.calls if c["projected"] == want_projected]
        recorder.calls[:] = []
        if not calls:
            st["diagUsed"], st["diagShortest"] = -1, False
            return
        ds = set(diag_of_table(c["rel"]) for c in calls)
        st["diagUsed"] = int(min(ds))
        st["diagShortest"] = bool(len(ds) == 1 and min(ds) in cands)
    tup = {d: star_tuples(mo, freqs, d) for d in cands}
    fmin, fmax = freqs.min(), freqs.max()
    span = fmax - fmin
    pitch = span / 48.0
    grid = dict(freq_min=fmin - 0.07 * span, freq_max=fmax + 0.05 * span, freq_pitch=pitch)
    # smearing widths: between 1/40 and 1/12 of the spectrum (the default frequency grid then has
    # at least three points per width: quadrature error of the trapezoid rule below 1e-8)
    sig = dict(normal=float(span / rng.uniform(12.0, 40.0)), cauchy=float(span / rng.uniform(12.0, 40.0)))

    def best_match(real, make_def):
        """residual against the definition for the best candidate main diagonal (exact ties of the
        diagonal lengths are broken by rounding in the code)"""
        best = float("inf")
        for d in cands:
            ref = make_def(d)
            scale = max(float(np.max(np.abs(ref))), 1e-300)
            best = min(best, float(np.max(np.abs(real - ref))) / scale)
        return best

    def total_thm(st, mesh_obj=None, tups=None, fr=None, default_grid=False):
        mesh_obj = mesh_obj or mo
        tups = tups or tup
        fr = freqs if fr is None else fr
        recorder.calls[:] = []
        if default_grid:
            ph.run_total_dos()
        else:
            ph.run_total_dos(**grid)
        division(st, False)
        d = ph.get_total_dos_dict()
        fp, dos = np.array(d["frequency_points"]), np.array(d["total_dos"])
        st["npoints"] = len(fp)
        top = total_checks(st, fp, dos, nb, mg)
        sel = np.arange(0, len(fp), 5 if default_grid else 1)
        res = best_match(dos[sel], lambda dd: def_dos_thm(def_gp_weights("I", tups[dd][0], fp[sel]), tups[dd][1], tups[dd][2]))
        st["matches"] = cls(res, TOL_POINT)
        mg.note("thm total point-wise", res, TOL_POINT)
        # cumulative weights through TetrahedronMesh (compiled and Python lookups)
        stride = max(1, len(fp) // 25)
        aligned = fp[::stride]
        cpts = np.concatenate([aligned, [fr.min() - 1.0, fr.max() + 1e-3 * span, fr.max() + 1.0]])
        cum = {}
        for lang in ("C", "Py"):
            thm = TetrahedronMesh(ph.primitive, fr, mesh_obj.mesh_numbers, np.array(mesh_obj.grid_address, dtype="int64"),
                                  np.array(mesh_obj.grid_mapping_table, dtype="int64"), mesh_obj.ir_grid_points, lang=lang)
            thm.set(value="J", frequency_points=cpts, lang=lang)
            acc = np.zeros(len(cpts))
            for i, iw in enumerate(thm):
                acc += np.sum(iw * mesh_obj.weights[i], axis=1)
            cum[lang] = acc
        r1, e1 = T.to_rat(cum["C"][-2], maxden=1000)
        r2, e2 = T.to_rat(cum["Py"][-2], maxden=1000)
        r0, e0 = T.to_rat(cum["C"][-3], maxden=1000)
        st["cumTop"], st["cumTopPy"], st["cumBottom"], st["cumTopExact"] = r1, r2, r0, bool(e1 and e2 and e0)
        order = np.argsort(cpts)
        st["cumMonotone"] = bool(np.all(np.diff(cum["C"][order]) >= -1e-12) and np.all(np.diff(cum["Py"][order]) >= -1e-12)
                                 and abs(cum["C"][-1] - nb) < 1e-10 and float(np.max(np.abs(cum["C"] - cum["Py"]))) < 1e-10)
        # density = derivative of the cumulative weight: central difference of the real cumulative
        # weights against the real DOS at points of the returned grid
        h = 1e-6 * span
        ks = np.arange(2, len(fp) - 2, max(1, len(fp) // 24))
        thm = TetrahedronMesh(ph.primitive, fr, mesh_obj.mesh_numbers, np.array(mesh_obj.grid_address, dtype="int64"),
                              np.array(mesh_obj.grid_mapping_table, dtype="int64"), mesh_obj.ir_grid_points)
        thm.set(value="J", frequency_points=np.concatenate([fp[ks] - h, fp[ks] + h]))
        acc = np.zeros(2 * len(ks))
        for i, iw in enumerate(thm):
            acc += np.sum(iw * mesh_obj.weights[i], axis=1)
        deriv = (acc[len(ks):] - acc[:len(ks)]) / (2 * h)
        dres = float(np.max(np.abs(deriv - dos[ks])) / max(top, 1e-300))
        st["derivative"] = cls(dres, TOL_DERIV)
        mg.note("thm density vs central difference of cumulative", dres, TOL_DERIV)
        # integral of the returned DOS on a fine grid = number of bands minus the weight of the flat
        # simplices (all four values equal: a delta function, present in the cumulative weight only)
        if not default_grid:
            ph.run_total_dos(freq_min=fr.min() - 0.01 * span, freq_max=fr.max() + 0.01 * span, freq_pitch=span / 1500.0)
            dd = ph.get_total_dos_dict()
            ffp, fdos = np.array(dd["frequency_points"]), np.array(dd["total_dos"])
            integ = float("inf")
            for c in cands:
                tp, mult, n = tups[c]
                flat = (np.max(tp, axis=3) - np.min(tp, axis=3)) <= 1e-9 * span
                flatmass = float(np.einsum("r,rb->", mult, flat.sum(axis=2) / 24.0)) / n
                integ = min(integ, abs(trapz(fdos, ffp) - (nb - flatmass)) / nb)
            st["integral"] = cls(integ, TOL_QUAD)
            mg.note("thm integral (quadrature)", integ, TOL_QUAD)
        else:
            st["integral"] = "ok"
        return fp, dos

    def total_smear(st, kname, mesh_obj=None, fr=None):
        mesh_obj = mesh_obj or mo
        fr = freqs if fr is None else fr
        sigma = sig[kname]
        if kname == "normal":
            ph.run_total_dos(sigma=sigma)
            d = ph.get_total_dos_dict()
            fp, dos = np.array(d["frequency_points"]), np.array(d["total_dos"])
        else:
            td = TotalDos(mesh_obj, sigma=sigma)
            td.set_smearing_function("Cauchy")
            td.set_draw_area()
            td.run()
            fp, dos = np.array(td.frequency_points), np.array(td.dos)
        st["npoints"] = len(fp)
        total_checks(st, fp, dos, nb, mg)
        ref = def_dos_smear(kname, sigma, fr, mesh_obj.weights, fp)
        res = float(np.max(np.abs(dos - ref)) / max(float(np.max(np.abs(ref))), 1e-12))
        st["matches"] = cls(res, TOL_POINT)
        mg.note("smearing total point-wise", res, TOL_POINT)
        wq = np.array(mesh_obj.weights, dtype=float)
        mass = float(np.sum(wq[:, None] * kernel_mass(kname, sigma, fp[0], fp[-1], fr)) / wq.sum())
        tol = TOL_QUAD_NORMAL if kname == "normal" else TOL_QUAD_CAUCHY
        integ = abs(trapz(dos, fp) - mass) / nb
        st["integral"] = cls(integ, tol)
        mg.note("smearing integral %s (quadrature)" % kname, integ, tol)
        if kname == "normal" and abs(mass - nb) / nb > 1e-9:
            st["integral"] = "off"  # ten sigmas on each side hold all of a normal distribution
        return fp, dos

    fp_t = {}
    attempt(dict(op="total", method="tetrahedron", grid="given"),
            lambda st: fp_t.__setitem__("thm", total_thm(st)))
    attempt(dict(op="total", method="tetrahedron", grid="default"),
            lambda st: total_thm(st, default_grid=True))
    attempt(dict(op="total", method="normal"), lambda st: fp_t.__setitem__("normal", total_smear(st, "normal")))
    attempt(dict(op="total", method="cauchy"), lambda st: total_smear(st, "cauchy"))

    # ---- projections --------------------------------------------------------
    triad = np.linalg.qr(rng.normal(size=(3, 3)))[0]
    cell_inv = np.linalg.inv(ph.primitive.cell)

    def projected(st, kind, method):
        sigma = None if method == "tetrahedron" else sig["normal"]
        dirs = [None] if kind != "direction" else [triad[i] @ cell_inv for i in range(3)]
        tot_fp, tot = fp_t["thm"] if method == "tetrahedron" else fp_t["normal"]
        kw = dict(grid) if method == "tetrahedron" else dict(freq_min=tot_fp[0], freq_max=tot_fp[-1],
                                                              freq_pitch=(tot_fp[-1] - tot_fp[0]) / (len(tot_fp) - 1))
        acc = None
        worst = 0.0
        nproj = None
        used = set()
        ok_fin, ok_nn = True, True
        for i, dvec in enumerate(dirs):
            recorder.calls[:] = []
            ph.run_projected_dos(sigma=sigma, direction=dvec, xyz_projection=(kind == "xyz"), **kw)
            if method == "tetrahedron":
                division(st, True)
                used.add((st["diagUsed"], st["diagShortest"]))
            d = ph.get_projected_dos_dict()
            fp, pd = np.array(d["frequency_points"]), np.array(d["projected_dos"])
            if len(fp) != len(tot_fp) or np.max(np.abs(fp - tot_fp)) > 1e-9:
                raise tlcmod.MachineryError("frequency grids of total and projected DOS differ")
            nproj = pd.shape[0]
            ok_fin &= bool(np.all(np.isfinite(pd)))
            ok_nn &= bool(pd.min() >= -1e-12 * max(1.0, float(np.max(np.abs(pd)))))
            co = coefficients(eig, "direction" if kind == "direction" else kind, None if dvec is None else triad[i])
            if method == "tetrahedron":
                res = best_match(pd, lambda dd: def_dos_thm(def_gp_weights("I", tup[dd][0], fp), tup[dd][1], tup[dd][2], co))
            else:
                ref = def_dos_smear("normal", sigma, freqs, mo.weights, fp, co)
                res = float(np.max(np.abs(pd - ref)) / max(float(np.max(np.abs(ref))), 1e-12))
            worst = max(worst, res)
            acc = pd.sum(axis=0) if acc is None else acc + pd.sum(axis=0)
        if method == "tetrahedron":
            st["diagUsed"] = int(min(u[0] for u in used))
            st["diagShortest"] = bool(len(used) == 1 and all(u[1] for u in used))
        st["nproj"] = int(nproj)
        st["finite"], st["nonneg"] = ok_fin, ok_nn
        st["matches"] = cls(worst, TOL_POINT)
        mg.note("projected point-wise", worst, TOL_POINT)
        add = float(np.max(np.abs(acc - tot)) / max(float(np.max(np.abs(tot))), 1e-12))
        st["additive"] = cls(add, TOL_POINT)
        mg.note("projected additivity", add, TOL_POINT)

    for kind in ("atoms", "xyz", "direction"):
        for method in ("tetrahedron", "normal"):
            attempt(dict(op="projected", kind=kind, method=method), lambda st, k_=kind, m_=method: projected(st, k_, m_))

    # ---- smearing functions x widths ------------------------------------------------------
    # widths from a sixth of the spectrum down to 1/400 of it (gaps then are many widths wide); the grid
    # reaches 0.3 spans beyond the spectrum on both sides
    widths = [("wide", span / 6.0), ("medium", span / rng.uniform(15.0, 40.0)), ("small", span / rng.uniform(150.0, 400.0))]
    sm_grid = dict(freq_min=fmin - 0.3 * span, freq_max=fmax + 0.3 * span, freq_pitch=1.6 * span / 57.0)

    def smearing(st, fname, sigma, mesh_obj, fr, with_projections):
        td = TotalDos(mesh_obj, sigma=sigma)
        td.set_smearing_function("Cauchy" if fname == "cauchy" else "Normal")
        td.set_draw_area(sm_grid["freq_min"], sm_grid["freq_max"], sm_grid["freq_pitch"])
        td.run()
        fp, tot = np.array(td.frequency_points), np.array(td.dos)
        st["npoints"] = int(len(fp))
        ref = def_dos_smear(fname, sigma, fr, mesh_obj.weights, fp)
        scale = max(float(np.max(np.abs(ref))), 1e-300)
        # point-wise relative as well (tails and gaps), with an absolute floor far below any kernel value in use
        floor = 1e-200
        def both(a, b):
            return max(float(np.max(np.abs(a - b))) / scale, float(np.max(np.abs(a - b) / (np.abs(b) + floor))) * 1e-1)
        r = both(tot, ref)
        st["matchesTotal"] = st["matches"] = cls(r, TOL_POINT)
        mg.note("smearing %s total point-wise (scale and per point)" % fname, r, TOL_POINT)
        fin = bool(np.all(np.isfinite(tot)))
        nn = bool(fin and tot.min() >= 0.0)
        st["projected"] = bool(with_projections)
        if with_projections:
            for kind, key in (("atoms", "Atoms"), ("xyz", "Xyz")):
                pdos = ProjectedDos(mesh_obj, sigma=sigma, xyz_projection=(kind == "xyz"))
                pdos.set_smearing_function("Cauchy" if fname == "cauchy" else "Normal")
                pdos.set_draw_area(sm_grid["freq_min"], sm_grid["freq_max"], sm_grid["freq_pitch"])
                pdos.run()
                pfp, pd = np.array(pdos.frequency_points), np.array(pdos.projected_dos)
                if len(pfp) != len(fp) or np.max(np.abs(pfp - fp)) > 0:
                    raise tlcmod.MachineryError("frequency grids of total and projected DOS differ")
                fin &= bool(np.all(np.isfinite(pd)))
                nn &= bool(fin and pd.min() >= 0.0)
                pref = def_dos_smear(fname, sigma, fr, mesh_obj.weights, fp, coefficients(eig, kind))
                rp = max(float(np.max(np.abs(pd - pref))) / scale,
                         float(np.max(np.abs(pd - pref) / (np.abs(pref) + floor))) * 1e-1)
                st["matches" + key] = cls(rp, TOL_POINT)
                mg.note("smearing %s projected point-wise (scale and per point)" % fname, rp, TOL_POINT)
                acc = pd.sum(axis=0)
                a_scale = float(np.max(np.abs(acc - tot))) / scale
                a_point = float(np.max(np.abs(acc - tot) / (np.abs(tot) + floor)))
                st["additive" + key] = cls(a_scale, TOL_ADD)
                st["additive" + key + "Pointwise"] = cls(a_point, TOL_ADD_POINT)
                st["nproj" + key] = int(pd.shape[0])
                mg.note("smearing %s additivity (scale)" % fname, a_scale, TOL_ADD)
                mg.note("smearing %s additivity (per point)" % fname, a_point, TOL_ADD_POINT)
        st["finite"], st["nonneg"] = fin, nn

    for fname in ("normal", "cauchy"):
        for wname, sigma in widths:
            attempt(dict(op="smearing", fn=fname, width=wname, reduced=False),
                    lambda st, f_=fname, s_=float(sigma): smearing(st, f_, s_, mo, freqs, True))

    # ---- frequency grids that are not ascending ----------------------------------------
    from phonopy.phonon.dos import run_tetrahedron_method_dos

    def kernel_dos(mesh_obj, fr, points, coef=None):
        tm_ = TetrahedronMethod(np.linalg.inv(ph.primitive.cell), mesh=mesh_obj.mesh_numbers)
        out = run_tetrahedron_method_dos(mesh_obj.mesh_numbers, np.array(points, dtype="double"), fr,
                                         mesh_obj.grid_address, mesh_obj.grid_mapping_table, tm_.tetrahedra, coef=coef)
        return np.array(out).T if coef is not None else np.array(out)

    def rel(a, b):
        return float(np.max(np.abs(a - b)) / max(float(np.max(np.abs(b))), 1e-12))

    def reordered(st, what, method, order):
        lo, hi = fmin - 0.03 * span, fmax + 0.06 * span
        co = coefficients(eig, "atoms") if what == "projected" else None
        if order == "descending":      # through the API: freq_min > freq_max, negative pitch
            kw = dict(freq_min=hi, freq_max=lo, freq_pitch=-(hi - lo) / 40.0)
            sigma = None if method == "tetrahedron" else sig["normal"]
            if what == "total":
                ph.run_total_dos(sigma=sigma, **kw)
                d = ph.get_total_dos_dict()
                fp, val = np.array(d["frequency_points"]), np.array(d["total_dos"])
            else:
                ph.run_projected_dos(sigma=sigma, **kw)
                d = ph.get_projected_dos_dict()
                fp, val = np.array(d["frequency_points"]), np.array(d["projected_dos"])
            if len(fp) < 30 or not np.all(np.diff(fp) < 0):
                raise tlcmod.MachineryError("descending window did not give a descending grid: %r" % fp[:5])
        else:                           # shuffled with a repeated point: kernel function and TetrahedronMesh
            pts = np.linspace(lo, hi, 37)
            fp = pts[rng.permutation(len(pts))]
            fp = np.concatenate([[pts[-1], pts[3]], fp, [pts[3]]])
            val = kernel_dos(mo, freqs, fp, co)
            thm = TetrahedronMesh(ph.primitive, freqs, mo.mesh_numbers, np.array(mo.grid_address, dtype="int64"),
                                  np.array(mo.grid_mapping_table, dtype="int64"), mo.ir_grid_points)
            thm.set(value="I", frequency_points=fp)
            acc = np.zeros(len(fp)) if co is None else np.zeros((co.shape[1], len(fp)))
            for i, iw in enumerate(thm):
                acc += np.sum(iw * mo.weights[i], axis=1) if co is None else np.dot(iw * mo.weights[i], co[i].T).T
            st["meshRoute"] = cls(rel(acc, val), TOL_POINT)
        st["npoints"] = int(len(fp))
        st["finite"] = bool(np.all(np.isfinite(val)))
        st["nonneg"] = bool(st["finite"] and val.min() >= -1e-12 * max(1.0, float(np.max(np.abs(val)))))
        if method == "tetrahedron":
            res = best_match(val, lambda dd: def_dos_thm(def_gp_weights("I", tup[dd][0], fp), tup[dd][1], tup[dd][2], co))
            asc = np.argsort(fp, kind="stable")
            ref = kernel_dos(mo, freqs, fp[asc], co)          # the real code on the same points, ascending
            same = rel(val[..., asc], ref)
        else:
            res = rel(val, def_dos_smear("normal", sig["normal"], freqs, mo.weights, fp, co))
            same = res   # the smearing reference is evaluated point by point
        st["matches"] = cls(res, TOL_POINT)
        st["sameAsAscending"] = cls(same, TOL_POINT)
        if st.get("meshRoute", "ok") != "ok":
            st["sameAsAscending"] = st["meshRoute"]
        mg.note("reordered grid point-wise", res, TOL_POINT)
        mg.note("reordered grid vs ascending", same, TOL_POINT)

    for what, method, order in (("total", "tetrahedron", "descending"), ("projected", "tetrahedron", "descending"),
                                ("total", "tetrahedron", "shuffled"), ("projected", "tetrahedron", "shuffled"),
                                ("total", "normal", "descending")):
        attempt(dict(op="reordered", kind=what, method=method, order=order),
                lambda st, a=what, b=method, c=order: reordered(st, a, b, c))

    # ---- presentation of the window arguments (int / float / numpy scalars) -------------------
    if with_presentations:
        from phonopy.units import VaspToCm
        with contextlib.redirect_stdout(io.StringIO()):
            pc = Phonopy(orc.unitcell(), supercell_matrix=S, primitive_matrix=pmat, factor=VaspToCm, log_level=0)
        pc.force_constants = orc.supercell_fc(S, pc.supercell)
        pc.run_mesh(mesh_numbers, with_eigenvectors=True, is_mesh_symmetry=False, is_gamma_center=gamma)
        mc_ = pc._mesh
        fr_c, eig_c = np.array(mc_.frequencies), np.array(mc_.eigenvectors)
        tup_c = {d: star_tuples(mc_, fr_c, d) for d in cands}
        lo_i, hi_i = int(np.floor(fr_c.min())) - 4, int(np.ceil(fr_c.max())) + 4
        step_i = max(1, (hi_i - lo_i) // 45)
        hi_i = lo_i + step_i * ((hi_i - lo_i + step_i - 1) // step_i)
        sig_i = float(max(2, (hi_i - lo_i) // 20))
        forms = dict(int=(int, int, int), float=(float, float, float), npint64=(np.int64, np.int64, np.int64),
                     npfloat32=(np.float32, np.float32, np.float32), mixed=(int, float, int))

        def one(what, method, form):
            a, b, c = forms[form]
            kw = dict(freq_min=a(lo_i), freq_max=b(hi_i), freq_pitch=c(step_i))
            sigma = None if method == "tetrahedron" else sig_i
            if what == "total":
                pc.run_total_dos(sigma=sigma, **kw)
                d = pc.get_total_dos_dict()
                return np.array(d["frequency_points"]), np.array(d["total_dos"])
            pc.run_projected_dos(sigma=sigma, **kw)
            d = pc.get_projected_dos_dict()
            return np.array(d["frequency_points"]), np.array(d["projected_dos"])

        def presented(st, what, method, form):
            fp, val = one(what, method, form)
            fp0, val0 = twins[(what, method)]
            fpf = np.asarray(fp, dtype="double")
            st["npoints"] = int(len(fpf))
            st["sameGrid"] = bool(len(fpf) == len(fp0) and len(fpf) > 20 and np.array_equal(fpf, fp0))
            st["finite"] = bool(np.all(np.isfinite(val)))
            st["nonneg"] = bool(st["finite"] and val.min() >= -1e-12 * max(1.0, float(np.max(np.abs(val)))))
            co = coefficients(eig_c, "atoms") if what == "projected" else None
            if method == "tetrahedron":
                res = best_match(val, lambda dd: def_dos_thm(def_gp_weights("I", tup_c[dd][0], fp0), tup_c[dd][1],
                                                             tup_c[dd][2], co))
            else:
                res = rel(val, def_dos_smear("normal", sig_i, fr_c, mc_.weights, fp0, co))
            st["matches"] = cls(res, TOL_POINT)
            same = rel(val, val0) if val.shape == val0.shape else float("inf")
            st["sameAsFloat"] = cls(same, TOL_POINT)
            tot, tot0 = (val if val.ndim == 1 else val.sum(axis=0)), (val0 if val0.ndim == 1 else val0.sum(axis=0))
            integ = abs(trapz(tot, fp0) - trapz(tot0, fp0)) / nb if st["sameGrid"] else float("inf")
            st["sameIntegral"] = cls(integ, TOL_POINT)
            mg.note("presented grid point-wise", res, TOL_POINT)
            mg.note("presented grid vs float twin", same, TOL_POINT)

        twins = {}
        combos = (("total", "tetrahedron"), ("projected", "tetrahedron"), ("total", "normal"), ("projected", "normal"))
        for what, method in combos:
            twins[(what, method)] = one(what, method, "float")
        # (a session whose every simplex is flat has a zero tetrahedron DOS: nothing to tell apart there)
        ses["presentations"] = bool(trapz(twins[("total", "tetrahedron")][1], twins[("total", "tetrahedron")][0]) > 0.5 * nb)
        for form in (("int", "npint64", "npfloat32", "mixed", "float") if ses["presentations"] else ()):
            for what, method in combos:
                attempt(dict(op="presented", present=form, kind=what, method=method),
                        lambda st, a=what, b=method, c=form: presented(st, a, b, c))

    # ---- symmetry-reduced grid ----------------------------------------------------
    attempt(dict(op="mesh", symmetry=True), lambda st: ph.run_mesh(
        mesh_numbers, with_eigenvectors=False, is_mesh_symmetry=True, is_gamma_center=gamma))
    if not ses["steps"][-1]["err"]:
        mo2 = ph._mesh
        fr2 = np.array(mo2.frequencies)
        ses["n_ir"] = int(len(mo2.ir_grid_points))
        tup2 = {d: star_tuples(mo2, fr2, d) for d in cands}
        attempt(dict(op="total", method="tetrahedron", grid="given", reduced=True),
                lambda st: total_thm(st, mesh_obj=mo2, tups=tup2, fr=fr2))
        attempt(dict(op="total", method="normal", reduced=True), lambda st: total_smear(st, "normal", mesh_obj=mo2, fr=fr2))
        attempt(dict(op="total", method="cauchy", reduced=True), lambda st: total_smear(st, "cauchy", mesh_obj=mo2, fr=fr2))
        for fname in ("normal", "cauchy"):
            wname, sigma = widths[2] if fname == "cauchy" else widths[1]
            attempt(dict(op="smearing", fn=fname, width=wname, reduced=True),
                    lambda st, f_=fname, s_=float(sigma): smearing(st, f_, s_, mo2, fr2, False))
    ses["diag_candidates"] = cands
    return ses


MC_API = """---- MODULE MC_DosApi ----
EXTENDS DosApi
MCSessions == {%s}
====
"""
CFG_API = """INIT AInit
NEXT ANext
CONSTANTS
 Sessions <- MCSessions
CHECK_DEADLOCK FALSE
INVARIANT ImplAccepted
INVARIANT ImplNoError
INVARIANT ImplFinite
INVARIANT ImplNonNegative
INVARIANT ImplMatchesDefinition
INVARIANT ImplCumulativeAtTop
INVARIANT ImplCumulativeAtBottom
INVARIANT ImplCumulativeMonotone
INVARIANT ImplDensityIsDerivative
INVARIANT ImplIntegral
INVARIANT ImplOrderIndependent
INVARIANT ImplMainDiagonal
INVARIANT ImplPresentationIndependent
INVARIANT ImplSmearingFunction
INVARIANT ImplSmearingTotal
INVARIANT ImplSmearingProjected
INVARIANT ImplSmearingAdditive
INVARIANT ImplAdditive
INVARIANT ImplProjectionCount
"""


def run(ctx):
    mg = Margins()
    sessions = []
    plan = SESSIONS_QUICK if ctx.quick else SESSIONS_THOROUGH
    from harness.c11_mesh import _Recorder
    for k, item in enumerate(plan):
        entry, S, mesh_numbers = item[:3]
        with _Recorder() as recorder:
            ses = run_session(ctx, entry, S, mesh_numbers, k, mg, pmat=item[3] if len(item) > 3 else None,
                              recorder=recorder, with_presentations=(not ctx.quick) or k % 2 == (ctx.seed % 2))
        sessions.append(ses)
        for st in ses["steps"]:
            ctx.count(("api", ses["name"], st["op"], st.get("method"), st.get("kind"), st.get("grid"), st.get("reduced"),
                       st.get("order"), st.get("fn"), st.get("width"), st.get("present")))
    ctx.traces += len(sessions)
    ctx.extra["E_sessions"] = [dict(name=s["name"], steps=len(s["steps"]), diag_candidates=s.get("diag_candidates"),
                                    n_ir=s.get("n_ir"), mesh_changes_diagonal=s.get("mesh_changes_diagonal"))
                               for s in sessions]
    if sum(1 for s in sessions if s.get("presentations")) < 2:
        raise tlcmod.MachineryError("API sessions: fewer than two with the window arguments in several presentations")
    ctx.extra["E_sessions_with_presentations"] = sum(1 for s in sessions if s.get("presentations"))
    # no vacuity: sessions in which dividing the reciprocal vectors by the mesh numbers changes the shortest diagonal
    if sum(1 for s in sessions if s.get("mesh_changes_diagonal")) < 2:
        raise tlcmod.MachineryError("API sessions: fewer than two in which the mesh changes the shortest main diagonal")
    ctx.extra["E_margins_observed_over_tolerance"] = {k: float("%.3g" % v) for k, v in mg.m.items()}
    # self-check of the machinery: a point-wise comparison that passes with less than three decades
    # of head-room means the tolerance is not sound (residuals above the tolerance are violations and
    # are judged by TLC below)
    thin = {k: v for k, v in mg.m.items() if "quadrature" not in k and 1e-3 < v <= 1.0}
    if thin:
        raise tlcmod.MachineryError("point-wise comparison margin too thin: %r" % thin)
    clean = []
    for s in sessions:
        c = dict(name=s["name"], nbands=s["nbands"], steps=[])
        for st in s["steps"]:
            c["steps"].append({k: v for k, v in st.items() if v is not None})
        clean.append(c)
    mc = MC_API % ",\n".join(to_tla(c) for c in clean)
    res = ctx.tlc("MC_DosApi", cfg_text=CFG_API, extra_files={"MC_DosApi.tla": mc}, requirement=False,
                  extra_args=("-continue",), workers=2, timeout=600)
    seen = set()
    for name, tr in res.violations:
        st = (tr[-1][1] if tr else {}) or {}
        ses = st.get("ses", {}) or {}
        kk = st.get("k", 0)
        step = None
        if isinstance(ses, dict) and isinstance(kk, int) and 1 <= kk <= len(ses.get("steps", [])):
            step = ses["steps"][kk - 1]
        tag = ""
        if isinstance(step, dict):
            tag = ":%s:%s" % (step.get("op"), step.get("method") or step.get("fn") or step.get("kind") or "")
        key = "api:%s%s" % (name, tag)
        if key in seen:
            continue
        seen.add(key)
        ctx.violation(key, "C11 requirement %s fails in an API session on a spring-model crystal" % name,
                      dict(invariant=name, session=ses.get("name") if isinstance(ses, dict) else None, step=step,
                           seed=ctx.seed))
    ctx.sample(dict(step="E", session=clean[0]["name"], first_total=clean[0]["steps"][1]))
