"""C18 workflow level: spec/CLIWorkflow.tla decides which library calls an invocation
stands for and which files it writes; this module

  * model-checks the workflow machine over exhaustive families of (command, inputs
    present, settings),
  * runs the real commands `phonopy` / `phonopy-load` through a workflow in a scratch
    directory (three crystals of the catalogue x three calculators, forces from the exact
    spring-model oracle),
  * executes the machine's `calls` on the library (replay) and compares every file the
    command wrote with the library's result at the file's printed precision,
  * hands status / files / verdicts back to TLC (CLIWorkflowTrace).
"""
from __future__ import annotations

import os
import shutil
import tempfile

import numpy as np

from harness import bootstrap  # noqa: F401
from harness import c18_aux as AUXMOD
from harness import c18_cli as C
from harness import c18_parser as P
from harness import tlc as tlcmod
from harness.oracle import Oracle
from harness.tla_values import parse_dump, to_tla

from phonopy import Phonopy
from phonopy.interface.calculator import get_default_physical_units
from phonopy.structure.atoms import PhonopyAtoms

# doc/interfaces.md: default displacement distances
JENV = {"_JAVA_OPTIONS": "-XX:ParallelGCThreads=2 -XX:CICompilerCount=2"}
DOC_DEFAULT_DISTANCE = {"vasp": 0.01, "wien2k": 0.02, "qe": 0.02, "abinit": 0.02, "siesta": 0.02, "elk": 0.02,
                        "crystal": 0.01, "dftbp": 0.01, "turbomole": 0.02, "cp2k": 0.01, "aims": 0.01, "fleur": 0.02,
                        "castep": 0.01, "abacus": 0.02, "lammps": 0.01, "pwmat": 0.01}  # pwmat: not in the table

CFG_WF = """INIT WInit
NEXT WNext
CONSTANTS
 WCases <- MCWCases
 Installed <- MCInstalled
CHECK_DEADLOCK FALSE
INVARIANT WorkflowPreconditions
INVARIANT OutputsComputed
INVARIANT CommandDefaults
INVARIANT ModePrecedence
INVARIANT NacFactorRule
INVARIANT AuxPreconditions
INVARIANT MeshModifiersForwarded
INVARIANT ConsumerIsSubMode
"""

CFG_WFT = """INIT WTInit
NEXT WTNext
CONSTANTS
 WEvents <- MCWEvents
 WCases = {}
 Installed <- MCInstalled
CHECK_DEADLOCK FALSE
INVARIANT ImplStatus
INVARIANT ImplOutputs
INVARIANT ImplFaithful
INVARIANT ImplCompared
INVARIANT ImplSolver
INVARIANT CellsExercised
INVARIANT WorkflowPreconditions
INVARIANT OutputsComputed
INVARIANT CommandDefaults
INVARIANT ModePrecedence
INVARIANT NacFactorRule
INVARIANT AuxPreconditions
INVARIANT MeshModifiersForwarded
"""

SBASE = dict(dim=False, disp=False, fsets=False, fsz=False, mode="none", nac=False, fcsym=False, fccalc="",
             readfc=False, writefc=False, rfmt_hdf5=False, wfmt_hdf5=False, fullfc=False, spg=False, cutoff=False,
             tprop=False, tdisp=False, tdm=False, pdos=False, dos=False, moment=False, wmesh=True, mesh_hdf5=False,
             band_hdf5=False, qp_hdf5=False, readq=False, qgiven=False, cif=False, save_params=False,
             bulk_only=False, calcs_ok=False, gc=False, shift=False, nomeshsym=False, even=False, frange=False,
             cutfreq=False, ptprop=False)


def mc_families(quick):
    tset = "{t \\in [1..6 -> B] : Cardinality({i \\in 1..6 : t[i]}) <= 2}" if quick else "[1..6 -> B]"
    hset = "{FALSE}" if quick else "B"
    return """---- MODULE MC_CLIWorkflow ----
EXTENDS CLIWorkflow
B == BOOLEAN
Cmds == {"phonopy", "load"}
SBase == %s
WellFormed(i) == /\\ (({"yaml_fs", "yaml_fc", "yaml_nac", "yaml_calc", "yaml_nac_factor"} \\cap i # {}) => "yaml" \\in i)
                 /\\ ("BORN_factor" \\in i => "BORN" \\in i) /\\ ("yaml_nac_factor" \\in i => "yaml_nac" \\in i)
FamA == {[id |-> "A", cmd |-> c, inp |-> i,
          s |-> [SBase EXCEPT !.mode = "mesh", !.dim = d, !.readfc = r, !.rfmt_hdf5 = h, !.fcsym = y, !.fccalc = f]] :
         c \\in Cmds, i \\in {x \\in SUBSET (%s \\cup {"yaml", "yaml_fs", "yaml_fc", "FORCE_SETS", "FORCE_CONSTANTS",
                                          "force_constants.hdf5"}) : WellFormed(x)},
         d \\in %s, r \\in B, h \\in B, y \\in B, f \\in {"", "traditional", "symfc"}}
FamN == {[id |-> "N", cmd |-> c, inp |-> i, s |-> [SBase EXCEPT !.mode = "mesh", !.nac = n, !.disp = d, !.dim = TRUE]] :
         c \\in Cmds, i \\in {x \\in SUBSET (%s \\cup {"yaml", "yaml_nac", "yaml_calc", "yaml_nac_factor", "BORN",
                                          "BORN_factor"}) : WellFormed(x)},
         n \\in B, d \\in B}
FamF == {[id |-> "F", cmd |-> c, inp |-> i, s |-> [SBase EXCEPT !.fsets = f, !.fsz = z, !.save_params = p]] :
         c \\in Cmds, i \\in SUBSET {"disp", "yaml", "forcefiles", "FORCE_SETS"}, f \\in B, z \\in B, p \\in B}
ModeSub(ts) == {p \\in {"none", "mesh", "band", "band_mesh", "qpoints", "anime", "modulation", "irreps"} \\X ts :
                  p[1] \\in {"mesh", "band_mesh"} \\/ (\\A k \\in 1..6 : ~p[2][k])}
FamM == {[id |-> "M", cmd |-> c, inp |-> {"yaml", "FORCE_SETS"} \\cup q,
          s |-> [SBase EXCEPT !.mode = mt[1], !.tprop = mt[2][1], !.tdisp = mt[2][2], !.tdm = mt[2][3],
                              !.pdos = mt[2][4], !.dos = mt[2][5], !.moment = mt[2][6], !.wmesh = w, !.mesh_hdf5 = h,
                              !.band_hdf5 = h, !.qp_hdf5 = h, !.readq = rq, !.qgiven = qg, !.cif = mt[2][3] /\\ w]] :
         c \\in Cmds, q \\in {{}, {"QPOINTS"}}, mt \\in ModeSub(%s), w \\in B, h \\in %s, rq \\in B, qg \\in B}
FamP == {[id |-> "P", cmd |-> c, inp |-> {"yaml", "FORCE_SETS"},
          s |-> [SBase EXCEPT !.mode = "mesh", !.writefc = w, !.wfmt_hdf5 = h, !.spg = g, !.fullfc = u, !.cutoff = k,
                              !.fcsym = y, !.fccalc = f, !.save_params = p]] :
         c \\in Cmds, w \\in B, h \\in B, g \\in B, u \\in B, k \\in B, y \\in B, p \\in B,
         f \\in {"", "traditional", "symfc"}}
AuxFam(c, files, bs, ks, hs) ==
  {[id |-> "X", cmd |-> c, inp |-> i, s |-> [SBase EXCEPT !.bulk_only = b, !.calcs_ok = k, !.band_hdf5 = h]] :
   i \\in SUBSET files, b \\in bs, k \\in ks, h \\in hs}
FamX == AuxFam("qha", {"e-v.dat", "thermal_properties_set"}, B, {FALSE}, {FALSE})
        \\cup AuxFam("convert", {"infile", "outfile"}, {FALSE}, B, {FALSE})
        \\cup AuxFam("bandplot", {"band.yaml", "band.hdf5"}, {FALSE}, {FALSE}, B)
        \\cup AuxFam("propplot", {"thermal_properties.yaml", "band.yaml"}, {FALSE}, {FALSE}, {FALSE})
        \\cup AuxFam("vaspborn", {"OUTCAR", "POSCAR"}, {FALSE}, {FALSE}, {FALSE})
FamG == {[id |-> "G", cmd |-> c, inp |-> {"yaml", "FORCE_SETS"},
          s |-> [SBase EXCEPT !.mode = m, !.tprop = (k \\in {"tprop", "ptprop"}), !.ptprop = (k = "ptprop"), !.tdisp = (k = "tdisp"),
                              !.tdm = (k \\in {"tdm", "tdm_cif"}), !.cif = (k = "tdm_cif"), !.pdos = (k = "pdos"),
                              !.dos = (k = "dos"), !.moment = (k = "moment"), !.gc = g, !.shift = sh, !.nomeshsym = ns,
                              !.even = ev, !.frange = fr, !.cutfreq = cf]] :
         c \\in Cmds, m \\in {"mesh", "band_mesh"},
         k \\in {"mesh", "dos", "pdos", "tprop", "ptprop", "tdisp", "tdm", "tdm_cif", "moment"},
         g \\in B, sh \\in B, ns \\in B, ev \\in B, fr \\in B, cf \\in B}
MCWCases == FamA \\cup FamN \\cup FamF \\cup FamM \\cup FamP \\cup FamX \\cup FamG
MCInstalled == {"traditional"}
====
""" % (to_tla(SBASE), "{}" if quick else '{"cell"}', "{FALSE}" if quick else "B",
       '{"FORCE_SETS"}' if quick else '{"cell", "FORCE_SETS"}', tset, hset)


# ---------------------------------------------------------------------------------------------
# crystal set-ups
# ---------------------------------------------------------------------------------------------
SETUPS = {
    "cscl": dict(entry="cscl", S=[[2, 0, 0], [0, 2, 0], [0, 0, 2]], pa=None,
                 band="0 0 0 1/2 0 0, 1/2 1/2 0 0 0 0 1/2 1/2 1/2", mesh=["4", "4", "4"], fcut="12"),
    "wz": dict(entry="wz", S=[[2, 0, 0], [0, 2, 0], [0, 0, 1]], pa=None,
               band="0 0 0 1/2 0 0, 1/3 1/3 0 0 0 0 0 0 1/2", mesh=["3", "3", "2"], fcut="4"),
    "naclg": dict(entry="naclg", S=[[2, 0, 0], [0, 2, 0], [0, 0, 2]], pa="F",
                  band="0 0 0 1/2 0 1/2, 1/2 1/2 1 0 0 0 1/2 1/2 1/2", mesh=["4", "4", "4"], fcut="4"),
}
PA = {"F": [[0, 0.5, 0.5], [0.5, 0, 0.5], [0.5, 0.5, 0]]}


class Setup:
    def __init__(self, name, calc, seed, ctx):
        self.name, self.calc = name, calc
        cfg = SETUPS[name]
        self.cfg = cfg
        self.S = cfg["S"]
        self.orc = Oracle(cfg["entry"], [self.S], seed=seed + 11, rotate=(name != "naclg"), ctx=ctx)
        uc = self.orc.unitcell()
        self.symbols = list(uc.symbols)
        self.lattice = np.array(uc.cell)
        self.scaled = np.array(uc.scaled_positions)
        self.calcname = None if calc == "vasp" else calc
        self.units = get_default_physical_units(self.calcname)
        self.pmat = PA.get(cfg["pa"]) if cfg["pa"] else None
        self.dir = tempfile.mkdtemp(prefix="c18w_%s_%s_" % (name, calc))
        self.cellfile = C.CALCS[calc]["cell"]
        C.write_cell(calc, os.path.join(self.dir, self.cellfile), self.lattice, self.symbols, self.scaled)
        # NAC parameters: isotropic charges (invariant under every site symmetry), for all primitive atoms
        ph0 = self.make(None)
        z = {"Na": 1.1, "Cl": -1.1}
        self.born = np.array([np.eye(3) * z[s] for s in ph0.primitive.symbols])
        self.eps = np.eye(3) * 2.43
        self._fc = None
        self.cases_run = 0

    @property
    def fscale(self):
        """frequencies scale with the calculator's unit-conversion factor (the numbers of the force
        constants are the same for every calculator)"""
        return self.units["factor"] / get_default_physical_units(None)["factor"]

    @property
    def fcut(self):
        return "%.4f" % (float(self.cfg["fcut"]) * self.fscale)

    def cell(self):
        return PhonopyAtoms(symbols=self.symbols, cell=self.lattice, scaled_positions=self.scaled)

    def make(self, st, unitcell=None, calculator="setup"):
        """The library object an invocation with settings `st` works on (None: defaults);
        `calculator`: the calculator of the object (default: the set-up's)."""
        calc = self.calcname if calculator == "setup" else calculator
        units = get_default_physical_units(calc)
        kw = {}
        if st is not None:
            factor = st.frequency_conversion_factor
            kw = dict(factor=factor if factor is not None else units["factor"],
                      frequency_scale_factor=st.frequency_scale_factor,
                      dynamical_matrix_decimals=st.dm_decimals, force_constants_decimals=st.fc_decimals,
                      group_velocity_delta_q=st.group_velocity_delta_q,
                      symprec=1e-5 if st.symmetry_tolerance is None else st.symmetry_tolerance,
                      is_symmetry=st.is_symmetry, store_dense_svecs=st.store_dense_svecs)
            pm = st.primitive_matrix if st.primitive_matrix is not None else self.pmat
        else:
            kw = dict(factor=units["factor"])
            pm = self.pmat
        ph = Phonopy(self.cell() if unitcell is None else unitcell, self.S, primitive_matrix=pm,
                     calculator=calc, log_level=0, **kw)
        if st is not None and st.masses is not None:
            ph.masses = st.masses
        return ph

    def full_fc(self, ph):
        if self._fc is None:
            self._fc = self.orc.supercell_fc(self.S, ph.supercell)
        return self._fc

    def forces_for(self, ph, displacements):
        """exact harmonic forces of the oracle for displacement arrays (ndisp, natom, 3)"""
        fc = self.full_fc(ph)
        return -np.einsum("ijab,njb->nia", fc, displacements)

    def cleanup(self):
        shutil.rmtree(self.dir, ignore_errors=True)


SWEEP_CALCS = ["abacus", "abinit", "aims", "castep", "cp2k", "crystal", "dftbp", "elk", "fleur", "lammps", "pwmat",
               "qe", "siesta"]  # calculators with a structure input and a force-output emitter in harness/c17_io.py


class SweepSetup(Setup):
    """CsCl 2x2x2 for one of the calculators of harness/c17_io.py: the unit-cell input is written by
    c17_io.unit_input (C17 checks those files), the reference cell is the cell phonopy's reader returns,
    the calculator outputs with the forces are written by c17_io.emit_output."""

    def __init__(self, calc, seed, ctx):
        from harness import c17_io

        self.io = c17_io
        self.name, self.calc = "cscl", calc
        self.cfg = SETUPS["cscl"]
        self.S = self.cfg["S"]
        self.orc = Oracle("cscl", [self.S], seed=seed + 11, rotate=False, ctx=ctx)
        uc = self.orc.unitcell()
        self.calcname = calc
        self.units = get_default_physical_units(calc)
        self.pmat = None
        self.dir = tempfile.mkdtemp(prefix="c18s_%s_" % calc)
        self.cellfile = "unit_%s.in" % calc
        cwd = os.getcwd()
        os.chdir(self.dir)
        try:
            plain = PhonopyAtoms(symbols=list(uc.symbols), cell=uc.cell, scaled_positions=uc.scaled_positions)
            self.cell_read, _ = c17_io.unit_input(calc, plain, self.cellfile)
        finally:
            os.chdir(cwd)
        self.symbols = list(self.cell_read.symbols)
        self.lattice = np.array(self.cell_read.cell)
        self.scaled = np.array(self.cell_read.scaled_positions)
        self._ph0 = Phonopy(plain, self.S, log_level=0)
        self._fc0 = self.orc.supercell_fc(self.S, self._ph0.supercell)
        ph0 = self.make(None)
        if list(ph0.supercell.symbols) != list(self._ph0.supercell.symbols) or \
                np.abs(ph0.supercell.scaled_positions - self._ph0.supercell.scaled_positions).max() > 1e-5:
            raise tlcmod.MachineryError("sweep %s: the reader returns another atom order" % calc)
        z = {"Na": 1.1, "Cl": -1.1}
        self.born = np.array([np.eye(3) * z[s_] for s_ in ph0.primitive.symbols])
        self.eps = np.eye(3) * 2.43
        self.cases_run = 0

    def cell(self):
        return self.cell_read.copy()

    def full_fc(self, ph):
        return self._fc0  # the oracle's harmonic model, numbers taken in the calculator's own units

    def write_forces(self, name, sc, forces):
        return os.path.basename(self.io.emit_output(self.calc, os.path.join(self.dir, name), sc, forces,
                                                    supercell_lattice=sc.cell))


def sweep_cases(su):
    opt = ["--dftb+"] if su.calc == "dftbp" else ["--" + su.calc]
    dim = [str(su.S[i][i]) for i in range(3)]

    def after_disp(su, st):
        ph = su.make(st)
        ph.generate_displacements(distance=DOC_DEFAULT_DISTANCE[su.calc])
        su.disps = [(x["number"], list(x["displacement"])) for x in ph.dataset["first_atoms"]]
        disp_arr = np.zeros((len(su.disps), len(ph.supercell), 3))
        for i, (a, dv) in enumerate(su.disps):
            disp_arr[i, a] = dv
        su.forces = su.forces_for(ph, disp_arr)
        su.force_files = [su.write_forces("calc-%03d.out" % (i + 1), sc, su.forces[i])
                          for i, sc in enumerate(ph.supercells_with_displacements)]

    L = ["--fc-calc", "traditional"]
    return [Case("disp", "phonopy", opt + ["-c", su.cellfile, "--dim"] + dim + ["-d"], after=after_disp),
            Case("force-sets", "phonopy", ["-f", "@FORCEFILES@"], force_files="@"),
            Case("qpoints", "load", L + ["--qpoints", "0.1 0.2 0.3 1/2 0 0"]),
            Case("qpoints-option", "phonopy", opt + ["-c", su.cellfile, "--dim"] + dim + ["--qpoints", "0.1 0.2 0.3"])]


# ---------------------------------------------------------------------------------------------
# abstraction: real settings / directory -> (s, inp) of CLIWorkflow.tla
# ---------------------------------------------------------------------------------------------
def real_settings(cmd, argv):
    """Settings object built by the real parser for this argv (its construction is checked at
    the parser level); also returns the positional file name, if any."""
    args = P._parser(cmd).parse_args([str(a) for a in argv])
    from phonopy.cui.settings import PhonopyConfParser

    kw = dict(default_settings=P.CONTROL[cmd]) if cmd == "load" else {}
    conf = None
    pos = list(args.filename)
    if cmd == "load":
        conf = args.conf_filename
    elif pos and os.path.exists(pos[0]) and not _is_yaml_dict(pos[0]):
        conf = pos[0]  # `phonopy file` : a configuration file unless it is a phonopy-yaml file
        pos = []
    p = PhonopyConfParser(filename=conf, args=args, **kw)
    return p.settings, p.confs, pos


def _is_yaml_dict(path):
    try:
        return isinstance(C.load_yaml(path), dict)
    except Exception:  # noqa: BLE001
        return False


def abstract_settings(st):
    s = dict(SBASE)
    s.update(
        dim=st.supercell_matrix is not None,
        disp=bool(st.create_displacements or st.random_displacements),
        fsets=bool(st.create_force_sets), fsz=bool(st.create_force_sets_zero),
        mode=st.run_mode if st.run_mode in ("mesh", "band", "band_mesh", "qpoints", "anime", "modulation",
                                            "irreps") else "none",
        nac=bool(st.is_nac), fcsym=bool(st.fc_symmetry),
        fccalc=(st.fc_calculator or "").lower(),
        readfc=bool(st.read_force_constants), writefc=bool(st.write_force_constants),
        rfmt_hdf5=bool(st.is_hdf5 or st.readfc_format == "hdf5"),
        wfmt_hdf5=bool(st.is_hdf5 or st.writefc_format == "hdf5"),
        fullfc=bool(st.is_full_fc), spg=bool(st.fc_spg_symmetry), cutoff=bool(st.cutoff_radius),
        tprop=bool(st.is_thermal_properties), tdisp=bool(st.is_thermal_displacements),
        tdm=bool(st.is_thermal_displacement_matrices), pdos=st.pdos_indices is not None,
        dos=bool(st.is_dos_mode), moment=bool(st.is_moment), wmesh=bool(st.write_mesh),
        mesh_hdf5=bool(st.is_hdf5 or st.mesh_format == "hdf5"),
        band_hdf5=bool(st.is_hdf5 or st.band_format == "hdf5"),
        qp_hdf5=bool(st.is_hdf5 or st.qpoints_format == "hdf5"),
        readq=bool(st.read_qpoints), qgiven=bool(st.qpoints),
        cif=st.thermal_displacement_matrix_temperatue is not None, save_params=bool(st.save_params),
        gc=bool(st.is_gamma_center), shift=st.mesh_shift is not None, nomeshsym=not bool(st.is_mesh_symmetry),
        even=isinstance(st.mesh_numbers, (list, tuple)) and any(int(x) % 2 == 0 for x in np.ravel(st.mesh_numbers)),
        frange=(st.min_frequency is not None or st.max_frequency is not None),
        cutfreq=st.cutoff_frequency is not None, ptprop=bool(st.is_projected_thermal_properties))
    return s


YAML_DEFAULTS = ["phonopy_disp.yaml", "phonopy.yaml"]  # doc/phonopy-load.md: search order


def abstract_inputs(setup, cmd, st, pos, force_files):
    """Which abstract inputs the invocation finds."""
    d = setup.dir
    inp = set()
    ex = lambda f: os.path.exists(os.path.join(d, f))  # noqa: E731
    yaml_file = None
    if pos and ex(pos[0]) and _is_yaml_dict(os.path.join(d, pos[0])):
        yaml_file = pos[0]
    elif st.cell_filename and st.cell_filename.endswith(".yaml") and ex(st.cell_filename):
        yaml_file = st.cell_filename
    else:
        for f in YAML_DEFAULTS:
            if ex(f):
                yaml_file = f
                break
    if cmd == "phonopy" and st.cell_filename and not st.cell_filename.endswith(".yaml") and ex(st.cell_filename):
        inp.add("cell")
    if yaml_file:
        inp.add("yaml")
        y = C.load_yaml(os.path.join(d, yaml_file))
        if "force_constants" in y:
            inp.add("yaml_fc")
        if "nac" in y and "born_effective_charge" in y["nac"]:
            inp.add("yaml_nac")
            if "unit_conversion_factor" in y["nac"]:
                inp.add("yaml_nac_factor")
        if y.get("phonopy", {}).get("calculator"):
            inp.add("yaml_calc")
        disp = y.get("displacements")
        if disp and ("forces" in disp[0]):
            inp.add("yaml_fs")
    if ex("phonopy_disp.yaml"):
        inp.add("disp")
    for f in ("FORCE_SETS", "FORCE_CONSTANTS", "force_constants.hdf5", "BORN", "QPOINTS"):
        if ex(f):
            inp.add(f)
    if ex("BORN"):
        with open(os.path.join(d, "BORN")) as fh:
            first = fh.readline().split()
        try:
            float(first[0])
            inp.add("BORN_factor")
        except (ValueError, IndexError):
            pass
    if force_files and all(ex(f) for f in force_files):
        inp.add("forcefiles")
    return inp, yaml_file


SUPERCELL_FILES = ("SPOSCAR", "POSCAR-", "supercell")
MODULATED_FILES = ("MPOSCAR", "Munitcell", "Msupercell")
ANIME_FILES = ("anime.", "APOSCAR-")


def abstract_outputs(written, loose=False):
    """loose: the structure files of the other calculators have their own names - in a `-d` run
    every file but phonopy_disp.yaml is a supercell file"""
    out = set()
    for f in written:
        if loose and "phonopy_disp.yaml" in written and f != "phonopy_disp.yaml":
            out.add("SUPERCELLS")
        elif f.startswith(SUPERCELL_FILES):
            out.add("SUPERCELLS")
        elif f.startswith(MODULATED_FILES):
            out.add("MODULATED")
        elif f.startswith(ANIME_FILES):
            out.add("ANIME")
        else:
            out.add(f)
    return out


# ---------------------------------------------------------------------------------------------
# replay of the machine's `calls` on the library
# ---------------------------------------------------------------------------------------------
class Replay:
    """Executes the abstract calls of one case on a fresh Phonopy object."""

    def __init__(self, setup, cmd, st, confs, indir, yaml_file, cellsrc):
        self.su, self.cmd, self.st, self.confs = setup, cmd, st, confs
        self.indir, self.yaml_file = indir, yaml_file
        cell = None
        opt_calc = None if st.calculator in (None, "vasp") else st.calculator
        self.calc_option, self.calc_yaml = opt_calc, None
        calc = opt_calc
        self.cellsrc = cellsrc
        if cellsrc == "yaml":
            # the unit cell and the calculator as the phonopy-yaml input holds them
            yy = C.load_yaml(os.path.join(indir, yaml_file))
            self.calc_yaml = yy["phonopy"].get("calculator")
            if self.calc_yaml is not None:
                calc = self.calc_yaml
            y = yy["unit_cell"]
            cell = PhonopyAtoms(symbols=[p["symbol"] for p in y["points"]], cell=y["lattice"],
                                scaled_positions=[p["coordinates"] for p in y["points"]],
                                masses=[p["mass"] for p in y["points"]])
        self.ph = setup.make(st, unitcell=cell, calculator=calc)
        self.res = {}

    def run(self, calls):
        for c in calls:
            getattr(self, "c_" + c["name"])(c["arg"])
        return self.res

    # -- inputs
    def c_set_nac(self, arg):
        src, fac = arg.split(":", 1)
        if src == "yaml":  # as the phonopy-yaml input holds them
            y = C.load_yaml(os.path.join(self.indir, self.yaml_file))["nac"]
            nac = dict(born=np.array(y["born_effective_charge"], dtype=float),
                       dielectric=np.array(y["dielectric_constant"], dtype=float))
            if "method" in y:
                nac["method"] = y["method"].lower()
        else:
            nac = dict(born=self.su.born.copy(), dielectric=self.su.eps.copy())
        # the unit-conversion factor in force, by the specification's rule
        if fac == "yaml":
            nac["factor"] = float(C.load_yaml(os.path.join(self.indir, self.yaml_file))["nac"]["unit_conversion_factor"])
        elif fac == "BORN":
            with open(os.path.join(self.indir, "BORN")) as fh:
                nac["factor"] = float(fh.readline().split()[0])
        else:
            calc = self.calc_yaml if fac == "default:yaml" else self.calc_option
            nac["factor"] = get_default_physical_units(calc)["nac_factor"]
        self.res["nac_factor"] = nac["factor"]
        if src == "BORN" and self.cellsrc == "yaml":
            # the library on the same files: phonopy.load(yaml, born_filename=BORN)
            import phonopy

            lib = phonopy.load(os.path.join(self.indir, self.yaml_file), born_filename=os.path.join(self.indir, "BORN"),
                               produce_fc=False, log_level=0)
            self.res["nac_factor_lib"] = lib.nac_params["factor"]
        if self.st.nac_method is not None:
            nac["method"] = self.st.nac_method
        self.ph.nac_params = nac

    def c_generate_displacements(self, arg):
        st = self.st
        dist = st.displacement_distance
        if dist is None:
            dist = DOC_DEFAULT_DISTANCE[self.su.calc]
        self.ph.generate_displacements(distance=dist, is_plusminus=st.is_plusminus_displacement,
                                       is_diagonal=st.is_diagonal_displacement,
                                       is_trigonal=st.is_trigonal_displacement,
                                       number_of_snapshots=st.random_displacements, random_seed=st.random_seed,
                                       max_distance=st.displacement_distance_max)
        self.res["dataset"] = self.ph.dataset
        self.res["supercells"] = self.ph.supercells_with_displacements

    def c_create_force_sets(self, arg):
        self.res["force_sets"] = self.su.forces  # the forces that were handed to the calculator files

    def c_set_dataset(self, arg):
        """the displacement-force data as the input file holds them (own parsers)"""
        ds = {"natom": len(self.ph.supercell), "first_atoms": []}
        if arg == "FORCE_SETS":
            natom, sets = C.parse_force_sets(os.path.join(self.indir, "FORCE_SETS"))
            for atom, disp, f in sets:
                ds["first_atoms"].append({"number": atom, "displacement": np.array(disp), "forces": np.array(f)})
        else:
            y = C.load_yaml(os.path.join(self.indir, self.yaml_file))
            for x in y["displacements"]:
                ds["first_atoms"].append({"number": x["atom"] - 1, "displacement": np.array(x["displacement"]),
                                          "forces": np.array(x["forces"])})
        self.ph.dataset = ds

    def c_produce_fc(self, arg):
        solver, shape = arg.split(":")
        opts = self.st.fc_calculator_options
        self.ph.produce_force_constants(calculate_full_force_constants=(shape == "full"),
                                        fc_calculator=None if solver == "traditional" else solver,
                                        fc_calculator_options=opts)

    def c_set_fc(self, arg):
        src, shape = arg.split(":")
        if src == "FORCE_CONSTANTS":
            fc, _ = C.parse_force_constants(os.path.join(self.indir, src))
        elif src == "force_constants.hdf5":
            fc = np.array(C.read_hdf5(os.path.join(self.indir, src))["force_constants"])
        else:
            y = C.load_yaml(os.path.join(self.indir, self.yaml_file))["force_constants"]
            fc = np.array(y["elements"], dtype=float).reshape(tuple(y["shape"]) + (3, 3))
        p2s = self.ph.primitive.p2s_map
        n = len(self.ph.supercell)
        if shape == "compact" and fc.shape[0] == n and len(p2s) != n:
            fc = fc[p2s].copy()
        elif shape == "full" and fc.shape[0] != n:
            from phonopy.harmonic.force_constants import compact_fc_to_full_fc

            fc = compact_fc_to_full_fc(self.ph.primitive, fc)
        self.ph.force_constants = fc

    def c_cutoff_radius(self, arg):
        self.ph.set_force_constants_zero_with_radius(self.st.cutoff_radius)

    def c_symmetrize_spg(self, arg):
        self.ph.symmetrize_force_constants_by_space_group()
        self.res["fc_spg"] = np.array(self.ph.force_constants)

    def c_symmetrize_fc(self, arg):
        self.ph.symmetrize_force_constants()

    # -- phonons
    def c_run_qpoints(self, arg):
        st = self.st
        if arg == "QPOINTS":
            with open(os.path.join(self.indir, "QPOINTS")) as fh:
                rows = [l.split() for l in fh if l.strip()]
            q = [[float(x) for x in r[:3]] for r in rows[1:1 + int(rows[0][0])]]
        else:
            q = st.qpoints
        self.ph.run_qpoints(q, with_eigenvectors=st.is_eigenvectors, with_group_velocities=st.is_group_velocity,
                            with_dynamical_matrices=st.write_dynamical_matrices,
                            nac_q_direction=st.nac_q_direction)
        self.res["qpoints"] = self.ph.get_qpoints_dict()

    def c_run_band(self, arg):
        from phonopy.phonon.band_structure import get_band_qpoints

        st = self.st
        npoints = 51 if st.band_points is None else st.band_points
        if st.is_band_const_interval:
            bands = get_band_qpoints(st.band_paths, npoints=npoints,
                                     rec_lattice=np.linalg.inv(self.ph.primitive.cell))
        else:
            bands = get_band_qpoints(st.band_paths, npoints=npoints)
        conn = []
        for paths in st.band_paths:
            conn += [True] * (len(paths) - 2) + [False]
        self.ph.run_band_structure(bands, with_eigenvectors=st.is_eigenvectors,
                                   with_group_velocities=st.is_group_velocity,
                                   is_band_connection=st.is_band_connection, path_connections=conn,
                                   labels=st.band_labels)
        self.res["band"] = self.ph.get_band_structure_dict()

    def c_run_mesh(self, arg):
        st = self.st
        mesh = 50.0 if st.mesh_numbers is None else st.mesh_numbers
        kw = dict(shift=st.mesh_shift, is_time_reversal=st.is_time_reversal_symmetry,
                  is_mesh_symmetry=st.is_mesh_symmetry, with_eigenvectors=st.is_eigenvectors,
                  is_gamma_center=st.is_gamma_center)
        if arg.startswith("iter"):
            self.ph.init_mesh(mesh, use_iter_mesh=True, **kw)
        else:
            self.ph.run_mesh(mesh, with_group_velocities=st.is_group_velocity, **kw)
            self.res["mesh"] = self.ph.get_mesh_dict()
            self.res["mesh_numbers"] = np.array(self.ph.mesh_numbers)

    def c_run_tprop(self, arg):
        st = self.st
        self.ph.run_thermal_properties(t_min=st.min_temperature, t_max=st.max_temperature,
                                       t_step=st.temperature_step, cutoff_frequency=st.cutoff_frequency,
                                       pretend_real=st.pretend_real, band_indices=st.band_indices,
                                       is_projection=st.is_projected_thermal_properties, classical=st.classical)
        self.res["tprop"] = self.ph.get_thermal_properties_dict()

    def c_run_tdisp(self, arg):
        st = self.st
        self.ph.run_thermal_displacements(t_min=st.min_temperature, t_max=st.max_temperature,
                                          t_step=st.temperature_step, direction=st.projection_direction,
                                          freq_min=st.min_frequency, freq_max=st.max_frequency)
        self.res["tdisp"] = self.ph.get_thermal_displacements_dict()

    def c_run_tdm(self, arg):
        st = self.st
        t_cif = st.thermal_displacement_matrix_temperatue
        self.ph.run_thermal_displacement_matrices(t_min=st.min_temperature, t_max=st.max_temperature,
                                                  t_step=st.temperature_step,
                                                  temperatures=None if t_cif is None else [t_cif],
                                                  freq_min=st.min_frequency, freq_max=st.max_frequency)
        self.res["tdm"] = self.ph.get_thermal_displacement_matrices_dict()
        if t_cif is not None:  # the library's own cif writer, in a scratch directory
            d = tempfile.mkdtemp(prefix="c18cif_")
            cwd = os.getcwd()
            os.chdir(d)
            try:
                self.ph.write_thermal_displacement_matrix_to_cif(0)
                with open("tdispmat.cif") as fh:
                    self.res["cif_text"] = fh.read()
            finally:
                os.chdir(cwd)
                shutil.rmtree(d, ignore_errors=True)

    def c_run_pdos(self, arg):
        st = self.st
        self.ph.run_projected_dos(sigma=st.sigma, freq_min=st.min_frequency, freq_max=st.max_frequency,
                                  freq_pitch=st.frequency_pitch, use_tetrahedron_method=st.is_tetrahedron_method,
                                  direction=st.projection_direction, xyz_projection=st.xyz_projection)
        self.res["pdos"] = self.ph.get_projected_dos_dict()

    def c_run_dos(self, arg):
        st = self.st
        self.ph.run_total_dos(sigma=st.sigma, freq_min=st.min_frequency, freq_max=st.max_frequency,
                              freq_pitch=st.frequency_pitch, use_tetrahedron_method=st.is_tetrahedron_method)
        if st.fits_Debye_model:
            self.ph.set_Debye_frequency()
        self.res["dos"] = self.ph.get_total_dos_dict()

    def c_run_moment(self, arg):
        """printed only: total and atom-projected moments of the orders the settings select"""
        st = self.st
        rows = []
        for order in ([st.moment_order] if st.moment_order is not None else range(3)):
            self.ph.run_moment(order=order, freq_min=st.min_frequency, freq_max=st.max_frequency, is_projection=False)
            total = self.ph.get_moment()
            self.ph.run_moment(order=order, freq_min=st.min_frequency, freq_max=st.max_frequency, is_projection=True)
            rows.append([order, total] + list(self.ph.get_moment()))
        self.res["moment"] = rows

    def c_run_modulation(self, arg):
        m = self.st.modulation
        self.ph.run_modulations(m["dimension"], m["modulations"], delta_q=m.get("delta_q"),
                                derivative_order=m["order"], nac_q_direction=self.st.nac_q_direction)
        u, sc = self.ph.get_modulations_and_supercell()
        self.res["modulation"] = dict(u=np.array(u), supercell=sc, cells=self.ph.get_modulated_supercells())

    def c_run_irreps(self, arg):
        st = self.st
        self.ph.set_irreps(st.irreps_q_point, is_little_cogroup=st.is_little_cogroup,
                           nac_q_direction=st.nac_q_direction, degeneracy_tolerance=st.irreps_tolerance)
        self.res["irreps"] = self.ph.irreps

    def c_run_anime(self, arg):
        """the library writes the animation file itself: written into a scratch directory"""
        st = self.st
        d = tempfile.mkdtemp(prefix="c18anime_")
        cwd = os.getcwd()
        os.chdir(d)
        try:
            if st.anime_type == "v_sim":
                self.ph.write_animation(q_point=st.anime_qpoint, anime_type="v_sim", amplitude=st.anime_amplitude)
            else:
                self.ph.write_animation(anime_type=st.anime_type, band_index=st.anime_band_index,
                                        amplitude=st.anime_amplitude, num_div=st.anime_division, shift=st.anime_shift)
        finally:
            os.chdir(cwd)
        self.res["anime_dir"] = d

    def c_summary(self, arg):
        self.res["summary"] = True


# ---------------------------------------------------------------------------------------------
# comparison of files with library results
# ---------------------------------------------------------------------------------------------
class Cmp:
    def __init__(self):
        self.bad = []
        self.checked = set()
        self.maxerr = {}

    def close(self, label, a, b, tol):
        """|a - b| <= tol (absolute, the printed precision) + 1e-13 |b|"""
        a, b = np.asarray(a, dtype=float), np.asarray(b, dtype=float)
        if a.shape != b.shape:
            self.bad.append("%s: shape %s vs %s" % (label, a.shape, b.shape))
            return False
        if a.size == 0:
            return True
        lim = np.asarray(tol, dtype=float) + 1e-13 * np.abs(b)
        diff = np.abs(a - b)
        if not np.all(np.isfinite(diff)):
            self.bad.append("%s: non-finite values" % label)
            return False
        err = float(np.max(diff))
        k = label.split(":", 1)[-1]
        self.maxerr[k] = max(self.maxerr.get(k, 0.0), float(np.max(diff / np.maximum(lim, 1e-300))))
        if np.any(diff > lim):
            self.bad.append("%s: max deviation %.3e > %.1e" % (label, err, float(np.min(lim))))
            return False
        return True

    def freq(self, label, a, b, dec):
        """Frequencies at the printed precision, plus the conditioning of nu = sqrt(lambda): a relative
        perturbation eps = 1e-12 of the dynamical matrix (three orders above what re-reading BORN /
        FORCE_SETS produces, far below any change of an input) moves nu by eps nu_max^2 / (2 |nu|) -
        relevant only for the (numerically zero) acoustic modes at Gamma."""
        if dec is None:
            self.bad.append("%s: values not found in the file" % label)
            return False
        b = np.asarray(b, dtype=float)
        cond = 1e-12 * float(np.max(np.abs(b))) ** 2 / (2 * np.maximum(np.abs(b), 1e-5))
        return self.close(label, a, b, 0.6 * 10.0 ** (-dec) + cond)

    def printed(self, label, a, b, dec):
        """equality at the printed precision: `dec` decimals"""
        if dec is None:
            self.bad.append("%s: values not found in the file" % label)
            return False
        return self.close(label, a, b, 0.6 * 10.0 ** (-dec))

    def equal(self, label, a, b):
        if a != b:
            self.bad.append("%s: %r vs %r" % (label, a, b))
            return False
        return True


def _bands(phonon, key="frequency"):
    return [[b[key] for b in p["band"]] for p in phonon]


def _cplx(v):
    v = np.asarray(v, dtype=float)
    return v[..., 0] + 1j * v[..., 1]


def _text(path):
    with open(path) as f:
        return f.read()


def _evecs(phonon):
    return np.array([[_cplx(b["eigenvector"]).ravel() for b in p["band"]] for p in phonon])


def cmp_eigenvectors(cmp, label, ev_file, freqs, ev_ref, dec):
    """Eigenvectors at the printed precision.  Within a degenerate set the basis is arbitrary:
    there the projectors onto the degenerate subspace are compared."""
    ev_ref = np.transpose(ev_ref, (0, 2, 1))  # [q, band, component]
    tol = 0.6 * 10.0 ** (-dec)
    if np.all(np.abs(ev_file - ev_ref) <= tol):
        cmp.maxerr[label.split(":", 1)[-1]] = float(np.max(np.abs(ev_file - ev_ref)) / tol)
        return True
    worst = 0.0
    for iq in range(ev_file.shape[0]):
        f = np.asarray(freqs[iq])
        nb = len(f)
        i = 0
        while i < nb:
            j = i + 1
            while j < nb and abs(f[j] - f[i]) < 1e-5:
                j += 1
            a, b = ev_file[iq, i:j], ev_ref[iq, i:j]
            pa = a.T @ a.conj()
            pb = b.T @ b.conj()
            worst = max(worst, float(np.max(np.abs(pa - pb))))
            i = j
    lim = 4 * ev_file.shape[2] * tol
    cmp.maxerr[label.split(":", 1)[-1] + " (projectors)"] = worst / lim
    if worst > lim:
        cmp.bad.append("%s: eigenspace projectors differ by %.3e > %.1e" % (label, worst, lim))
        return False
    return True


def compare_outputs(setup, rp, res, written, cmp, outdir):
    d = outdir
    st = rp.st
    path = lambda f: os.path.join(d, f)  # noqa: E731
    P = cmp.printed
    if "nac_factor_lib" in res:
        cmp.close("nac:factor of phonopy.load on the same files", res["nac_factor"], res["nac_factor_lib"], 1e-12)
    for f in written:
        if f == "phonopy_disp.yaml" and "dataset" in res:
            y = C.load_yaml(path(f))
            t = _text(path(f))
            cmp.checked.add(f)
            ds = res["dataset"]
            cmp.close(f + ":supercell_matrix", y["supercell_matrix"], setup.S, 0)
            P(f + ":supercell lattice", y["supercell"]["lattice"], rp.ph.supercell.cell, C.decimals(t, "lattice"))
            P(f + ":supercell points", [p["coordinates"] for p in y["supercell"]["points"]],
              rp.ph.supercell.scaled_positions, C.decimals(t, "coordinates"))
            cmp.equal(f + ":calculator", y["phonopy"].get("calculator"), setup.calcname)
            if "first_atoms" in ds:
                cmp.equal(f + ":displaced atoms", [x["atom"] for x in y["displacements"]],
                          [x["number"] + 1 for x in ds["first_atoms"]])
                P(f + ":displacements", [x["displacement"] for x in y["displacements"]],
                  [x["displacement"] for x in ds["first_atoms"]], C.decimals(t, "displacement"))
            else:  # one displacement of every atom per supercell
                P(f + ":displacements", y["dataset"]["displacements"], ds["displacements"], 16)
            cmp.equal(f + ":configuration", {k: str(v) for k, v in y["phonopy"].get("configuration", {}).items()},
                      {k: str(v) for k, v in rp.confs.items()})
            if isinstance(setup, SweepSetup):  # own file names, some calculators write two files per cell
                nsc = len([w for w in written if w != f])
                cmp.equal(f + ":supercell files written", nsc >= len(res["supercells"]) + 1, True)
            else:
                nsc = len([w for w in written if w.startswith(SUPERCELL_FILES)])
                cmp.equal(f + ":number of supercell files", nsc, len(res["supercells"]) + 1)
            if setup.calc == "vasp":
                for i, sc in enumerate(res["supercells"]):
                    lines = _text(path("POSCAR-%03d" % (i + 1))).split("\n")
                    pos = np.array([[float(x) for x in l.split()[:3]] for l in lines[8:8 + len(sc)]])
                    diff = pos - sc.scaled_positions
                    diff -= np.rint(diff)
                    cmp.close(f + ":POSCAR-%03d positions" % (i + 1), diff, np.zeros_like(diff), 0.6e-15)
        elif f == "FORCE_SETS" and "force_sets" in res:
            cmp.checked.add(f)
            natom, sets = C.parse_force_sets(path(f))
            cmp.equal(f + ":natom", natom, len(rp.ph.supercell))
            cmp.equal(f + ":displaced atoms", [a for a, _, _ in sets], [a for a, _ in setup.disps])
            cmp.close(f + ":displacements", [dv for _, dv, _ in sets], [dv for _, dv in setup.disps], 0.6e-16)
            # printed with 10 decimals; the sweep's emitters print some formats with 10 decimals themselves
            cmp.close(f + ":forces", [fv for _, _, fv in sets], res["force_sets"],
                      1.2e-10 if isinstance(setup, SweepSetup) else 0.6e-10)
        elif f == "phonopy_params.yaml" and "force_sets" in res:
            cmp.checked.add(f)
            y = C.load_yaml(path(f))
            P(f + ":forces", [x["forces"] for x in y["displacements"]], res["force_sets"],
              C.decimals(_text(path(f)), "forces"))
        elif f in ("FORCE_CONSTANTS", "FORCE_CONSTANTS_SPG"):
            cmp.checked.add(f)
            fc, rows = C.parse_force_constants(path(f))
            ref = res["fc_spg"] if f.endswith("SPG") else rp.ph.force_constants
            cmp.close(f, fc, ref, 0.6e-15)
            if fc.shape[0] != fc.shape[1]:
                cmp.equal(f + ":p2s", rows, [int(x) for x in rp.ph.primitive.p2s_map])
        elif f == "force_constants.hdf5":
            cmp.checked.add(f)
            h = C.read_hdf5(path(f))
            cmp.close(f + ":force_constants", h["force_constants"], rp.ph.force_constants, 1e-14)
            cmp.equal(f + ":p2s", [int(x) for x in h["p2s_map"]], [int(x) for x in rp.ph.primitive.p2s_map])
        elif f == "mesh.yaml" and "mesh" in res:
            cmp.checked.add(f)
            y = C.load_yaml(path(f))
            t = _text(path(f))
            m = res["mesh"]
            cmp.close(f + ":mesh", y["mesh"], res["mesh_numbers"], 0)
            P(f + ":qpoints", [p["q-position"] for p in y["phonon"]], m["qpoints"], C.decimals(t, "q-position"))
            cmp.close(f + ":weights", [p["weight"] for p in y["phonon"]], m["weights"], 0)
            cmp.freq(f + ":frequencies", _bands(y["phonon"]), m["frequencies"], C.decimals(t, "frequency"))
            if st.is_eigenvectors:
                cmp_eigenvectors(cmp, f + ":eigenvectors", _evecs(y["phonon"]), m["frequencies"], m["eigenvectors"],
                                 C.decimals(t, "eigenvector"))
            if st.is_group_velocity:
                P(f + ":group_velocities", _bands(y["phonon"], "group_velocity"), m["group_velocities"],
                  C.decimals(t, "group_velocity"))
        elif f == "mesh.hdf5" and "mesh" in res:
            cmp.checked.add(f)
            h = C.read_hdf5(path(f))
            m = res["mesh"]
            cmp.freq(f + ":frequencies", h["frequency"], m["frequencies"], 12)
            cmp.close(f + ":qpoints", h["qpoint"], m["qpoints"], 1e-14)
            cmp.close(f + ":weights", h["weight"], m["weights"], 0)
        elif f == "band.yaml" and "band" in res:
            cmp.checked.add(f)
            y = C.load_yaml(path(f))
            t = _text(path(f))
            b = res["band"]
            cmp.freq(f + ":frequencies", _bands(y["phonon"]), np.concatenate(b["frequencies"]),
                     C.decimals(t, "frequency"))
            P(f + ":qpoints", [p["q-position"] for p in y["phonon"]], np.concatenate(b["qpoints"]),
              C.decimals(t, "q-position"))
            P(f + ":distances", [p["distance"] for p in y["phonon"]], np.concatenate(b["distances"]),
              C.decimals(t, "distance"))
            cmp.equal(f + ":segments", y["segment_nqpoint"], [len(x) for x in b["qpoints"]])
            if st.band_labels:
                flat = []
                for pair in y["labels"]:
                    for l in pair:
                        if not flat or flat[-1] != l:
                            flat.append(l)
                cmp.equal(f + ":labels", flat, list(st.band_labels))
            if st.is_eigenvectors:
                cmp_eigenvectors(cmp, f + ":eigenvectors", _evecs(y["phonon"]), np.concatenate(b["frequencies"]),
                                 np.concatenate(b["eigenvectors"]), C.decimals(t, "eigenvector"))
            if st.is_group_velocity:
                P(f + ":group_velocities", _bands(y["phonon"], "group_velocity"),
                  np.concatenate(b["group_velocities"]), C.decimals(t, "group_velocity"))
        elif f == "band.hdf5" and "band" in res:
            cmp.checked.add(f)
            h = C.read_hdf5(path(f))
            cmp.freq(f + ":frequencies", h["frequency"], np.array(res["band"]["frequencies"]), 12)
        elif f == "qpoints.yaml" and "qpoints" in res:
            cmp.checked.add(f)
            y = C.load_yaml(path(f))
            t = _text(path(f))
            q = res["qpoints"]
            cmp.freq(f + ":frequencies", _bands(y["phonon"]), q["frequencies"], C.decimals(t, "frequency"))
            if st.write_dynamical_matrices:
                dm = np.array([np.array(p["dynamical_matrix"]) for p in y["phonon"]])
                dmc = dm[:, :, 0::2] + 1j * dm[:, :, 1::2]
                ref = np.array(q["dynamical_matrices"])
                dec = C.decimals(t, "dynamical_matrix")
                P(f + ":dynamical_matrix re", dmc.real, ref.real, dec)
                P(f + ":dynamical_matrix im", dmc.imag, ref.imag, dec)
            if st.is_eigenvectors:
                cmp_eigenvectors(cmp, f + ":eigenvectors", _evecs(y["phonon"]), q["frequencies"], q["eigenvectors"],
                                 C.decimals(t, "eigenvector"))
            if st.is_group_velocity:
                P(f + ":group_velocities", _bands(y["phonon"], "group_velocity"), q["group_velocities"],
                  C.decimals(t, "group_velocity"))
        elif f == "qpoints.hdf5" and "qpoints" in res:
            cmp.checked.add(f)
            h = C.read_hdf5(path(f))
            cmp.freq(f + ":frequencies", h["frequency"], res["qpoints"]["frequencies"], 12)
        elif f == "thermal_properties.yaml" and "tprop" in res:
            cmp.checked.add(f)
            y = C.load_yaml(path(f))
            t = _text(path(f))
            tpr = res["tprop"]
            tp = y["thermal_properties"]
            P(f + ":temperatures", [x["temperature"] for x in tp], tpr["temperatures"], C.decimals(t, "temperature"))
            for key in ("free_energy", "entropy", "heat_capacity"):
                P(f + ":" + key, [x[key] for x in tp], tpr[key], C.decimals(t, key))
            cmp.equal(f + ":projected section", "projected_thermal_properties" in y, bool(st.is_projected_thermal_properties))
            if st.is_projected_thermal_properties and "projected_thermal_properties" in y:
                _, pfe, pent, pcv = rp.ph.thermal_properties._projected_thermal_properties
                ptp = y["projected_thermal_properties"]
                P(f + ":projected free_energy", [x["free_energy"] for x in ptp], pfe, 7)
                P(f + ":projected entropy", [x["entropy"] for x in ptp], pent, 7)
                P(f + ":projected heat_capacity", [x["heat_capacity"] for x in ptp], np.nan_to_num(pcv), 7)
        elif f == "thermal_displacements.yaml" and "tdisp" in res:
            cmp.checked.add(f)
            y = C.load_yaml(path(f))
            t = _text(path(f))
            tdr = res["tdisp"]
            td = y["thermal_displacements"]
            P(f + ":temperatures", [x["temperature"] for x in td], tdr["temperatures"], C.decimals(t, "temperature"))
            P(f + ":displacements", [np.ravel(x["displacements"]) for x in td], tdr["thermal_displacements"],
              C.decimals(t, "displacements"))
        elif f == "thermal_displacement_matrices.yaml" and "tdm" in res:
            cmp.checked.add(f)
            y = C.load_yaml(path(f))
            t = _text(path(f))
            tdr = res["tdm"]
            td = y["thermal_displacement_matrices"]
            P(f + ":temperatures", [x["temperature"] for x in td], tdr["temperatures"], C.decimals(t, "temperature"))
            mats = np.array(tdr["thermal_displacement_matrices"])
            six = np.stack([mats[..., 0, 0], mats[..., 1, 1], mats[..., 2, 2], mats[..., 1, 2], mats[..., 0, 2],
                            mats[..., 0, 1]], axis=-1).real
            P(f + ":matrices", [x["displacement_matrices"] for x in td], six, C.decimals(t, "displacement_matrices"))
        elif f == "tdispmat.cif":
            cmp.checked.add(f)
            if "cif_text" in res:
                compare_text(cmp, f, _text(path(f)), res["cif_text"])
            else:
                cmp.bad.append("tdispmat.cif: written without a cif temperature in the specification's calls")
        elif f == "total_dos.dat" and "dos" in res:
            cmp.checked.add(f)
            a = C.parse_dat(path(f))
            dec = C.dat_decimals(path(f))
            P(f + ":frequency", a[:, 0], res["dos"]["frequency_points"], dec)
            P(f + ":dos", a[:, 1], res["dos"]["total_dos"], dec)
        elif f == "projected_dos.dat" and "pdos" in res:
            cmp.checked.add(f)
            a = C.parse_dat(path(f))
            dec = C.dat_decimals(path(f))
            P(f + ":frequency", a[:, 0], res["pdos"]["frequency_points"], dec)
            P(f + ":pdos", a[:, 1:].T, res["pdos"]["projected_dos"], dec)
        elif f == "modulation.yaml" and "modulation" in res:
            cmp.checked.add(f)
            y = C.load_yaml(path(f))
            t = _text(path(f))
            m = res["modulation"]
            cmp.close(f + ":dimension", y["supercell"]["dimension"], np.array(rp.st.modulation["dimension"]).reshape(-1, 3)
                      if len(rp.st.modulation["dimension"]) == 9 else np.diag(rp.st.modulation["dimension"]), 0)
            cmp.equal(f + ":number of modulations", len(y["modulations"]), len(m["u"]))
            dec = C.decimals(t, "displacements")
            for i, (ym, u) in enumerate(zip(y["modulations"], m["u"])):
                dd = np.array(ym["displacements"], dtype=float)
                P(f + ":displacements re", dd[:, 0], u.real.ravel(), dec)
                P(f + ":displacements im", dd[:, 1], u.imag.ravel(), dec)
                cmp.equal(f + ":band", ym["band"], rp.st.modulation["modulations"][i][1] + 1)
            if setup.calc == "vasp":
                for i, cell in enumerate(m["cells"]):
                    lines = _text(path("MPOSCAR-%03d" % (i + 1))).split("\n")
                    pos = np.array([[float(x) for x in l.split()[:3]] for l in lines[8:8 + len(cell)]])
                    diff = pos - cell.scaled_positions
                    diff -= np.rint(diff)
                    cmp.close(f + ":MPOSCAR-%03d positions" % (i + 1), diff, np.zeros_like(diff), 0.6e-15)
            cmp.equal(f + ":number of structure files", len([w for w in written if w.startswith(MODULATED_FILES)]),
                      len(m["cells"]) + 2)
        elif f == "irreps.yaml" and "irreps" in res:
            cmp.checked.add(f)
            y = C.load_yaml(path(f))
            t = _text(path(f))
            ir = res["irreps"]
            P(f + ":q-position", y["q-position"], ir.qpoint, C.decimals(t, "q-position"))
            cmp.equal(f + ":point_group", str(y["point_group"]), str(ir._pointgroup_symbol))
            cmp.equal(f + ":band_indices", [list(x["band_indices"]) for x in y["normal_modes"]],
                      [[int(b) + 1 for b in s_] for s_ in ir.band_indices])
            cmp.freq(f + ":frequencies", [x["frequency"] for x in y["normal_modes"]],
                     [ir._freqs[s_[0]] for s_ in ir.band_indices], C.decimals(t, "frequency"))
            cmp.close(f + ":rotations", [r["matrix"] for r in y["rotations"]], ir.conventional_rotations, 0)
            for i, x in enumerate(y["normal_modes"]):
                ch = np.array(x["characters"], dtype=float)
                ref = np.array(ir.characters[i])
                cmp.close(f + ":characters magnitude", ch[:, 0], np.rint(np.abs(ref)), 0)
                big = np.abs(ref) > 0.5
                dphi = (ch[big, 1] - (np.angle(ref[big]) / np.pi * 180) % 360 + 180) % 360 - 180
                cmp.close(f + ":characters phase", dphi, np.zeros(len(dphi)), 0.06)
            if ir._ir_labels:
                cmp.equal(f + ":ir_labels", [str(x.get("ir_label")) for x in y["normal_modes"]],
                          [str(l) for l in ir._ir_labels])
            cmp.equal(f + ":irreps section", "irreps" in y, bool(rp.st.show_irreps))
        elif f.startswith(ANIME_FILES) and "anime_dir" in res:
            cmp.checked.add("ANIME")
            ref = os.path.join(res["anime_dir"], f)
            if not os.path.exists(ref):
                cmp.bad.append("%s: the library does not write this file" % f)
            else:
                compare_text(cmp, f, _text(path(f)), _text(ref))
        elif f in ("phonopy.yaml", "phonopy_params.yaml") and res.get("summary"):
            cmp.checked.add(f)
            compare_summary(setup, rp, path(f), cmp, f)
    if "moment" in res:
        import re

        got = [[float(x) for x in [m.group(1), m.group(2)] + m.group(3).split()]
               for m in re.finditer(r"^\s*(\d+) \|\s*(-?[\d.]+) \|\s*((?:-?[\d.]+\s*)+)$", getattr(rp, "stdout", ""), re.M)]
        cmp.checked.add("stdout:moment")
        if len(got) != len(res["moment"]):
            cmp.bad.append("stdout:moment: %d rows printed, %d expected" % (len(got), len(res["moment"])))
        else:
            cmp.close("stdout:moment", got, res["moment"], 0.6e-5)
    if "anime_dir" in res:
        libfiles = sorted(os.listdir(res["anime_dir"]))
        cmp.equal("ANIME:files", sorted(w for w in written if w.startswith(ANIME_FILES)), libfiles)
        shutil.rmtree(res["anime_dir"], ignore_errors=True)


def compare_text(cmp, label, a, b):
    """Two text files token by token: numbers at the printed precision, everything else verbatim."""
    import re

    ta, tb = a.split(), b.split()
    if len(ta) != len(tb):
        cmp.bad.append("%s:text: %d tokens vs %d" % (label, len(ta), len(tb)))
        return
    num = re.compile(r"^-?\d+\.\d+$")
    for x, y in zip(ta, tb):
        if x == y:
            continue
        if num.match(x) and num.match(y) and len(x.split(".")[1]) == len(y.split(".")[1]):
            dec = len(x.split(".")[1])
            if abs(float(x) - float(y)) <= 1.2 * 10.0 ** (-dec):
                continue
        cmp.bad.append("%s:text: %s vs %s" % (label, x, y))
        return


def compare_summary(setup, rp, fpath, cmp, f):
    """The summary holds the configuration that was in force and reloads (phonopy.load, in an
    empty directory) to the calculation that was run."""
    import phonopy

    st, ph = rp.st, rp.ph
    y = C.load_yaml(fpath)
    t = _text(fpath)
    cmp.equal(f + ":configuration", {k: str(v) for k, v in y["phonopy"].get("configuration", {}).items()},
              {k: str(v) for k, v in rp.confs.items()})
    cmp.equal(f + ":calculator", y["phonopy"].get("calculator"), setup.calcname)
    cmp.close(f + ":supercell_matrix", y["supercell_matrix"], setup.S, 0)
    has_fc = "force_constants" in y
    has_fs = bool(y.get("displacements")) and "forces" in y["displacements"][0]
    has_disp = bool(y.get("displacements"))
    has_nac = "nac" in y and "born_effective_charge" in y["nac"]
    dataset_has_forces = ph.dataset is not None and "first_atoms" in ph.dataset and \
        "forces" in ph.dataset["first_atoms"][0]
    if st.save_params:
        # doc/command-options.md: "displacement-force dataset or force constants ... are written"
        cmp.equal(f + ":holds force sets", has_fs, bool(dataset_has_forces))
        cmp.equal(f + ":holds force constants", has_fc, not bool(dataset_has_forces))
    else:
        want_fs = st.include_force_sets and dataset_has_forces
        cmp.equal(f + ":holds force sets", has_fs, bool(want_fs))
        cmp.equal(f + ":holds force constants", has_fc, bool(st.include_force_constants))
        cmp.equal(f + ":holds displacements", has_disp,
                  bool((st.include_displacements or want_fs) and ph.dataset is not None))
    cmp.equal(f + ":holds nac", has_nac, bool(ph.nac_params is not None and (st.include_nac_params or st.save_params)))
    if has_nac and ph.nac_params is not None:
        cmp.printed(f + ":nac unit_conversion_factor", y["nac"].get("unit_conversion_factor"), ph.nac_params["factor"],
                    C.decimals(t, "unit_conversion_factor"))
    cwd = os.getcwd()
    empty = tempfile.mkdtemp(prefix="c18reload_")
    compact = ph.force_constants is None or ph.force_constants.shape[0] != ph.force_constants.shape[1]
    try:
        os.chdir(empty)
        ph2 = phonopy.load(fpath, produce_fc=True, symmetrize_fc=False, log_level=0, is_compact_fc=compact)
    except Exception as e:  # noqa: BLE001
        cmp.bad.append("%s:reload: phonopy.load failed: %s: %s" % (f, type(e).__name__, e))
        return
    finally:
        os.chdir(cwd)
        shutil.rmtree(empty, ignore_errors=True)
    dl, dc = C.decimals(t, "lattice"), C.decimals(t, "coordinates")
    P = cmp.printed
    P(f + ":reload unitcell", ph2.unitcell.cell, ph.unitcell.cell, dl)
    P(f + ":reload primitive", ph2.primitive.cell, ph.primitive.cell, dl)
    P(f + ":reload positions", ph2.primitive.scaled_positions, ph.primitive.scaled_positions, dc)
    pm = lambda x: np.eye(3) if x is None else np.array(x, dtype=float)  # noqa: E731
    cmp.close(f + ":reload primitive_matrix", pm(ph2.primitive_matrix), pm(ph.primitive_matrix), 1e-12)
    P(f + ":reload masses", ph2.primitive.masses, ph.primitive.masses, C.decimals(t, "mass"))
    cmp.equal(f + ":reload calculator", ph2.calculator, ph.calculator)
    cmp.close(f + ":reload supercell_matrix", ph2.supercell_matrix, ph.supercell_matrix, 0)
    if has_nac:
        P(f + ":reload born", ph2.nac_params["born"], ph.nac_params["born"], C.decimals(t, "born_effective_charge"))
        P(f + ":reload dielectric", ph2.nac_params["dielectric"], ph.nac_params["dielectric"],
          C.decimals(t, "dielectric_constant"))
    if has_fc:
        P(f + ":reload force constants", ph2.force_constants, ph.force_constants, C.decimals(t, "elements"))
        # the reloaded object reproduces the phonons of the run (up to the printed masses)
        q = [[0.13, 0.21, 0.37], [0.5, 0.0, 0.0]]
        ph2.run_qpoints(q)
        ref = setup.make(st, unitcell=ph.unitcell, calculator=ph.calculator)
        if has_nac:
            ref.nac_params = ph.nac_params
        ref.force_constants = ph.force_constants
        ref.run_qpoints(q)
        cmp.close(f + ":reload frequencies", ph2.get_qpoints_dict()["frequencies"],
                  ref.get_qpoints_dict()["frequencies"], 1e-6)


# ---------------------------------------------------------------------------------------------
# the workflow cases of one set-up
# ---------------------------------------------------------------------------------------------
def installed_solvers():
    out = {"traditional"}
    for mod, name in (("symfc", "symfc"), ("alm", "alm")):
        try:
            __import__(mod)
            out.add(name)
        except Exception:  # noqa: BLE001
            pass
    return out


class Case:
    def __init__(self, label, cmd, argv, force_files=None, before=None, after=None):
        self.label, self.cmd, self.argv = label, cmd, (None if argv is None else [str(a) for a in argv])
        self.force_files, self.before, self.after = force_files, before, after


def workflow_cases(su, full):
    """The invocations of one set-up, in order (the directory evolves)."""
    calc = C.CALCS[su.calc]
    M = su.cfg["mesh"]
    band = su.cfg["band"]
    dim = [str(su.S[i][i]) for i in range(3)]
    pa = ["--pa", su.cfg["pa"]] if su.cfg["pa"] else []
    cellargs = calc["opt"] + ["-c", su.cellfile, "--dim"] + dim + pa
    cases = []
    add = lambda *a, **k: cases.append(Case(*a, **k))  # noqa: E731

    def after_disp(su, st):
        ph = su.make(st)
        dist = DOC_DEFAULT_DISTANCE[su.calc]
        ph.generate_displacements(distance=dist)
        su.disps = [(x["number"], list(x["displacement"])) for x in ph.dataset["first_atoms"]]
        disp_arr = np.zeros((len(su.disps), len(ph.supercell), 3))
        for i, (a, dv) in enumerate(su.disps):
            disp_arr[i, a] = dv
        su.forces = su.forces_for(ph, disp_arr)
        su.force_files = []
        for i, sc in enumerate(ph.supercells_with_displacements):
            fn = "calc-%03d.out" % (i + 1)
            C.write_forces(su.calc, os.path.join(su.dir, fn), sc.cell, sc.scaled_positions, su.forces[i])
            su.force_files.append(fn)
        # perfect supercell with a residual force, for --fz
        resid = np.zeros((len(ph.supercell), 3))
        resid[0] = [1e-3, -2e-3, 5e-4]
        resid[1] = -resid[0]
        su.resid = resid
        C.write_forces(su.calc, os.path.join(su.dir, "calc-000.out"), ph.supercell.cell,
                       ph.supercell.scaled_positions, resid)
        for i, sc in enumerate(ph.supercells_with_displacements):
            C.write_forces(su.calc, os.path.join(su.dir, "calcz-%03d.out" % (i + 1)), sc.cell,
                           sc.scaled_positions, su.forces[i] + resid)

    if full:
        add("disp-nosym-amplitude", "phonopy", cellargs + ["-d", "--nosym", "--amplitude", "0.03"])
        add("disp-pm-nodiag", "phonopy", cellargs + ["-d", "--pm", "--nodiag"])
        add("disp-trigonal", "phonopy", cellargs + ["-d", "--trigonal"])
        add("disp-random", "phonopy", cellargs + ["-d", "--rd", "3", "--random-seed", "5", "--amplitude", "0.02"])
        add("disp-random-amax", "phonopy", cellargs + ["-d", "--rd", "2", "--random-seed", "7", "--amax", "0.05"])
    add("disp", "phonopy", cellargs + ["-d"], after=after_disp)
    add("no-force-sets", "phonopy", ["--mesh"] + M)
    add("force-sets-missing-files", "phonopy", ["-f", "nothere-1.out", "nothere-2.out"], force_files=["nothere-1.out"])
    add("force-sets", "phonopy", calc["opt"] + ["-f", "@FORCEFILES@"], force_files="@")
    if full:
        add("force-sets-zero", "phonopy", ["--fz", "calc-000.out", "@ZFORCEFILES@"], force_files="@z")
        add("force-sets", "phonopy", ["-f", "@FORCEFILES@"], force_files="@")
    add("load-default-solver", "load", ["--mesh"] + M)
    L = ["--fc-calc", "traditional"]  # phonopy-load with the solver that is installed
    for cmd, base in (("phonopy", []), ("load", L)):
        add("mesh", cmd, base + ["--mesh"] + M)
        add("mesh-eigvecs-gc", cmd, base + ["--mesh"] + M + ["--eigvecs", "--gc"])
        add("band", cmd, base + ["--band", band, "--band-points", "11", "--band-labels", "A", "B", "C", "D", "E"])
        # core list (every set-up, so also the one with a non-identity primitive matrix): the constant-interval
        # path measures segment lengths with the PRIMITIVE reciprocal lattice (seed c18-8)
        add("band-const", cmd, base + ["--band", band, "--band-points", "9", "--band-const-interval"])
        add("qpoints-writedm", cmd, base + ["--qpoints", "0 0 0 0.1 0.2 0.3 1/2 0 0", "--writedm"])
        add("tprop", cmd, base + ["--mesh"] + M + ["-t", "--tmax", "300", "--tstep", "100"])
        add("dos", cmd, base + ["--mesh"] + M + ["--dos", "--nowritemesh"])
        add("writefc", cmd, base + ["--writefc"])
        if cmd == "phonopy":
            add("readfc", cmd, ["--readfc", "--mesh"] + M)
        else:
            add("readfc-auto", cmd, ["--mesh"] + M + ["--nomeshsym"])
        add("rm-fc", cmd, None, before=lambda su: [os.remove(os.path.join(su.dir, f)) for f in
                                                   ("FORCE_CONSTANTS",) if os.path.exists(os.path.join(su.dir, f))])
        # NAC: where the calculator comes from (option / yaml) x BORN line 1 (default / explicit factor) x
        # NAC parameters stored in the yaml input or not
        nacopt = ["--nac"] if cmd == "phonopy" else []
        qn = ["--qpoints", "0 0 0 0.1 0 0", "--q-direction", "1", "0", "0"]
        rm = lambda *fs: (lambda su: [os.remove(os.path.join(su.dir, f)) for f in fs  # noqa: E731
                                      if os.path.exists(os.path.join(su.dir, f))])
        cp = lambda a, b: (lambda su: shutil.copy(os.path.join(su.dir, a), os.path.join(su.dir, b)))  # noqa: E731
        add("write-BORN", cmd, None, before=lambda su: C.write_born(os.path.join(su.dir, "BORN"), su.eps, su.born_indep))
        if cmd == "phonopy":
            add("nac-calc-option-cell", cmd, cellargs + nacopt + qn)
        else:
            add("nac-calc-option-and-yaml", cmd, base + calc["opt"] + qn)
        add("nac-calc-yaml", cmd, base + nacopt + qn)
        add("keep-nac", cmd, None, before=cp("phonopy.yaml", "with_nac.yaml"))
        add("write-BORN-factor", cmd, None,
            before=lambda su: C.write_born(os.path.join(su.dir, "BORN"), su.eps, su.born_indep, factor=3.21))
        add("nac-born-factor", cmd, base + nacopt + qn)
        add("keep-nac-factor", cmd, None, before=cp("phonopy.yaml", "with_nac_f.yaml"))
        add("rm-BORN", cmd, None, before=rm("BORN"))
        add("nac-from-yaml", cmd, (base if cmd == "load" else []) + ["with_nac.yaml"] + nacopt + qn)
        add("nac-from-yaml-factor", cmd, (base if cmd == "load" else []) + ["with_nac_f.yaml"] + nacopt + qn)
        add("rm-nac-yaml", cmd, None, before=rm("with_nac.yaml", "with_nac_f.yaml"))
        if not full:
            continue
        add("mesh-nomeshsym-gv", cmd, base + ["--mesh"] + M + ["--nomeshsym", "--gv"])
        add("mesh-hdf5", cmd, base + ["--mesh"] + M + ["--mesh-format", "hdf5"])
        add("band-connection", cmd, base + ["--band", band, "--band-points", "7", "--band-connection", "--eigvecs"])
        add("band-mesh-dos", cmd, base + ["--band", band, "--band-points", "5", "--mesh"] + M + ["--dos"])
        add("band-hdf5", cmd, base + ["--band", band, "--band-points", "5", "--band-format", "hdf5"])
        add("qpoints-eigvecs-hdf5", cmd, base + ["--qpoints", "0.1 0.2 0.3", "--eigvecs", "--qpoints-format", "hdf5"])
        add("qpoints-none", cmd, base + ["--read-qpoints"])
        add("write-QPOINTS", cmd, None, before=lambda su: open(os.path.join(su.dir, "QPOINTS"), "w").write(
            "2\n0 0 0\n0.25 0.125 0.5\n"))
        add("read-qpoints", cmd, base + ["--read-qpoints"])
        add("dos-sigma", cmd, base + ["--mesh"] + M + ["--dos", "--sigma", "0.3", "--fpitch", "0.5"])
        add("pdos", cmd, base + ["--mesh"] + M + ["--pdos", "1, 2"])
        add("pdos-xyz", cmd, base + ["--mesh"] + M + ["--pdos", "1, 2", "--xyz-projection"])
        fcut = su.fcut
        add("tprop-over-pdos", cmd, base + ["--mesh"] + M + ["--pdos", "1, 2", "-t", "--tmax", "200", "--tstep", "100",
                                                             "--cutoff-freq", fcut])
        add("tprop-classical-bi", cmd, base + ["--mesh"] + M + ["-t", "--tmax", "200", "--tstep", "100", "--classical",
                                                                "--bi", "1 2, 4"])
        add("band-gv-const", cmd, base + ["--band", band, "--band-points", "6", "--gv", "--gv-delta-q", "0.002",
                                          "--band-const-interval"])
        add("qpoints-gv-eigvecs", cmd, base + ["--qpoints", "0.1 0.2 0.3 0.3 0.1 0", "--gv", "--eigvecs"])
        add("factor-mass", cmd, base + ["--qpoints", "0.1 0.2 0.3", "--factor", "521.47", "--mass"] +
            [str(20.0 + i) for i in range(len(su.make(None).primitive))])
        add("fc-decimals", cmd, base + ["--qpoints", "0.1 0.2 0.3", "--fc-decimals", "3", "--dm-decimals", "5"])
        add("dos-range", cmd, base + ["--mesh"] + M + ["--dos", "--fmin", "1", "--fmax", fcut, "--fpitch", "0.25"])
        add("pdos-direction-sigma", cmd, base + ["--mesh"] + M + ["--pdos", "1, 2", "--pd", "1", "1", "0", "--sigma", "0.2"])
        add("tdisp-direction-fmin", cmd, base + ["--mesh"] + M + ["--td", "--tmax", "200", "--tstep", "100",
                                                                   "--pd", "1", "0", "0", "--fmin", fcut])
        add("tdisp", cmd, base + ["--mesh"] + M + ["--td", "--tmax", "300", "--tstep", "150"])
        add("tdm", cmd, base + ["--mesh"] + M + ["--tdm", "--tmax", "300", "--tstep", "150", "--fmax", fcut])
        add("tdm-cif", cmd, base + ["--mesh"] + M + ["--tdm-cif", "300"])
        add("moment", cmd, base + ["--mesh"] + M + ["--moment"])
        add("modulation", cmd, base + ["--modulation", "2 4 1, 0.5 0.25 0 1 2.0, 0.5 0.25 0 %d 1.0 90"
                                       % (3 * len(su.make(None).primitive))])
        add("irreps-gamma", cmd, base + ["--irreps", "0", "0", "0"])
        add("irreps-x-lcg", cmd, base + ["--irreps", "1/2", "0", "0", "1e-3", "--show-irreps", "--lcg"])
        add("anime-vsim", cmd, base + ["--anime", "0", "0.5", "0"])  # (a 4th value, the amplitude, makes
        # Animation.write_v_sim raise UnboundLocalError in the library itself: fixes/c18-anime-vsim-amplitude.md)
        add("write-anime-conf", cmd, None, before=lambda su: [open(os.path.join(su.dir, "anime_%s.conf" % t), "w").write(
            "ANIME_TYPE = %s\nANIME = 2 3 4\n" % t.upper()) for t in ("poscar", "xyz", "jmol")])
        for t in ("poscar", "xyz", "jmol"):
            add("anime-" + t, cmd, (["anime_%s.conf" % t] if cmd == "phonopy" else base + ["--config", "anime_%s.conf" % t]))
        add("rm-anime", cmd, None, before=lambda su: [os.remove(os.path.join(su.dir, f)) for f in os.listdir(su.dir)
                                                      if f.startswith(ANIME_FILES + MODULATED_FILES)])
        add("writefc-full-hdf5", cmd, base + ["--writefc", "--full-fc", "--writefc-format", "hdf5"])
        if cmd == "phonopy":
            add("readfc-hdf5", cmd, ["--readfc", "--readfc-format", "hdf5", "--mesh"] + M)
            add("readfc-missing", cmd, ["--readfc", "--mesh"] + M)
        else:
            add("readfc-hdf5-auto", cmd, ["--mesh"] + M)
        add("rm-fc-hdf5", cmd, None, before=lambda su: os.remove(os.path.join(su.dir, "force_constants.hdf5")))
        for i, sel in enumerate([["--fc-calc", "symfc"], ["--fc-calc", "alm"], ["--alm"], ["--fc-calc", "Traditional"]] +
                                ([["--symfc"], ["--fc-symmetry", "--fc-calc", "symfc"]] if cmd == "phonopy"
                                 else [["--no-fc-symmetry", "--fc-calc", "symfc"]])):
            add("solver-%d" % i, cmd, sel + ["--qpoints", "0.1 0.2 0.3"])
        add("fc-symmetry", cmd, (["--fc-symmetry"] if cmd == "phonopy" else L) + ["--qpoints", "0.1 0.2 0.3"])
        add("no-fc-symmetry", cmd, ([] if cmd == "phonopy" else ["--no-fc-symmetry"]) + ["--qpoints", "0.1 0.2 0.3"])
        add("spg-writefc", cmd, base + ["--fc-spg-symmetry", "--writefc", "--cutoff-radius", "3.9"])
        add("rm-fc2", cmd, None, before=lambda su: [os.remove(os.path.join(su.dir, f)) for f in
                                                    ("FORCE_CONSTANTS", "FORCE_CONSTANTS_SPG")
                                                    if os.path.exists(os.path.join(su.dir, f))])
        add("nac-missing", cmd, base + (["--nac"] if cmd == "phonopy" else []) + ["--qpoints", "0 0 0"])
        add("write-BORN", cmd, None, before=lambda su: C.write_born(os.path.join(su.dir, "BORN"), su.eps, su.born_indep))
        add("nac", cmd, base + (["--nac"] if cmd == "phonopy" else []) +
            ["--qpoints", "0 0 0 0.1 0 0", "--q-direction", "1", "0", "0"])
        add("nac-wang-band", cmd, base + (["--nac"] if cmd == "phonopy" else []) +
            ["--nac-method", "wang", "--band", band, "--band-points", "5"])
        add("nonac", cmd, base + ([] if cmd == "phonopy" else ["--nonac"]) + ["--qpoints", "0 0 0 0.1 0 0"])
        add("include-all", cmd, base + ["--mesh"] + M + ["--include-all"])
        add("include-fc", cmd, base + ["--mesh"] + M + ["--include-fc"])
        add("keep-summary", cmd, None, before=lambda su: shutil.copy(os.path.join(su.dir, "phonopy.yaml"),
                                                                    os.path.join(su.dir, "with_fc.yaml")))
        add("from-yaml-fc", cmd, (["with_fc.yaml"] if cmd == "load" else ["-c", "with_fc.yaml"]) +
            (["--mesh"] + M if cmd == "load" else ["--readfc", "--mesh"] + M))
        add("rm-BORN", cmd, None, before=lambda su: os.remove(os.path.join(su.dir, "BORN")))
        add("write-conf", cmd, None, before=lambda su: open(os.path.join(su.dir, "run.conf"), "w").write(
            "MESH = %s\nTPROP = .TRUE.\nTMAX = 200\nTSTEP = 100\nMP_SHIFT = 1/2 0 0\n"
            "TIME_REVERSAL_SYMMETRY = .FALSE.\n" % " ".join(M)))
        add("conf-file", cmd, (["run.conf"] if cmd == "phonopy" else L + ["--config", "run.conf"]) + ["--tmin", "100"])
        add("save-params", cmd, base + ["--mesh"] + M + ["--save-params"])
        add("rm-params", cmd, None, before=lambda su: os.remove(os.path.join(su.dir, "phonopy_params.yaml")))
    if full:
        modifier_cases(su, add, L)
        aux_cases(su, add, L, M, band)
        add("force-sets-save-params", "phonopy", ["-f", "@FORCEFILES@", "--sp"], force_files="@")
        add("from-params", "phonopy", ["phonopy_params.yaml", "--mesh"] + M)
        add("from-params", "load", L + ["phonopy_params.yaml", "--mesh"] + M)
    return cases


def run_aux_case(ctx, su, cs, argv, cid, casedir, jobs):
    inp, s, info = AUXMOD.abstract(cs.cmd, argv, su.dir, SBASE)
    indir = os.path.join(casedir, cid.replace(":", "_"), "in")
    outdir = os.path.join(casedir, cid.replace(":", "_"), "out")
    os.makedirs(indir)
    os.makedirs(outdir)
    for f in os.listdir(su.dir):
        if f != "_case" and os.path.isfile(os.path.join(su.dir, f)) and not f.startswith(("calc", "POSCAR-0", "supercell-")) \
                and os.path.getsize(os.path.join(su.dir, f)) < 5e6:
            shutil.copy(os.path.join(su.dir, f), indir)
    r = C.run_script(AUXMOD.AUX[cs.cmd], argv, su.dir)
    written = [w for w in r["written"] if not w.startswith("_case")]
    for w in written:
        os.makedirs(os.path.dirname(os.path.join(outdir, w)), exist_ok=True)
        shutil.copy(os.path.join(su.dir, w), os.path.join(outdir, w))
    out = AUXMOD.abstract_outputs(cs.cmd, argv, r, info)
    # phonopy-bandplot --gnuplot ends with sys.exit(1) after printing the data: judged by what it printed
    ok = (r["exc"] is None) and (r["code"] == 0 or (cs.cmd == "bandplot" and "stdout" in out))
    if cs.cmd == "bandplot" and "stdout" in out and r["code"] != 0:
        t = "phonopy-bandplot --gnuplot exits with status %s after printing the data" % r["code"]
        if t not in ctx.extra.setdefault("aux_traits", []):
            ctx.extra["aux_traits"].append(t)
    from harness import c17_io

    jobs.append(dict(id=cid, cmd=cs.cmd, argv=argv, inp=inp, s=s, st=None, confs=None, yaml_file=None, indir=indir,
                     outdir=outdir, written=written, status="ok" if ok else "fail", exc=r["exc"], stdout=r["stdout"],
                     stdout_tail=r["stdout"][-1500:], setup=su, fsz=False, solver="traditional", sweep=False,
                     info=info, aux_out=out, tol=c17_io.TOL.get((info.get("cout") or "").lower(), dict(frac=1e-9, lat=1e-9))))
    su.cases_run += 1
    ctx.count(cid)


def modifier_cases(su, add, L):
    """Every consumer of the sampling mesh crossed (pairwise) with the mesh modifiers:
       A: even mesh + GAMMA_CENTER + frequency window / cutoff,
       B: odd mesh + MP_SHIFT + MESH_SYMMETRY = .FALSE. (configuration file, consumer as option),
       C: even mesh, plain;   the command alternates."""
    fcut = su.fcut
    T = ["--tmax", "200", "--tstep", "100"]
    win = ["--fmin", "%.4f" % su.fscale, "--fmax", fcut]
    consumers = [("mesh", [], []), ("dos", ["--dos"], win), ("pdos", ["--pdos", "1, 2"], win),
                 ("tprop", ["-t"] + T, ["--cutoff-freq", fcut]), ("ptprop", ["--pt"] + T, ["--cutoff-freq", fcut]),
                 ("tdisp", ["--td"] + T, win), ("tdm", ["--tdm"] + T, win), ("tdm_cif", ["--tdm-cif", "150"], win),
                 ("moment", ["--moment", "--moment-order", "2"], win)]
    add("write-modifier-conf", "load", None, before=lambda su: open(os.path.join(su.dir, "modB.conf"), "w").write(
        "MESH = 3 3 3\nMP_SHIFT = 1/2 1/2 1/2\nMESH_SYMMETRY = .FALSE.\n"))
    for i, (name, args, rng_) in enumerate(consumers):
        for k, variant in enumerate("ABC"):
            cmd = ("phonopy", "load")[(i + k) % 2]
            base = [] if cmd == "phonopy" else L
            if variant == "A":
                argv = base + ["--mesh", "4", "4", "2", "--gc"] + args + rng_
            elif variant == "B":
                argv = (["modB.conf"] if cmd == "phonopy" else base + ["--config", "modB.conf"]) + args
            else:
                argv = base + ["--mesh", "4", "4", "2"] + args
            if os.environ.get("C18_DROP") == "mod-%s-%s" % (name, variant):
                continue  # self-test of the vacuity invariant
            add("mod-%s-%s" % (name, variant), cmd, argv)


def aux_cases(su, add, L, M, band):
    """the other console scripts, on files the main commands have just written"""
    d = su.dir
    calc = C.CALCS[su.calc]
    # phonopy-bandplot / phonopy-propplot, gnuplot data paths
    add("band-for-plot", "load", L + ["--band", band, "--band-points", "5"])
    add("bandplot-gnuplot", "bandplot", ["--gnuplot"])
    add("bandplot-gnuplot-factor", "bandplot", ["--gnuplot", "--factor", "33.35641", "band.yaml"])
    add("bandplot-gnuplot-missing", "bandplot", ["--gnuplot", "nothere.yaml"])
    add("band-hdf5-for-plot", "load", L + ["--band", band, "--band-points", "5", "--band-format", "hdf5"])
    add("bandplot-gnuplot-hdf5", "bandplot", ["--gnuplot", "--hdf5"])
    add("tprop-for-plot", "load", L + ["--mesh"] + M + ["-t", "--tmax", "300", "--tstep", "25"])
    add("propplot-gnuplot", "propplot", ["--gnuplot"])
    add("propplot-gnuplot-range", "propplot", ["--gnuplot", "--tmin", "50", "--tmax", "200", "thermal_properties.yaml"])
    add("propplot-gnuplot-missing", "propplot", ["--gnuplot", "nothere.yaml"])
    # phonopy-qha: thermal properties of seven "volumes" (frequencies scaled with a Grueneisen constant of
    # 1.5 through --factor), electronic energies from a cubic E(V)
    ph = su.make(None)
    v0 = float(ph.primitive.volume)
    fac0 = su.units["factor"]
    vols = [v0 * (0.94 + 0.02 * i) for i in range(7)]
    for i, v in enumerate(vols):
        add("qha-tprop-%d" % i, "load", L + ["--mesh"] + M + ["-t", "--tmax", "400", "--tstep", "10", "--factor",
                                                              "%.6f" % (fac0 * (v0 / v) ** 1.5)])
        add("keep-tp-%d" % i, "load", None, before=(lambda i: lambda su: shutil.copy(
            os.path.join(su.dir, "thermal_properties.yaml"), os.path.join(su.dir, "tp-%d.yaml" % i)))(i))

    def write_ev(su):
        with open(os.path.join(d, "e-v.dat"), "w") as f:
            f.write("# volume energy\n")
            for v in vols:
                x = (v - v0) / v0
                f.write("%.10f %.10f\n" % (v, -10.0 + 9.0 * x * x - 14.0 * x ** 3))

    add("write-e-v", "load", None, before=write_ev)
    tps = ["tp-%d.yaml" % i for i in range(7)]
    add("qha", "qha", ["e-v.dat"] + tps + ["--tmax", "300"])
    add("qha-murnaghan-pressure", "qha", ["--eos", "murnaghan", "--pressure", "1.5", "--tmax", "250", "--sparse", "20",
                                          "e-v.dat"] + tps)
    add("qha-bulk-modulus", "qha", ["-b", "e-v.dat"])
    add("qha-bulk-modulus-bm", "qha", ["-b", "--eos", "birch_murnaghan", "e-v.dat"])
    add("qha-file-count", "qha", ["e-v.dat"] + tps[:5])
    add("qha-no-e-v", "qha", ["nothere.dat"] + tps)
    add("rm-qha", "load", None, before=lambda su: [os.remove(os.path.join(su.dir, f)) for f in os.listdir(su.dir)
                                                   if f.endswith(".dat") and f not in ("total_dos.dat", "projected_dos.dat")
                                                   or f.startswith("tp-")])
    # phonopy-vasp-born --outcar (a tensor field that is not symmetric: symmetrisation is visible)
    if su.calc == "vasp":
        def write_outcar(su):
            rng = np.random.default_rng(5)
            nat = len(su.symbols)
            z = np.array([np.eye(3) * (1.1 if s_ == "Na" else -1.1) for s_ in su.symbols]) + 0.05 * rng.normal(size=(nat, 3, 3))
            AUXMOD.write_outcar(os.path.join(su.dir, "OUTCAR"), z, np.eye(3) * 2.43 + 0.05 * rng.normal(size=(3, 3)))

        add("write-OUTCAR", "load", None, before=write_outcar)
        add("vasp-born", "vaspborn", ["--outcar", "OUTCAR", su.cellfile])
        add("vasp-born-nost", "vaspborn", ["--outcar", "--nost", "OUTCAR", su.cellfile])
        add("vasp-born-missing", "vaspborn", ["--outcar", "OUTCAR.nothere", su.cellfile])
        add("rm-OUTCAR", "load", None, before=lambda su: os.remove(os.path.join(su.dir, "OUTCAR")))
    # phonopy-calc-convert
    for tgt in ("abinit", "aims", "castep", "dftbp", "lammps", "pwmat", "vasp"):
        if tgt != su.calc:
            add("convert-" + tgt, "convert", ["-i", su.cellfile, "--calcin", su.calc, "-o", "conv." + tgt, "--calcout", tgt])
    add("convert-missing-input", "convert", ["-i", "nothere", "--calcin", su.calc, "-o", "conv.x", "--calcout", "abinit"])
    add("convert-bad-calculator", "convert", ["-i", su.cellfile, "--calcin", su.calc, "-o", "conv.y", "--calcout", "foo"])
    add("convert-output-exists", "convert", ["-i", su.cellfile, "--calcin", su.calc, "-o", "conv.aims", "--calcout", "aims"])
    add("rm-conv", "load", None, before=lambda su: [os.remove(os.path.join(su.dir, f)) for f in os.listdir(su.dir)
                                                    if f.startswith("conv.")])


def born_independent(su):
    ph = su.make(None)
    indep = ph.primitive_symmetry.get_independent_atoms()
    su.born_indep = [su.born[i] for i in indep]


def run_setup(ctx, su, full, events, expected_jobs, cases=None):
    born_independent(su)
    sweep = cases is not None
    cases = workflow_cases(su, full) if cases is None else cases
    casedir = os.path.join(su.dir, "_case")
    os.makedirs(casedir)
    seen = {}
    for cs in cases:
        if cs.before is not None:
            cs.before(su)
        if cs.argv is None:
            continue
        argv = []
        for a in cs.argv:
            if a == "@FORCEFILES@":
                argv += su.force_files
            elif a == "@ZFORCEFILES@":
                argv += ["calcz-%03d.out" % (i + 1) for i in range(len(su.force_files))]
            else:
                argv.append(a)
        ff = cs.force_files
        if ff == "@":
            ff = su.force_files
        elif ff == "@z":
            ff = ["calc-000.out"] + ["calcz-%03d.out" % (i + 1) for i in range(len(su.force_files))]
        n = seen.get((cs.cmd, cs.label), 0)
        seen[(cs.cmd, cs.label)] = n + 1
        cid = "%s:%s:%s:%s%s" % (su.name, su.calc, cs.cmd, cs.label, "" if n == 0 else "#%d" % n)
        if cs.cmd in AUXMOD.AUX:
            run_aux_case(ctx, su, cs, argv, cid, casedir, expected_jobs)
            continue
        cwd = os.getcwd()
        os.chdir(su.dir)
        try:
            try:
                st, confs, pos = real_settings(cs.cmd, argv)
            except SystemExit:
                st = None
        finally:
            os.chdir(cwd)
        if st is None:
            raise tlcmod.MachineryError("settings of case %s could not be built" % cid)
        inp, yaml_file = abstract_inputs(su, cs.cmd, st, pos, ff)
        s = abstract_settings(st)
        indir = os.path.join(casedir, cid.replace(":", "_"), "in")
        outdir = os.path.join(casedir, cid.replace(":", "_"), "out")
        os.makedirs(indir)
        os.makedirs(outdir)
        for f in os.listdir(su.dir):
            if f != "_case" and os.path.isfile(os.path.join(su.dir, f)) and \
                    not f.startswith(("calc", "POSCAR-0", "supercell-")) and os.path.getsize(os.path.join(su.dir, f)) < 5e6:
                shutil.copy(os.path.join(su.dir, f), indir)
        r = C.run_cli(cs.cmd, argv, su.dir)
        written = [w for w in r["written"] if not w.startswith("_case")]
        for w in written:
            os.makedirs(os.path.dirname(os.path.join(outdir, w)), exist_ok=True)
            shutil.copy(os.path.join(su.dir, w), os.path.join(outdir, w))
        if cs.after is not None and r["code"] == 0:
            cs.after(su, st)
        status = "ok" if r["code"] == 0 and not r["exc"] else "fail"  # an uncaught exception is a failure too
        from phonopy.cui.phonopy_script import _get_fc_calculator_params

        solver = _get_fc_calculator_params(st, load_phonopy_yaml=(cs.cmd == "load"))[0]
        job = dict(id=cid, cmd=cs.cmd, argv=argv, inp=inp, s=s, st=st, confs=confs, yaml_file=yaml_file,
                   indir=indir, outdir=outdir, written=written, status=status, exc=r["exc"],
                   stdout_tail=r["stdout"][-1500:], setup=su, fsz=bool(st.create_force_sets_zero),
                   solver=solver or "none", sweep=sweep, stdout=r["stdout"] if st.is_moment else "", full=bool(full))
        expected_jobs.append(job)
        su.cases_run += 1
        ctx.count(cid)
    return cases


# ---------------------------------------------------------------------------------------------
# driver
# ---------------------------------------------------------------------------------------------
def model_check(ctx):
    res = ctx.tlc("MC_CLIWorkflow", cfg_text=CFG_WF, extra_files={"MC_CLIWorkflow.tla": mc_families(ctx.quick)},
                  requirement=True, what="C18 workflow requirement fails on the specification", workers=4, env=JENV,
                  coverage=not ctx.quick)
    ctx.extra["workflow_model"] = dict(states=res.distinct, note="exhaustive over the families A (force-constant "
                                       "sources), N (NAC), F (force sets), M (run modes), P (post-processing) of "
                                       "spec MC_CLIWorkflow, both commands")


def expected_from_tlc(ctx, jobs, installed):
    cases = [dict(id=j["id"], cmd=j["cmd"], inp=set(j["inp"]), s=j["s"]) for j in jobs]
    mc = "---- MODULE MC_CLIWorkflowRun ----\nEXTENDS CLIWorkflow\nMCWCases == {%s}\nMCInstalled == %s\n====\n" % (
        ",\n".join(to_tla(c) for c in cases), to_tla(set(installed)))
    res = ctx.tlc("MC_CLIWorkflowRun", cfg_text=CFG_WF, extra_files={"MC_CLIWorkflowRun.tla": mc}, requirement=True,
                  dump=True, keep=True, workers=2, env=JENV, coverage=True)
    exp = {}
    for stt in parse_dump(res.dump_path):
        if stt["pc"] == "exit":
            exp[stt["wc"]["id"]] = dict(status=stt["status"], out=set(stt["out"]), cellsrc=stt["cellsrc"],
                                        calls=[dict(name=c["name"], arg=c["arg"]) for c in stt["calls"]])
    cov = {k: v[1] for k, v in res.coverage.items()}
    tlcmod.cleanup(res)
    missing = [j["id"] for j in jobs if j["id"] not in exp]
    if missing:
        raise tlcmod.MachineryError("no final state of CLIWorkflow for %s" % missing[:3])
    return exp, cov


def workflow_level(ctx):
    model_check(ctx)
    installed = installed_solvers()
    calcs = ["vasp", "qe", "abinit"]
    names = ["cscl", "wz", "naclg"]
    combos = []
    if ctx.quick:
        # Latin square rotated by the seed: every crystal and every calculator once; the first combination
        # runs the full list of invocations, the others the core list
        for i, n in enumerate(names[:2] if os.environ.get("C18_FAST") else names):
            combos.append((n, calcs[(i + ctx.seed) % 3], i == 0))
    else:
        combos = [(n, c, True) for n in names for c in calcs]
    jobs = []
    setups = []
    try:
        for n, c, full in combos:
            su = Setup(n, c, ctx.seed, ctx)
            setups.append(su)
            run_setup(ctx, su, full, None, jobs)
        # calculator sweep: -d, -f and one phonon run for the other calculators (rotated by the seed)
        used = {c for _, c, _ in combos}
        rest = [c for c in SWEEP_CALCS if c not in used] if ctx.quick else list(SWEEP_CALCS)
        if ctx.quick:
            k = (ctx.seed * 4) % len(rest)
            rest = (rest + rest)[k:k + (2 if os.environ.get("C18_FAST") else 4)]
        for c in rest:
            su = SweepSetup(c, ctx.seed, ctx)
            setups.append(su)
            run_setup(ctx, su, False, None, jobs, cases=sweep_cases(su))
        ctx.extra["calculator_sweep"] = rest
        exp, cov = expected_from_tlc(ctx, jobs, installed)
        uncovered = [a for a, n in cov.items() if n == 0]
        ctx.extra["workflow_actions_fired"] = cov
        if uncovered:
            raise tlcmod.MachineryError("CLIWorkflow actions never fired on the replayed cases: %s" % uncovered)
        events = []
        margins = {}
        for j in jobs:
            e = exp[j["id"]]
            cmp = Cmp()
            if j["cmd"] in AUXMOD.AUX:
                if e["status"] == "ok" and j["status"] == "ok":
                    try:
                        AUXMOD.replay(j, e["calls"][0], cmp, compare_text)
                    except Exception as ex:  # noqa: BLE001
                        import traceback

                        cmp.bad.append("replay of the specification's call on the library raised %s: %s | %s"
                                       % (type(ex).__name__, ex, traceback.format_exc()[-400:]))
            elif e["status"] == "ok" and j["status"] == "ok":
                rp = Replay(j["setup"], j["cmd"], j["st"], j["confs"], j["indir"], j["yaml_file"], e["cellsrc"])
                rp.stdout = j.get("stdout", "")
                try:
                    res = rp.run(e["calls"])
                    compare_outputs(j["setup"], rp, res, j["written"], cmp, j["outdir"])
                except Exception as ex:  # noqa: BLE001 - the library refused calls the command performed
                    import traceback

                    cmp.bad.append("replay of the specification's calls on the library raised %s: %s | %s"
                                   % (type(ex).__name__, ex, traceback.format_exc()[-400:]))
            for k, v in cmp.maxerr.items():
                kk = k.split(":", 1)[-1] if ":" in k else k
                margins[kk] = max(margins.get(kk, 0.0), v)
            obs = dict(status=j["status"],
                       out=j["aux_out"] if "aux_out" in j else abstract_outputs(j["written"], j["sweep"]),
                       bad=set(_short(b) for b in cmp.bad),
                       checked=set(cmp.checked), solver=j["solver"])
            j["bad"] = cmp.bad
            j["expected"] = e
            events.append(dict(id=j["id"], cmd=j["cmd"], inp=set(j["inp"]), s=j["s"], obs=obs, full=bool(j.get("full"))))
            ctx.traces += 1
        ctx.extra["workflow_cases"] = dict(invocations=len(jobs), setups=["%s/%s%s" % (n, c, "" if f else " (core)")
                                                                          for n, c, f in combos],
                                           succeeded=sum(1 for j in jobs if j["status"] == "ok"),
                                           failed_as_specified=sum(1 for j in jobs if j["status"] == "fail"),
                                           files_compared=sum(len(e["obs"]["checked"]) for e in events))
        ctx.extra["workflow_max_relative_deviation"] = {k: float("%.2e" % v) for k, v in sorted(margins.items())}
        ctx.sample(dict(case=jobs[0]["id"], argv=jobs[0]["argv"], calls=exp[jobs[0]["id"]]["calls"],
                        written=jobs[0]["written"]))
        mid = jobs[len(jobs) // 2]
        ctx.sample(dict(case=mid["id"], argv=mid["argv"], calls=exp[mid["id"]]["calls"], written=mid["written"]))
        mc = "---- MODULE MC_CLIWorkflowTrace ----\nEXTENDS CLIWorkflowTrace\nMCWEvents == {%s}\nMCInstalled == %s\n====\n" % (
            ",\n".join(to_tla(e) for e in events), to_tla(set(installed)))
        res = ctx.tlc("MC_CLIWorkflowTrace", cfg_text=CFG_WFT, extra_files={"MC_CLIWorkflowTrace.tla": mc},
                      requirement=False, extra_args=("-continue",), workers=2, env=JENV)
        byid = {j["id"]: j for j in jobs}
        vacuous = False
        nviol = len(ctx.violations)
        for name, tr in res.violations:
            if name == "CellsExercised":  # vacuity of the (mesh consumer x modifier) coverage
                vacuous = True
                continue
            eid = tr[-1][1].get("wev", {}).get("id") if tr else None
            if eid is None:
                raise tlcmod.MachineryError("violation of %s without a parsable trace" % name)
            j = byid[eid]
            label = eid.split(":", 3)[3].split("#")[0]
            if name == "ImplFaithful":
                for b in sorted(set(_short(x) for x in j["bad"])):
                    ctx.violation("workflow:ImplFaithful:%s:%s" % (j["cmd"], b),
                                  "C18 %s: file written by the command differs from the library result [%s]" % (eid, b),
                                  _pubjob(j))
            elif name.startswith("Impl"):
                ctx.violation("workflow:%s:%s:%s" % (name, j["cmd"], label),
                              "C18 %s: %s fails for the real command" % (eid, name), _pubjob(j))
            else:
                ctx.violation("tlc:CLIWorkflowTrace:" + name, "TLC: %s violated" % name, _pubjob(j))
        if vacuous and len(ctx.violations) == nviol and not ctx.known_hits:
            # a cell that is not exercised although nothing failed: the machinery is vacuous there
            raise tlcmod.MachineryError("CLIWorkflowTrace: some (mesh consumer, mesh modifier) cell is not exercised "
                                        "by a compared run: %s" % missing_cells(events))
    finally:
        for su in setups:
            su.cleanup()


def missing_cells(events):
    """(for the message only - TLC decides) the cells of CLIWorkflowTrace!MissingCells"""
    def consumer(s):
        if s["mode"] not in ("mesh", "band_mesh"):
            return "none"
        for flag, name in (("tprop", "ptprop" if s["ptprop"] else "tprop"), ("tdisp", "tdisp"),
                           ("tdm", "tdm_cif" if s["cif"] else "tdm"), ("pdos", "pdos"), ("dos", "dos"), ("moment", "moment")):
            if s[flag]:
                return name
        return "mesh"

    have = set()
    for e in events:
        if e["cmd"] in ("phonopy", "load") and e["obs"]["checked"]:
            s = e["s"]
            mods = {m for m in ("gc", "shift", "nomeshsym") if s[m]} | {"even" if s["even"] else "odd"}
            if s["frange"] or s["cutfreq"]:
                mods.add("range")
            have |= {(consumer(s), m) for m in mods}
    return sorted((c, m) for c in ("mesh", "dos", "pdos", "tprop", "ptprop", "tdisp", "tdm", "tdm_cif", "moment")
                  for m in ("gc", "shift", "nomeshsym", "even", "odd", "range")
                  if (c, m) not in have and not (c == "mesh" and m == "range"))


def _short(b):
    """file:quantity of a failed comparison (identifier characters only)"""
    import re

    parts = b.split(":")
    head = parts[0] + (":" + parts[1].strip().split(" ")[0] if len(parts) > 1 else "")
    return re.sub(r"[^A-Za-z0-9_.:+-]", "_", head)[:80]


def _pubjob(j):
    return dict(case=j["id"], command="phonopy-load" if j["cmd"] == "load" else "phonopy", argv=j["argv"],
                inputs_present=sorted(j["inp"]), settings=j["s"], observed_status=j["status"], exception=j["exc"],
                files_written=j["written"], failed_comparisons=j.get("bad"),
                specification=dict(status=j["expected"]["status"], out=sorted(j["expected"]["out"]),
                                   calls=j["expected"]["calls"]) if "expected" in j else None,
                stdout_tail=j["stdout_tail"][-600:])
