"""Parser for TLA+ values as printed by TLC (state dumps, error traces,
-simulate trace files), and a printer of Python values as TLA+ expressions.

Mapping:  integers -> int, strings -> str, TRUE/FALSE -> bool,
<<...>> -> list, {...} -> frozenset (list if unhashable members),
[a |-> ..] -> dict with str keys, (k :> v @@ ...) -> dict with parsed keys,
a..b -> list(range(a, b+1)) as frozenset, model values -> ModelValue(str).
"""
from __future__ import annotations

import re


class ModelValue(str):
    def __repr__(self):
        return "ModelValue(%s)" % str.__repr__(self)


_TOK = re.compile(
    r"""\s*(?:
    (?P<int>-?\d+)|
    (?P<str>"(?:[^"\\]|\\.)*")|
    (?P<sym><<|>>|\|->|:>|@@|\.\.|[\[\]{}(),])|
    (?P<id>[A-Za-z_][A-Za-z0-9_!]*)
    )""",
    re.X,
)


def tokenize(s):
    pos = 0
    out = []
    n = len(s)
    while pos < n:
        m = _TOK.match(s, pos)
        if not m:
            if s[pos:].strip() == "":
                break
            raise ValueError("cannot tokenize at %r" % s[pos:pos + 40])
        pos = m.end()
        k = m.lastgroup
        out.append((k, m.group(k)))
    return out


class _P:
    def __init__(self, toks):
        self.t = toks
        self.i = 0

    def peek(self):
        return self.t[self.i] if self.i < len(self.t) else (None, None)

    def eat(self, val=None):
        k, v = self.t[self.i]
        if val is not None and v != val:
            raise ValueError("expected %r got %r at token %d" % (val, v, self.i))
        self.i += 1
        return k, v

    def value(self):
        k, v = self.eat()
        if k == "int":
            iv = int(v)
            if self.peek()[1] == "..":
                self.eat()
                _, hi = self.eat()
                return frozenset(range(iv, int(hi) + 1))
            return iv
        if k == "str":
            return bytes(v[1:-1], "utf-8").decode("unicode_escape")
        if k == "id":
            if v == "TRUE":
                return True
            if v == "FALSE":
                return False
            return ModelValue(v)
        if v == "<<":
            items = []
            while self.peek()[1] != ">>":
                items.append(self.value())
                if self.peek()[1] == ",":
                    self.eat()
            self.eat(">>")
            return items
        if v == "{":
            items = []
            while self.peek()[1] != "}":
                items.append(self.value())
                if self.peek()[1] == ",":
                    self.eat()
            self.eat("}")
            try:
                return frozenset(_freeze(x) for x in items)
            except TypeError:
                return items
        if v == "[":
            d = {}
            while self.peek()[1] != "]":
                _, key = self.eat()
                self.eat("|->")
                d[key] = self.value()
                if self.peek()[1] == ",":
                    self.eat()
            self.eat("]")
            return d
        if v == "(":
            d = {}
            while True:
                key = self.value()
                self.eat(":>")
                d[_freeze(key)] = self.value()
                if self.peek()[1] == "@@":
                    self.eat()
                    continue
                break
            self.eat(")")
            return d
        raise ValueError("unexpected token %r" % v)


def _freeze(x):
    if isinstance(x, list):
        return tuple(_freeze(y) for y in x)
    if isinstance(x, dict):
        return tuple(sorted((k, _freeze(v)) for k, v in x.items()))
    return x


def parse_value(s):
    p = _P(tokenize(s))
    v = p.value()
    if p.i != len(p.t):
        raise ValueError("trailing tokens in %r" % s[:80])
    return v


_CONJ = re.compile(r"^/\\ ([A-Za-z_][A-Za-z0-9_]*) = ", re.M)


def parse_state_body(text):
    """`/\\ x = ...` conjunct list -> dict."""
    ms = list(_CONJ.finditer(text))
    out = {}
    for i, m in enumerate(ms):
        end = ms[i + 1].start() if i + 1 < len(ms) else len(text)
        out[m.group(1)] = parse_value(text[m.end():end])
    return out


_STATE_HDR = re.compile(r"^State (\d+):[^\n]*$", re.M)


def parse_dump(path, limit=None):
    """Parse a `tlc -dump` file into a list of state dicts."""
    with open(path) as f:
        text = f.read()
    hs = list(_STATE_HDR.finditer(text))
    out = []
    for i, h in enumerate(hs):
        end = hs[i + 1].start() if i + 1 < len(hs) else len(text)
        out.append(parse_state_body(text[h.end():end]))
        if limit and len(out) >= limit:
            break
    return out


_TRACE_HDR = re.compile(r"^State (\d+): <?([A-Za-z_0-9]+)?[^\n]*$", re.M)


def parse_error_trace(stdout):
    """Parse the counterexample TLC prints: list of (action, state dict)."""
    hs = list(_TRACE_HDR.finditer(stdout))
    out = []
    for i, h in enumerate(hs):
        end = hs[i + 1].start() if i + 1 < len(hs) else len(stdout)
        body = stdout[h.end():end]
        # body stops at first blank line
        body = body.split("\n\n")[0]
        act = h.group(2) or ""
        if "Initial predicate" in h.group(0):
            act = "Init"
        try:
            out.append((act, parse_state_body(body)))
        except ValueError:
            break
    return out


_SIM_STATE = re.compile(r"^STATE_(\d+) ==\s*$", re.M)
_SIM_ACT = re.compile(r"^\\\* <?([A-Za-z_0-9 ]+?)(?: line| of|>|$)", re.M)


def parse_sim_trace(path):
    """Parse one file written by `tlc -simulate file=...`: list of (action, state)."""
    with open(path) as f:
        text = f.read()
    hs = list(_SIM_STATE.finditer(text))
    out = []
    for i, h in enumerate(hs):
        end = hs[i + 1].start() if i + 1 < len(hs) else len(text)
        body = text[h.end():end]
        # the comment naming the action precedes the STATE_ header
        pre = text[(hs[i - 1].end() if i else 0):h.start()]
        am = None
        for am in _SIM_ACT.finditer(pre):
            pass
        act = am.group(1).strip() if am else ("Init" if i == 0 else "")
        # strip trailing comment lines / blank
        body = "\n".join(l for l in body.splitlines() if not l.startswith("\\*"))
        out.append((act, parse_state_body(body)))
    return out


def to_tla(v):
    """Python value -> TLA+ expression text."""
    if isinstance(v, bool):
        return "TRUE" if v else "FALSE"
    if isinstance(v, int):
        return str(v)
    if isinstance(v, str):
        return '"' + v.replace("\\", "\\\\").replace('"', '\\"') + '"'
    if isinstance(v, (list, tuple)):
        return "<<" + ", ".join(to_tla(x) for x in v) + ">>"
    if isinstance(v, (set, frozenset)):
        return "{" + ", ".join(to_tla(x) for x in sorted(v, key=repr)) + "}"
    if isinstance(v, dict):
        if not v:
            return "<<>>"
        if all(isinstance(k, str) for k in v):
            return "[" + ", ".join("%s |-> %s" % (k, to_tla(x)) for k, x in v.items()) + "]"
        return "(" + " @@ ".join("%s :> %s" % (to_tla(k), to_tla(x)) for k, x in v.items()) + ")"
    try:  # numpy scalars / arrays
        import numpy as np

        if isinstance(v, np.bool_):
            return "TRUE" if v else "FALSE"
        if isinstance(v, np.integer):
            return str(int(v))
        if isinstance(v, np.ndarray):
            return to_tla(v.tolist())
    except ImportError:
        pass
    raise TypeError(type(v))
