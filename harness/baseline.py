"""Run the repository's pinned baseline (guard OFF) and compare with BASELINE.json."""
import json
import os
import subprocess
import sys
import tempfile
import xml.etree.ElementTree as ET


def main():
    base = json.load(open("/root/.vp/BASELINE.json"))
    want = set(base["stable_pass"])
    env = {k: v for k, v in os.environ.items() if k != "PHONOPY_VERIF"}
    with tempfile.TemporaryDirectory() as td:
        xml = os.path.join(td, "r.xml")
        cmd = base["cmd"].replace("<file>", xml)
        subprocess.run(cmd, shell=True, env=env, stdout=subprocess.DEVNULL, stderr=subprocess.DEVNULL)
        passed = set()
        for tc in ET.parse(xml).getroot().iter("testcase"):
            if not any(c.tag in ("failure", "error", "skipped") for c in tc):
                passed.add("%s::%s" % (tc.get("classname"), tc.get("name")))
    missing = sorted(want - passed)
    print("baseline: %d/%d stable tests pass" % (len(want & passed), len(want)))
    for m in missing:
        print("  NOT PASSING:", m)
    return 1 if missing else 0


if __name__ == "__main__":
    sys.exit(main())
