"""Print the markdown table of seeded changes (DESIGN.md 11.5) from seeded/*/meta.json and seeded/RESULTS.json."""
import json
import os

VERIF = os.path.dirname(os.path.dirname(os.path.abspath(__file__)))


def main():
    sd = os.path.join(VERIF, "seeded")
    res = json.load(open(os.path.join(sd, "RESULTS.json")))
    hist = json.load(open(os.path.join(sd, "HISTORY.json"))) if os.path.exists(os.path.join(sd, "HISTORY.json")) else {}
    print("| seed | property | change (file) | needs to manifest | first run | now | detected by |")
    print("|---|---|---|---|---|---|---|")
    for sid in sorted(x for x in os.listdir(sd) if os.path.isdir(os.path.join(sd, x))):
        m = json.load(open(os.path.join(sd, sid, "meta.json")))
        r = res.get(sid, {})
        now = "; ".join("%s %s" % (k, "detected" if v["detected"] else "MISSED") for k, v in r.items())
        by = "; ".join((v.get("first") or [""])[0][:110] for v in r.values() if v["detected"])
        first = hist.get(sid, "detected" if all(v["detected"] for v in r.values()) else "missed")
        files = ", ".join(os.path.basename(f) for f in m.get("files", []))
        print("| %s | %s | %s (%s) | %s | %s | %s | %s |" % (sid, m["property"], str(m.get("title", ""))[:90], files,
                                                          str(m.get("needs", ""))[:160].replace("|", "/"), first, now, by.replace("|", "/")))


if __name__ == "__main__":
    main()
