"""X07(c): API histories - TLC enumerates / simulates them (spec/BandApi.tla) with the observation the requirement
demands after every step; the driver replays them on real Phonopy objects (harness/x07_api.py)."""
from __future__ import annotations

import json

import numpy as np

from harness import tlc as tlcmod
from harness import tla_values

BASE8 = """Base == [segs |-> "A", ev |-> FALSE, gv |-> FALSE, bc |-> FALSE, legacy |-> FALSE, lab |-> "none", conn |-> "none"]
MCCfgs == {Base, [Base EXCEPT !.ev = TRUE, !.lab = "ok", !.conn = "given"],
           [Base EXCEPT !.segs = "C", !.gv = TRUE, !.lab = "ok", !.conn = "given"],
           [Base EXCEPT !.segs = "C", !.bc = TRUE, !.lab = "more", !.conn = "given"],
           [Base EXCEPT !.segs = "B", !.legacy = TRUE, !.lab = "ok"],
           [Base EXCEPT !.segs = "D", !.ev = TRUE, !.lab = "ok", !.conn = "given"],
           [Base EXCEPT !.segs = "D", !.legacy = TRUE, !.gv = TRUE],
           [Base EXCEPT !.segs = "C", !.lab = "ok"]}
"""
INVS = "INVARIANT InvAnswersFromLastRun\nINVARIANT InvLabelBudget\nINVARIANT InvPanels\nINVARIANT Emit\n"


def unfreeze(x):
    if isinstance(x, dict):
        return {k: unfreeze(v) for k, v in x.items()}
    if isinstance(x, (list, tuple)):
        return [unfreeze(v) for v in x]
    return x


def sessions(stdout):
    out, seen = [], set()
    head = '"<<\\"SES\\"'
    for line in stdout.splitlines():
        if line.startswith(head):
            _, start, hist, obs = tla_values.parse_value(json.loads(line))
            s = dict(start=bool(start), hist=unfreeze(hist), expect=unfreeze(obs))
            key = json.dumps(s, sort_keys=True)
            if key not in seen:
                seen.add(key)
                out.append(s)
    return out


def plan(ctx):
    mc = "---- MODULE MC_BandApi ----\nEXTENDS BandApi\n%s====\n" % BASE8
    cfg = "INIT Init\nNEXT Next\nCONSTANTS\n Cfgs <- MCCfgs\n Depth = 3\n Starts = {TRUE, FALSE}\nCHECK_DEADLOCK FALSE\n" + INVS
    res = ctx.tlc("MC_BandApi", cfg_text=cfg, extra_files={"MC_BandApi.tla": mc}, requirement=True, workers=2, extra_args=("-nowarning",),
                  what="the band-structure object machine does not answer from the last successful run")
    ses = sessions(res.stdout)
    if len(ses) != 2 * 14 ** 3:
        raise tlcmod.MachineryError("x07: BandApi emitted %d histories (expected %d)" % (len(ses), 2 * 14 ** 3))
    ses.sort(key=lambda s: json.dumps(s, sort_keys=True))
    rng = np.random.default_rng(3000 + ctx.seed)
    if ctx.quick:
        # mostly histories in which a call follows a run (the others only show refusals)
        def useful(s_):
            ops = [o["op"] for o in s_["hist"]]
            return "run" in ops and any(o not in ("run", "setfc") for o in ops[ops.index("run") + 1:])
        good = [s_ for s_ in ses if useful(s_)]
        rest = [s_ for s_ in ses if not useful(s_)]
        ses = [good[i] for i in sorted(rng.choice(len(good), size=min(340, len(good)), replace=False).tolist())] + \
              [rest[i] for i in sorted(rng.choice(len(rest), size=80, replace=False).tolist())]
    # every getter after a run of a random slice of ALL option combinations (depth 2, exhaustive over the slice)
    nsub = 40 if ctx.quick else 160
    allcfgs = [dict(segs=sg, ev=ev, gv=gv, bc=bc, legacy=lg, lab=lab, conn=cn) for sg in "ABCD" for ev in (False, True) for gv in (False, True)
               for bc in (False, True) for lg in (False, True) for lab in ("none", "ok", "more", "less") for cn in ("none", "given")]
    pick = sorted(rng.choice(len(allcfgs), size=nsub, replace=False).tolist())
    mc2 = "---- MODULE MC_BandApi ----\nEXTENDS BandApi\nMCCfgs == %s\n====\n" % ("{" + ", ".join(tla_values.to_tla(allcfgs[i]) for i in pick) + "}")
    cfg2 = "INIT Init\nNEXT Next\nCONSTANTS\n Cfgs <- MCCfgs\n Depth = 2\n Starts = {TRUE}\nCHECK_DEADLOCK FALSE\n" + INVS
    res2 = ctx.tlc("MC_BandApi", cfg_text=cfg2, extra_files={"MC_BandApi.tla": mc2}, requirement=True, workers=2, extra_args=("-nowarning",),
                   what="the band-structure object machine does not answer from the last successful run (all option combinations)")
    ses2 = [s for s in sessions(res2.stdout) if s["hist"][0]["op"] == "run" and s["hist"][1]["op"] not in ("setfc", "run")]
    ses2.sort(key=lambda s: json.dumps(s, sort_keys=True))
    want2 = 300 if ctx.quick else 3000
    if len(ses2) > want2:
        pick2 = sorted(rng.choice(len(ses2), size=want2, replace=False).tolist())
        ses2 = [ses2[i] for i in pick2]
    if len(ses2) < 5 * nsub:
        raise tlcmod.MachineryError("x07: BandApi (all configurations) emitted only %d histories" % len(ses2))
    cases = []
    worlds = ["cscl", "tric", "naclF"]
    for k, s in enumerate(ses + ses2):
        cases.append(dict(id=k + 1, world=worlds[(k + ctx.seed) % 3], start=s["start"], hist=s["hist"], expect=s["expect"],
                          exhaustive=k < len(ses)))
    ctx.extra["api_histories"] = dict(depth3_over_8_configurations=len(ses), run_then_call_over_slice_of_all_configurations=len(ses2))
    return cases, []


def same(exp, got):
    if exp["kind"] == "raises":
        return got["kind"] in ("raises", "RuntimeError")
    if exp["kind"] != got["kind"]:
        return False
    return all(got.get(k) == v for k, v in exp.items())


def validate(ctx, api_events, h5_events, api_cases, h5_cases):
    bycase = {c["id"]: c for c in api_cases}
    groups = {}
    nsteps = 0
    kinds = {}
    for e in api_events:
        c = bycase[e["id"]]
        ctx.count(("api", c["world"], c["start"], json.dumps(c["hist"], sort_keys=True)))
        for k, (exp, got) in enumerate(zip(c["expect"], e["got"])):
            nsteps += 1
            kinds[exp["kind"]] = kinds.get(exp["kind"], 0) + 1
            if not same(exp, got):
                op = c["hist"][k]["op"]
                groups.setdefault("api:%s:%s" % (op, exp["kind"]), []).append(dict(crystal=c["world"], starts_with_force_constants=c["start"],
                                                                                 history=c["hist"][:k + 1], step=k + 1, expected=exp, observed=got))
                break
    for key, lst in sorted(groups.items()):
        ctx.violation(key, "replay of a BandApi.tla history: the real Phonopy object answers differently at operation '%s' (%d histories)"
                      % (key.split(":")[1], len(lst)), dict(histories=len(lst), witnesses=lst[:3]))
    ctx.extra.setdefault("api_histories", {}).update(replayed=len(api_events), steps_compared=nsteps, expected_kinds=kinds,
                                                      diverging=sum(len(v) for v in groups.values()))
    need = {"dict", "tuple", "yaml", "h5", "plot", "RuntimeError", "raises", "ok"}
    if api_events and not need <= set(kinds):
        raise tlcmod.MachineryError("x07: API histories never expect %s" % sorted(need - set(kinds)))
    if api_cases:
        c = api_cases[len(api_cases) // 2]
        ctx.sample(dict(api_history=dict(start_with_fc=c["start"], hist=c["hist"], expect=c["expect"])))
