"""C18 workflow level, plumbing: run the real commands in a scratch directory, write
calculator inputs / outputs by hand (no phonopy writer involved), parse what the
commands wrote (own parsers, yaml/h5py only)."""
from __future__ import annotations

import contextlib
import hashlib
import io
import os
import sys

import numpy as np

from harness import bootstrap  # noqa: F401

from phonopy.cui.phonopy_script import main as phonopy_main

CONTROL = {
    "phonopy": {"fc_symmetry": False, "is_nac": False, "load_phonopy_yaml": False},
    "load": {"fc_symmetry": True, "is_nac": True, "load_phonopy_yaml": True},
}


def _snapshot(d):
    snap = {}
    for root, _, files in os.walk(d):
        for f in files:
            p = os.path.join(root, f)
            stt = os.stat(p)
            snap[os.path.relpath(p, d)] = (stt.st_mtime_ns, stt.st_size, stt.st_ino)
    return snap


def run_cli(cmd, argv, cwd):
    """The command exactly as phonopy/scripts/phonopy.py / phonopy_load.py start it.
    Returns dict(code, exc, stdout, written=[files created or changed])."""
    before = _snapshot(cwd)
    old_cwd, old_argv = os.getcwd(), sys.argv
    out = io.StringIO()
    code, exc = None, None
    os.chdir(cwd)
    sys.argv = ["phonopy-load" if cmd == "load" else "phonopy"] + [str(a) for a in argv]
    try:
        with contextlib.redirect_stdout(out), contextlib.redirect_stderr(out):
            try:
                phonopy_main(**CONTROL[cmd])
                code = 0
            except SystemExit as e:
                code = e.code if isinstance(e.code, int) else (0 if e.code is None else 1)
            except Exception as e:  # noqa: BLE001 - a crash of the command is an observation
                import traceback

                exc = "%s: %s" % (type(e).__name__, e)
                out.write(traceback.format_exc())
                code = -1
    finally:
        os.chdir(old_cwd)
        sys.argv = old_argv
    after = _snapshot(cwd)
    written = sorted(f for f in after if before.get(f) != after[f])
    return dict(code=code, exc=exc, stdout=out.getvalue(), written=written)


# ---- calculator inputs / outputs written by hand ---------------------------------------------
CALCS = {
    # name: (option, unit cell file, supercell prefix)
    "vasp": dict(opt=[], cell="POSCAR-unitcell", cellopt=True),
    "qe": dict(opt=["--qe"], cell="unitcell.in", cellopt=True),
    "abinit": dict(opt=["--abinit"], cell="unitcell.in", cellopt=True),
}


MASS = {"Na": 22.98976928, "Cl": 35.453, "Si": 28.0855, "O": 15.9994}  # standard atomic weights


def _f(x):
    return "%.17g" % x


def write_cell(calc, path, lattice, symbols, scaled):
    """Unit cell in the calculator's input format; numbers with 17 significant digits."""
    species = []
    for s in symbols:
        if s not in species:
            species.append(s)
    L = np.array(lattice)
    with open(path, "w") as f:
        if calc == "vasp":
            order = [i for sp in species for i, s in enumerate(symbols) if s == sp]
            assert order == list(range(len(symbols))), "POSCAR needs grouped species"
            f.write("generated\n1.0\n")
            for v in L:
                f.write(" ".join(_f(x) for x in v) + "\n")
            f.write(" ".join(species) + "\n")
            f.write(" ".join(str(sum(1 for s in symbols if s == sp)) for sp in species) + "\n")
            f.write("Direct\n")
            for p in scaled:
                f.write(" ".join(_f(x) for x in p) + "\n")
        elif calc == "qe":
            f.write("&control\n calculation = 'scf'\n/\n&system\n ibrav = 0\n nat = %d\n ntyp = %d\n/\n"
                    % (len(symbols), len(species)))
            f.write("CELL_PARAMETERS bohr\n")
            for v in L:
                f.write(" ".join(_f(x) for x in v) + "\n")
            f.write("ATOMIC_SPECIES\n")
            for sp in species:
                f.write(" %s %s %s.UPF\n" % (sp, _f(MASS[sp]), sp))
            f.write("ATOMIC_POSITIONS crystal\n")
            for s, p in zip(symbols, scaled):
                f.write(" %s %s\n" % (s, " ".join(_f(x) for x in p)))
        elif calc == "abinit":
            znucl = {"Na": 11, "Cl": 17, "Si": 14, "O": 8}
            f.write("acell 1.0 1.0 1.0\n")
            f.write("rprim\n")
            for v in L:
                f.write(" " + " ".join(_f(x) for x in v) + "\n")
            f.write("natom %d\nntypat %d\n" % (len(symbols), len(species)))
            f.write("typat " + " ".join(str(species.index(s) + 1) for s in symbols) + "\n")
            f.write("znucl " + " ".join(str(znucl[s]) for s in species) + "\n")
            f.write("xred\n")
            for p in scaled:
                f.write(" " + " ".join(_f(x) for x in p) + "\n")
        else:
            raise ValueError(calc)


def write_forces(calc, path, lattice, scaled, forces):
    """Calculator output holding the forces of one supercell (17 significant digits)."""
    with open(path, "w") as f:
        if calc == "vasp":
            f.write('<?xml version="1.0" encoding="ISO-8859-1"?>\n<modeling>\n')
            f.write(' <generator>\n  <i name="program" type="string">vasp </i>\n'
                    '  <i name="version" type="string">5.4.4  </i>\n </generator>\n')
            f.write(" <calculation>\n  <structure>\n   <crystal>\n    <varray name=\"basis\" >\n")
            for v in lattice:
                f.write("     <v> %s </v>\n" % " ".join(_f(x) for x in v))
            f.write("    </varray>\n   </crystal>\n   <varray name=\"positions\" >\n")
            for p in scaled:
                f.write("    <v> %s </v>\n" % " ".join(_f(x) for x in p))
            f.write("   </varray>\n  </structure>\n  <varray name=\"forces\" >\n")
            for v in forces:
                f.write("   <v> %s </v>\n" % " ".join(_f(x) for x in v))
            f.write("  </varray>\n  <energy>\n   <i name=\"e_fr_energy\"> -1.0 </i>\n"
                    "   <i name=\"e_wo_entrp\"> -1.0 </i>\n   <i name=\"e_0_energy\"> -1.0 </i>\n  </energy>\n")
            f.write(" </calculation>\n</modeling>\n")
        elif calc == "qe":
            f.write("     Program PWSCF v.6.0 starts\n\n     Forces acting on atoms (cartesian axes, Ry/au):\n\n")
            for i, v in enumerate(forces):
                f.write("     atom %4d type  1   force = %s\n" % (i + 1, " ".join(_f(x) for x in v)))
            f.write("\n     Total force =     0.000000     Total SCF correction =     0.000000\n")
        elif calc == "abinit":
            f.write(" cartesian forces (hartree/bohr) at end:\n")
            for i, v in enumerate(forces):
                f.write(" %4d %s\n" % (i + 1, " ".join(_f(x / 51.42208619083232) for x in v)))
            f.write(" frms,max,avg= 0 0 0 h/b\n\n cartesian forces (eV/Angstrom) at end:\n")
            for i, v in enumerate(forces):
                f.write(" %4d %s\n" % (i + 1, " ".join(_f(x) for x in v)))
            f.write(" frms,max,avg= 0 0 0 e/A\n")
        else:
            raise ValueError(calc)


def write_born(path, eps, born_indep, factor=None):
    """BORN file: dielectric tensor and Born charges of the symmetry-independent atoms."""
    with open(path, "w") as f:
        f.write("# epsilon and Z* of atoms\n" if factor is None else "%s\n" % _f(factor))
        f.write(" ".join(_f(x) for x in np.ravel(eps)) + "\n")
        for z in born_indep:
            f.write(" ".join(_f(x) for x in np.ravel(z)) + "\n")


# ---- parsers of what the commands write -------------------------------------------------------
def load_yaml(path):
    import yaml

    with open(path) as f:
        return yaml.load(f, Loader=getattr(yaml, "CSafeLoader", yaml.SafeLoader))


def parse_force_sets(path):
    """FORCE_SETS type 1 -> (natom, [(atom (0-based), displacement, forces)])."""
    with open(path) as f:
        toks = [l.split() for l in f if l.strip() and not l.lstrip().startswith("#")]
    natom = int(toks[0][0])
    ndisp = int(toks[1][0])
    pos = 2
    out = []
    for _ in range(ndisp):
        atom = int(toks[pos][0]) - 1
        disp = [float(x) for x in toks[pos + 1]]
        forces = [[float(x) for x in toks[pos + 2 + k]] for k in range(natom)]
        out.append((atom, disp, forces))
        pos += 2 + natom
    return natom, out


def parse_force_constants(path):
    """FORCE_CONSTANTS text -> (shape, p2s or None, array)."""
    with open(path) as f:
        lines = [l.split() for l in f if l.strip()]
    head = [int(x) for x in lines[0]]
    n1, n2 = (head[0], head[0]) if len(head) == 1 else head
    fc = np.zeros((n1, n2, 3, 3))
    rows = []
    pos = 1
    for i in range(n1):
        for j in range(n2):
            a, b = int(lines[pos][0]), int(lines[pos][1])
            if j == 0:
                rows.append(a - 1)
            assert b == j + 1
            fc[i, j] = [[float(x) for x in lines[pos + 1 + k]] for k in range(3)]
            pos += 4
    return fc, rows


def parse_dat(path):
    with open(path) as f:
        rows = [[float(x) for x in l.split()] for l in f if l.strip() and not l.lstrip().startswith("#")]
    return np.array(rows)


def read_hdf5(path):
    import h5py

    out = {}
    with h5py.File(path, "r") as f:
        for k in f:
            out[k] = f[k][()]
    return out


def decimals(text, key):
    """Number of decimals with which the values of `key` are printed in a yaml text
    (the file's printed precision); None if the key does not occur."""
    import re

    m = re.search(re.escape(key) + r":\s*(?:\n\s*-\s*(?:#[^\n]*\n\s*-\s*)?)?\[?\s*-?\d+\.(\d+)", text)
    return len(m.group(1)) if m else None


def dat_decimals(path):
    import re

    with open(path) as f:
        for l in f:
            if l.strip() and not l.lstrip().startswith("#"):
                return min(len(x) for x in re.findall(r"\.(\d+)", l))
    return None


def run_script(module, argv, cwd):
    """One of the other console scripts (phonopy.scripts.<module>.run) exactly as its entry point
    starts it.  Returns dict(code, exc, stdout, written)."""
    import importlib

    mod = importlib.import_module("phonopy.scripts." + module)
    before = _snapshot(cwd)
    old_cwd, old_argv = os.getcwd(), sys.argv
    out = io.StringIO()
    code, exc = None, None
    os.chdir(cwd)
    sys.argv = [module.replace("_", "-")] + [str(a) for a in argv]
    try:
        with contextlib.redirect_stdout(out), contextlib.redirect_stderr(out):
            try:
                mod.run()
                code = 0
            except SystemExit as e:
                code = e.code if isinstance(e.code, int) else (0 if e.code is None else 1)
            except Exception as e:  # noqa: BLE001
                import traceback

                exc = "%s: %s" % (type(e).__name__, e)
                out.write(traceback.format_exc())
                code = -1
    finally:
        os.chdir(old_cwd)
        sys.argv = old_argv
    after = _snapshot(cwd)
    written = sorted(f for f in after if before.get(f) != after[f])
    return dict(code=code, exc=exc, stdout=out.getvalue(), written=written)
