"""C16 - events for DatasetConvTrace.tla (type-1 -> type-2 conversion, hdf5 container) and
BornCodecTrace.tla (BORN files on the P4 reference crystal)."""
from __future__ import annotations

import contextlib
import io

import numpy as np

from harness import bootstrap  # noqa: F401

from phonopy.structure.atoms import PhonopyAtoms

ERRORS = []  # (route, repr(exception)): an exception of phonopy where success is expected - reported as violation


def guarded(route):
    """decorator-free helper: run fn(), record an exception of the code under test instead of propagating it"""
    def run(fn, *a, **k):
        try:
            return fn(*a, **k)
        except Exception as e:  # noqa: BLE001
            ERRORS.append((route, "%s: %s" % (type(e).__name__, e)))
            return None
    return run


RZ = np.array([[0, -1, 0], [1, 0, 0], [0, 0, 1]], dtype=float)
P4_LATTICE = np.diag([4.0, 4.0, 5.0])
P4_X0 = {1: np.array([0.125, 0.25, 0.125]), 2: np.array([0.375, 0.125, 0.5625])}
P4_SYMBOL = {1: "Ti", 2: "O"}
ORDERS = [
    [[1, 0], [1, 1], [1, 2], [1, 3], [2, 0], [2, 1], [2, 2], [2, 3]],
    [[2, 2], [1, 1], [2, 0], [1, 3], [1, 0], [2, 3], [1, 2], [2, 1]],
    [[1, 3], [2, 1], [1, 2], [2, 0], [1, 1], [2, 3], [1, 0], [2, 2]],
]


def p4_cell(order):
    pos, sym = [], []
    for s, k in order:
        x = np.linalg.matrix_power(RZ, k) @ P4_X0[s]  # rotation about the c axis through the origin
        pos.append(x % 1.0)
        sym.append(P4_SYMBOL[s])
    return PhonopyAtoms(symbols=sym, cell=P4_LATTICE, scaled_positions=pos)


def field(T, order):
    out = []
    for s, k in order:
        R = np.linalg.matrix_power(RZ, k)
        out.append((1 if s == 1 else -1) * (R @ T @ R.T))
    return np.array(out)


def to_units(a, unit=64):
    x = np.asarray(a, dtype=float) * unit
    r = np.rint(x)
    return r.astype(int), float(np.abs(x - r).max()) if x.size else 0.0


def born_events(rng, n, col=None):
    """-> list of BornCodecTrace events; BORN rows also go to the text collector."""
    from phonopy import Phonopy
    from phonopy.file_IO import get_BORN_lines, parse_BORN_from_strings
    events = []
    for it in range(n):
        r = guarded("BORN")(_born_one, rng, it, col)
        if r is not None:
            events.append(r)
    return events


def _born_one(rng, it, col):
    from phonopy import Phonopy
    from phonopy.file_IO import get_BORN_lines, parse_BORN_from_strings
    events = []
    if True:
        order = ORDERS[it % len(ORDERS)]
        cell = p4_cell(order)
        T = rng.integers(-128, 129, size=(3, 3))
        e1, e3 = int(rng.integers(64, 400)), int(rng.integers(64, 400))
        eps = np.diag([e1, e1, e3]) / 64.0
        borns = field(T / 64.0, order)
        with contextlib.redirect_stdout(io.StringIO()):
            prim = Phonopy(cell).primitive
            lines = get_BORN_lines(cell, borns, eps)
            nac = parse_BORN_from_strings("\n".join(lines), prim)
        hdr = lines[0].split()
        listed = [int(x) for x in hdr[hdr.index("atoms") + 1:]] if "atoms" in hdr else []
        nums = [[float(x) for x in ln.split()] for ln in lines[1:]]
        resid = 0.0
        epsW, r = to_units(np.reshape(nums[0], (3, 3)) if len(nums[0]) == 9 else np.zeros((3, 3)))
        resid = max(resid, r)
        rows = []
        for v in nums[1:]:
            m, r = to_units(np.reshape(v, (3, 3)) if len(v) == 9 else np.zeros((3, 3)))
            rows.append(m.tolist())
            resid = max(resid, r)
        if nac is None:
            parsed, epsB = [], [[0] * 3] * 3
            resid = 1.0
        else:
            pm, r = to_units(nac["born"])
            resid = max(resid, r)
            parsed = pm.tolist()
            eb, r = to_units(nac["dielectric"])
            resid = max(resid, r)
            epsB = eb.tolist()
        events.append(dict(gt=T.tolist(), ord=order, listed=listed, rows=rows, parsed=parsed,
                           eps0=(np.diag([e1, e1, e3])).tolist(), epsW=epsW.tolist(), epsB=epsB,
                           exact=bool(resid < 1e-6)))
        if col is not None and nac is not None:
            col.add("BORN_row", list(eps.ravel() + 0.0), lines[1], back=list(np.ravel(nac["dielectric"])), origin="BORN")
            for j, at in enumerate(listed):
                if 1 <= at <= len(order) and j + 2 < len(lines):
                    col.add("BORN_row", list(borns[at - 1].ravel() + 0.0), lines[j + 2],  # (+0.0: the sign of a zero is the code's)
                            back=list(np.ravel(nac["born"][at - 1])),
                            origin="BORN")
    return events[0]


# ----------------------------------------------------------------------------------------------
def conv_events(rng, n):
    """type-1 datasets through get_displacements_and_forces, the FORCE_SETS route and Phonopy.displacements."""
    out = []
    for it in range(n):
        r = guarded("conversion")(_conv_events, rng, 1, it)
        if r:
            out += r
    return out


def _conv_events(rng, n, it0):
    from phonopy import Phonopy
    from phonopy.file_IO import get_FORCE_SETS_lines, parse_FORCE_SETS_from_strings
    from phonopy.structure.dataset import get_displacements_and_forces
    from harness.c16_world import dyadic
    events = []
    cell = PhonopyAtoms(symbols=["Ti", "O", "O"], cell=np.diag([3.0, 3.5, 4.0]),
                        scaled_positions=[[0, 0, 0], [.5, .5, .25], [.25, .5, .75]])
    with contextlib.redirect_stdout(io.StringIO()):
        ph = Phonopy(cell, supercell_matrix=np.eye(3, dtype=int), primitive_matrix=None)
    for it in range(it0, it0 + n):
        natom = 3
        nd = int(rng.integers(1, 4))
        dtab = [dyadic(rng, (3,), 0.03, bits=7) for _ in range(2)]
        for d in dtab:
            if not d.any():
                d[0] = 0.0078125
        ftab = [dyadic(rng, (natom, 3), 0.25, bits=7) for _ in range(2)]
        mode = it % 3  # all forces, no forces, mixed (incomplete: not part of the lossless claim)
        first, real = [], []
        for i in range(nd):
            a = int(rng.integers(natom))
            dt = int(rng.integers(2))
            ft = int(rng.integers(2)) + 1 if (mode == 0 or (mode == 2 and i % 2 == 0)) else 0
            first.append(dict(atom=a + 1, d=dt + 1, f=ft))
            r = dict(number=a, displacement=dtab[dt].copy())
            if ft:
                r["forces"] = ftab[ft - 1].copy()
            real.append(r)
        t1 = dict(natom=natom, first_atoms=real)
        x = dict(natom=natom, first=first)

        def dtok(v, tol=0.0):
            if not np.any(v):
                return 0
            for k, d in enumerate(dtab):
                if np.abs(d - v).max() <= tol:
                    return k + 1
            return 99

        def ftok(v, tol=0.0):
            for k, f in enumerate(ftab):
                if np.shape(v) == f.shape and np.abs(f - v).max() <= tol:
                    return k + 1
            return 0 if not np.any(v) else 99

        def project(disps, forces, tol):
            y = dict(disp=[[dtok(disps[i][a], tol) for a in range(natom)] for i in range(len(disps))],
                     forces=[] if forces is None else [ftok(forces[i], tol) for i in range(len(forces))])
            return y

        disps, forces = get_displacements_and_forces(t1)
        view = []
        if mode != 2:
            ph.dataset = t1
            view = [[int(r[0]), dtok(np.array(r[1:4]))] for r in ph.displacements]
        events.append(dict(ek="conv", route="get_displacements_and_forces", x=x, y=project(disps, forces, 0.0), view=view,
                           obs=dict(fc=True, p2s=True, unit=True)))
        if mode == 0:
            lines = get_FORCE_SETS_lines(t1)
            d2 = parse_FORCE_SETS_from_strings("\n".join(lines) + "\n", natom=natom, to_type2=True)
            if d2 is None:
                y = dict(disp=[], forces=[])
            else:
                y = project(d2["displacements"], d2["forces"], 1e-9)
            events.append(dict(ek="conv", route="FORCE_SETS to_type2", x=x, y=y, view=[], obs=dict(fc=True, p2s=True, unit=True)))
    return events


def hdf5_events(rng, tmpdir, n):
    from harness.c16_text import hdf5_roundtrip
    events = []
    opts = [(c, comp, u) for c in (False, True) for comp in (None, "gzip", "lzf") for u in ("eV/angstrom^2", "Ry/au^2", "hartree/au^2")]
    for it in range(n):
        c, comp, u = opts[it % len(opts)]
        obs = guarded("hdf5")(hdf5_roundtrip, rng, tmpdir, c, comp, u)
        if obs is None:
            obs = dict(fc=False, p2s=False, unit=False)
        events.append(dict(ek="hdf5", route="%s/%s/%s" % ("compact" if c else "full", comp, u),
                           x=dict(natom=1, first=[]), y=dict(disp=[], forces=[]), view=[], obs=obs))
    return events
