"""C16 text layer: lines of the files written by the real code -> events of TextCodecTrace.tla.

Numbers travel as exact decimals (neg, m, k) = (-1)^neg m / 10^k with at most nine significant
digits; a line whose numbers are not of that kind (or sit on a rounding tie, or whose binary
double prints differently from its short decimal at the format's decimals) is not eligible and
is counted as skipped - the float layer (error classes in SaveLoadTrace) covers those."""
from __future__ import annotations

import re
from decimal import ROUND_HALF_EVEN, ROUND_HALF_UP, Decimal

import numpy as np
import yaml as pyyaml

from harness import bootstrap  # noqa: F401
from harness import tlc as tlcmod
from harness.tla_values import to_tla

_TABLE = None


def format_table(ctx=None):
    """per line kind: reader class and (type, decimals) of its numeric items - printed by TLC from
    TextCodec.tla (the specification is the only place where the formats are written down)."""
    global _TABLE
    if _TABLE is None:
        mc = "---- MODULE MC_TextCodecTable ----\nEXTENDS TextCodec\nASSUME PrintT(TableForHarness)\n====\n"
        cfg = "SPECIFICATION Spec\nCONSTANTS\n KindsToCheck = {}\n UsePinned = FALSE\n"
        if ctx is not None:
            res = ctx.tlc("MC_TextCodecTable", cfg_text=cfg, extra_files={"MC_TextCodecTable.tla": mc}, requirement=False,
                          workers=1, keep=True)
        else:
            res = tlcmod.run("MC_TextCodecTable", cfg_text=cfg, extra_files={"MC_TextCodecTable.tla": mc}, workers=1, keep=True)
        vals = [v for v in tlcmod.printed_values(res.stdout) if isinstance(v, dict) and "lattice" in v]
        tlcmod.cleanup(res)
        if not vals:
            raise tlcmod.MachineryError("format table not printed by TLC")
        _TABLE = {k: dict(cls=v["cls"], nums=[(t, d) for t, d in v["nums"]]) for k, v in vals[0].items()}
    return _TABLE


def dec_of(x):
    """float/int -> (neg, m, k) or None if it needs more than nine significant digits."""
    if isinstance(x, (int, np.integer)):
        x = int(x)
        if abs(x) >= 10 ** 9:
            return None
        return dict(neg=x < 0, m=abs(x), k=0)
    x = float(x)
    if not np.isfinite(x):
        return None
    neg = bool(np.signbit(x))
    D = Decimal(repr(abs(x)))
    sign, digits, exp = D.as_tuple()
    m = int("".join(map(str, digits)))
    if m == 0:
        return dict(neg=neg, m=0, k=0)
    if exp > 0:
        m *= 10 ** exp
        exp = 0
    k = -exp
    while k > 0 and m % 10 == 0:
        m //= 10
        k -= 1
    if m >= 10 ** 9 or k > 9:
        return None
    return dict(neg=neg, m=m, k=k)


def eligible(x, dec, t, d):
    """the binary double prints, at d decimals, the digits of its short decimal (no tie, no binary tail)."""
    if dec is None:
        return False
    if t == "I":
        return dec["k"] == 0
    m, k = dec["m"], dec["k"]
    if k > d and 2 * (m % 10 ** (k - d)) == 10 ** (k - d):
        return False
    v = Decimal(m).scaleb(-k)
    q = Decimal(1).scaleb(-d)
    a = Decimal(abs(float(x))).quantize(q, rounding=ROUND_HALF_EVEN)
    b = v.quantize(q, rounding=ROUND_HALF_UP)
    return a == b


def back_of(x):
    d = dec_of(x) if (x is not None and x is not MISSING) else None
    if d is None:
        return dict(ok=False, v=dict(neg=False, m=0, k=0))
    return dict(ok=True, v=d)


class _Missing:
    """a number that was written, whose section was read back from the file, but that is not there after loading"""


MISSING = _Missing()


class Collector:
    def __init__(self, table):
        self.table = table
        self.events = []
        self.skipped = {}
        self.bykind = {}
        self.seen = {}

    def add(self, kind, vals, text, back=None, tag="", origin="", fs="ok"):
        nums = self.table[kind]["nums"]
        self.seen[kind] = self.seen.get(kind, 0) + 1
        if len(vals) != len(nums):
            # the line does not have the shape the grammar says: let TLC see it (ImplTokens fails)
            decs = [dec_of(v) or dict(neg=False, m=0, k=0) for v in vals][:len(nums)]
            while len(decs) < len(nums):
                decs.append(dict(neg=False, m=0, k=0))
        else:
            decs = [dec_of(v) for v in vals]
            if not all(eligible(v, dc, t, d) for v, dc, (t, d) in zip(vals, decs, nums)):
                self.skipped[kind] = self.skipped.get(kind, 0) + 1
                return False
        ev = dict(lk=kind, vs=decs, tg=tag, tx=text,
                  bk=[] if back is None else [back_of(b) for b in back], org=origin, fs=fs)
        self.events.append(ev)
        self.bykind[kind] = self.bykind.get(kind, 0) + 1
        return True


# ----------------------------------------------------------------------------------------------
# phonopy.yaml
CELLKEYS = {"unit_cell": "unitcell", "primitive_cell": "primitive", "supercell": "supercell"}


def _leaves(node, path=()):
    if isinstance(node, pyyaml.ScalarNode):
        yield path, node
    elif isinstance(node, pyyaml.SequenceNode):
        for i, ch in enumerate(node.value):
            yield from _leaves(ch, path + (i,))
    elif isinstance(node, pyyaml.MappingNode):
        for k, v in node.value:
            yield from _leaves(v, path + (k.value,))


def _get(arr, idx):
    try:
        x = arr
        for i in idx:
            x = x[i]
        return x
    except Exception:
        return None


def yaml_events(col, text, ph, ph2, obs, origin="", cap=None, rng=None, cells_from_file=True, same_order=True):
    """one event per numeric line of the saved file; values from the saved object by YAML path,
    `back` from the reloaded object where that field was loaded from the file."""
    root = pyyaml.compose(text, Loader=getattr(pyyaml, "CSafeLoader", pyyaml.SafeLoader))
    lines = text.split("\n")
    ok2 = ph2 is not None and cells_from_file  # (cells given by argument are not read from the file)

    def cellof(p, key):
        if p is ph2 and key == "supercell" and not same_order:
            return None  # reloaded supercell in another atom order: ReqAtomOrder of SaveLoad.tla, not a text matter
        return getattr(p, CELLKEYS[key]) if p is not None else None

    from harness.c16_world import disp_forces
    d1 = ph.dataset
    d2 = ph2.dataset if ph2 is not None and obs["ds"]["src"] == "yaml" else None
    fc1 = ph.force_constants
    fc2 = ph2.force_constants if ph2 is not None and obs["fc"]["src"] == "yaml" else None
    if fc2 is not None and fc1 is not None and fc2.shape != fc1.shape:
        fc2 = None  # layout converted on load: compared in the float layer through the conversion
    nac1 = ph.nac_params
    nac2 = ph2.nac_params if ph2 is not None and obs["nac"]["src"] == "yaml" else None

    def resolve(path):
        """-> (kind, value in saved object, value in reloaded object or None)"""
        p0 = path[0]
        if p0 == "supercell_matrix" and len(path) == 3:
            return "smat", _get(ph.supercell_matrix, path[1:]), _get(ph2.supercell_matrix, path[1:]) if ok2 else None
        if p0 == "primitive_matrix" and len(path) == 3:
            return "pmat", _get(ph.primitive_matrix, path[1:]), _get(ph2.primitive_matrix, path[1:]) if ok2 else None
        if p0 in CELLKEYS:
            c1, c2 = cellof(ph, p0), cellof(ph2, p0) if ok2 else None
            if path[1] == "lattice" and len(path) == 4:
                return "lattice", _get(c1.cell, path[2:]), _get(c2.cell, path[2:]) if c2 is not None else None
            if path[1] == "points" and len(path) >= 4:
                a, f = path[2], path[3]
                if f == "coordinates" and len(path) == 5:
                    return "coords", c1.scaled_positions[a][path[4]], c2.scaled_positions[a][path[4]] if c2 is not None else None
                if f == "mass":
                    return "mass", c1.masses[a], c2.masses[a] if c2 is not None else None
                if f == "magnetic_moment":
                    m1 = c1.magnetic_moments
                    m2 = c2.magnetic_moments if c2 is not None else None
                    if len(path) == 4:
                        return "mag", m1[a], m2[a] if m2 is not None else None
                    return "magv", m1[a][path[4]], m2[a][path[4]] if m2 is not None else None
            return None
        if p0 == "nac":
            if path[1] == "born_effective_charge" and len(path) == 5:
                return "born", _get(nac1["born"], path[2:]), _get(nac2["born"], path[2:]) if nac2 else None
            if path[1] == "dielectric_constant" and len(path) == 4:
                return "eps", _get(nac1["dielectric"], path[2:]), _get(nac2["dielectric"], path[2:]) if nac2 else None
            if path[1] == "unit_conversion_factor":
                return "nacfactor", nac1["factor"], nac2.get("factor") if nac2 else None
            return None
        if p0 == "phonopy" and path[1] == "frequency_unit_conversion_factor":
            return "freqfactor", ph.unit_conversion_factor, None
        if p0 == "displacements" and len(path) >= 3:
            n, f = path[1], path[2]
            fa1 = d1["first_atoms"][n]
            fa2 = d2["first_atoms"][n] if d2 is not None and "first_atoms" in d2 else None
            if f == "atom":
                return "t1atom", fa1["number"] + 1, fa2["number"] + 1 if fa2 else None
            if f == "displacement" and len(path) == 4:
                return "t1disp", fa1["displacement"][path[3]], fa2["displacement"][path[3]] if fa2 else None
            if f == "forces" and len(path) == 5:
                return "t1force", _get(fa1["forces"], path[3:]), \
                    (_get(fa2["forces"], path[3:]) if "forces" in fa2 else MISSING) if fa2 else None
            if f == "supercell_energy":
                return "t1energy", fa1["supercell_energy"], fa2.get("supercell_energy", MISSING) if fa2 else None
            return None
        if p0 == "dataset":
            key = path[1]
            if key in ("displacements", "forces") and len(path) == 5:
                return "t2row", _get(d1[key], path[2:]), \
                    (_get(d2[key], path[2:]) if key in d2 else MISSING) if d2 is not None else None
            if key == "supercell_energies" and len(path) == 3:
                return "t2energy", d1[key][path[2]], \
                    ((d2[key][path[2]] if len(d2[key]) > path[2] else MISSING) if key in d2 else MISSING) if d2 is not None else None
            return None
        if p0 == "force_constants":
            if path[1] == "shape" and len(path) == 3:
                return "fcshape", fc1.shape[path[2]], fc2.shape[path[2]] if fc2 is not None else None
            if path[1] == "elements" and len(path) == 5:
                b = path[2]
                return "fcrow", fc1.reshape(-1, 3, 3)[b][path[3]][path[4]], \
                    fc2.reshape(-1, 3, 3)[b][path[3]][path[4]] if fc2 is not None else None
            return None
        return None

    groups = {}
    order = []
    for path, node in _leaves(root):
        if not path or not isinstance(path[0], str):
            continue
        try:
            r = resolve(path)
        except (KeyError, IndexError, TypeError):
            r = ("__shape__", None, None)
        if r is None:
            continue
        kind, v1, v2 = r
        key = (node.start_mark.line, kind)
        if key not in groups:
            groups[key] = []
            order.append(key)
        groups[key].append((v1, v2))
    if cap is not None:
        # at most `cap` lines of every kind per file (chosen by the seed), to bound the TLC run
        bk = {}
        for key in order:
            bk.setdefault(key[1], []).append(key)
        keep = set()
        for kind, keys in bk.items():
            if len(keys) > cap:
                idx = rng.choice(len(keys), size=cap, replace=False)
                keys = [keys[i] for i in idx]
            keep.update(keys)
        # lines of scalar fields holding the value class {0.0, -0.0, prints-as-zero} are always judged
        for key in order:
            if key[1] in ("t1energy", "t2energy", "nacfactor") and any(
                    a is not None and not isinstance(a, str) and abs(float(a)) < 1e-8 for a, _ in groups[key]):
                keep.add(key)
        order = [k for k in order if k in keep]
    for (ln, kind) in order:
        if kind == "__shape__":
            col.skipped["__shape__"] = col.skipped.get("__shape__", 0) + 1
            continue
        vs = [a for a, _ in groups[(ln, kind)]]
        bs = [b for _, b in groups[(ln, kind)]]
        if any(v is None for v in vs):
            col.skipped[kind] = col.skipped.get(kind, 0) + 1
            continue
        txt = lines[ln]
        tag = ""
        if kind in ("lattice", "t2energy") and " # " in txt:
            tag = txt.split(" # ", 1)[1]
        col.add(kind, vs, txt, back=None if any(b is None for b in bs) else bs, tag=tag, origin=origin)


# ----------------------------------------------------------------------------------------------
# FORCE_SETS, FORCE_CONSTANTS, BORN
BIG = [99999.5, -12345.25, 100000.25, -100000.5, 1234567.75, -999999.5, 10000.125]
SMALL = [1e-9, -1e-9, 0.123456789, -0.987654321, 0.03125, 0.0, -0.0, 1.0, -1.5]


def pick_values(rng, shape, big):
    from harness.c16_world import dyadic
    a = dyadic(rng, shape, 0.5, bits=8)
    flat = a.reshape(-1)
    n = flat.size
    for i in rng.choice(n, size=max(1, n // 5), replace=False):
        flat[i] = SMALL[rng.integers(len(SMALL))]
    if big:
        for i in rng.choice(n, size=max(1, n // 6), replace=False):
            flat[i] = BIG[rng.integers(len(BIG))]
    return a


def force_sets_events(col, rng, big, natom=3, nd=2):
    """returns the list of (codec, status) file outcomes."""
    try:
        return _force_sets_events(col, rng, big, natom, nd)
    except Exception as e:  # the WRITER (or this grammar walk on its output) failed
        return [("FORCE_SETS" + ("/big" if big else ""), "write-raised:%s: %s" % (type(e).__name__, e))]


def _force_sets_events(col, rng, big, natom=3, nd=2):
    from phonopy.file_IO import get_FORCE_SETS_lines, parse_FORCE_SETS_from_strings
    from harness.c16_world import dyadic
    out = []
    # type 1
    fa = []
    for i in range(nd):
        fa.append(dict(number=int(rng.integers(natom)), displacement=dyadic(rng, (3,), 0.03, bits=7),
                       forces=pick_values(rng, (natom, 3), big)))
    ds = dict(natom=natom, first_atoms=fa)
    lines = get_FORCE_SETS_lines(ds)
    status, back = "ok", None
    try:
        back = parse_FORCE_SETS_from_strings("\n".join(lines) + "\n", natom=natom)
        if back is None or "first_atoms" not in back or len(back["first_atoms"]) != nd:
            status, back = "wrong-structure", None
    except Exception as e:
        status = "raised:" + type(e).__name__
    out.append(("FORCE_SETS/1" + ("/big" if big else ""), status))
    body = [ln for ln in lines if ln.strip() != ""]
    exp = [("FS1_int", [natom], None), ("FS1_int", [nd], None)]
    for i, d in enumerate(fa):
        b = back["first_atoms"][i] if back else None
        exp.append(("FS1_int", [d["number"] + 1], [b["number"] + 1] if b else None))
        exp.append(("FS1_disp", list(d["displacement"]), list(b["displacement"]) if b else None))
        for a in range(natom):
            exp.append(("FS1_force", list(d["forces"][a]), list(b["forces"][a]) if b else None))
    if len(body) != len(exp):
        out.append(("FORCE_SETS/1/layout", "lines=%d expected=%d" % (len(body), len(exp))))
    if back is not None:
        exp[0] = ("FS1_int", [natom], [back["natom"]])
        exp[1] = ("FS1_int", [nd], [len(back["first_atoms"])])
    for n, ((kind, vs, bk), txt) in enumerate(zip(exp, body)):
        col.add(kind, vs, txt, back=bk if back is not None else None, origin="FORCE_SETS/1" + ("/big" if big else ""),
                fs=status if n == 0 else "ok")
    # type 2
    disp = dyadic(rng, (nd, natom, 3), 0.03, bits=7)
    frc = pick_values(rng, (nd, natom, 3), big)
    lines = get_FORCE_SETS_lines(dict(displacements=disp, forces=frc))
    status, back = "ok", None
    try:
        back = parse_FORCE_SETS_from_strings("\n".join(lines) + "\n", natom=natom)
        if back is None or "forces" not in back or np.shape(back["forces"]) != frc.shape:
            status, back = "wrong-structure", None
    except Exception as e:
        status = "raised:" + type(e).__name__
    out.append(("FORCE_SETS/2" + ("/big" if big else ""), status))
    if len(lines) != nd * natom:
        out.append(("FORCE_SETS/2/layout", "lines=%d expected=%d" % (len(lines), nd * natom)))
    for r, txt in enumerate(lines[:nd * natom]):
        i, a = divmod(r, natom)
        vs = list(disp[i, a]) + list(frc[i, a])
        bk = (list(back["displacements"][i, a]) + list(back["forces"][i, a])) if back is not None else None
        col.add("FS2_row", vs, txt, back=bk, origin="FORCE_SETS/2" + ("/big" if big else ""), fs=status if r == 0 else "ok")
    return out


def force_constants_events(col, rng, big, compact, tmpdir):
    try:
        return _force_constants_events(col, rng, big, compact, tmpdir)
    except Exception as e:
        return [("FORCE_CONSTANTS/" + ("compact" if compact else "full") + ("/big" if big else ""),
                 "write-raised:%s: %s" % (type(e).__name__, e))]


def _force_constants_events(col, rng, big, compact, tmpdir):
    import os
    from phonopy.file_IO import get_FORCE_CONSTANTS_lines, parse_FORCE_CONSTANTS
    n2 = 3
    p2s = np.array([0, 2], dtype="intc") if compact else None
    n1 = 2 if compact else n2
    fc = pick_values(rng, (n1, n2, 3, 3), big)
    lines = get_FORCE_CONSTANTS_lines(fc, p2s_map=p2s)
    fn = os.path.join(tmpdir, "FC_test")
    with open(fn, "w") as f:
        f.write("\n".join(lines))
    status, back = "ok", None
    try:
        back = parse_FORCE_CONSTANTS(fn, p2s_map=p2s)
        if back.shape != fc.shape:
            status, back = "wrong-structure", None
    except Exception as e:
        status = "raised:" + type(e).__name__
    os.remove(fn)
    name = "FORCE_CONSTANTS/" + ("compact" if compact else "full") + ("/big" if big else "")
    out = [(name, status)]
    exp = [("FC_hdr", [n1, n2], [back.shape[0], back.shape[1]] if back is not None else None)]
    idx = p2s if compact else np.arange(n1)
    for i in range(n1):
        for j in range(n2):
            exp.append(("FC_idx", [int(idx[i]) + 1, j + 1], None))
            for r in range(3):
                exp.append(("FC_row", list(fc[i, j, r]), list(back[i, j, r]) if back is not None else None))
    if len(lines) != len(exp):
        out.append((name + "/layout", "lines=%d expected=%d" % (len(lines), len(exp))))
    for n, ((kind, vs, bk), txt) in enumerate(zip(exp, lines)):
        col.add(kind, vs, txt, back=bk, origin=name, fs=status if n == 0 else "ok")
    return out


def hdf5_roundtrip(rng, tmpdir, compact, compression, unit):
    """bit-exact codec: -> dict(fc=bool, p2s=bool, unit=bool)"""
    import os
    from phonopy.file_IO import read_force_constants_hdf5, write_force_constants_to_hdf5
    n2 = 4
    p2s = np.array([0, 2], dtype="intc")
    fc = rng.normal(size=(2 if compact else n2, n2, 3, 3)) * 10.0 ** rng.integers(-12, 7)
    fn = os.path.join(tmpdir, "fc_test.hdf5")
    write_force_constants_to_hdf5(fc, filename=fn, p2s_map=p2s, physical_unit=unit, compression=compression)
    import h5py
    with h5py.File(fn, "r") as f:
        p2s_file = f["p2s_map"][:]
    fc2, unit2 = read_force_constants_hdf5(fn, p2s_map=p2s, return_physical_unit=True)
    fc3 = read_force_constants_hdf5(fn, p2s_map=p2s)
    os.remove(fn)
    return dict(fc=bool(fc2.shape == fc.shape and np.array_equal(fc2, fc) and np.array_equal(fc3, fc)
                        and fc2.dtype == fc.dtype),
                p2s=bool(np.array_equal(p2s_file, p2s)), unit=(unit2 == unit))
