"""C10 deepening: events for spec/ThermalArgs.tla recorded from the real code.

A. set_temperature_range (class and API route), B. is_projection through the API on full / reduced meshes
with / without eigenvectors, C. write_yaml.  Expected numbers come from the harness' own closed forms
(c10_num.prim) applied to full-mesh frequencies / eigenvectors; every decision is TLC's (ThermalArgs.tla)."""
from __future__ import annotations

import os
import re
import tempfile
from fractions import Fraction

import numpy as np

from . import c10_num as N


# ---- A. temperature range -------------------------------------------------------
RANGE_CASES = [
    # den, t_min, t_max, t_step   (None = argument not given); values in ticks of 1/den K
    (1, 0, 26, 10), (1, 0, 1000, 10), (1, 5, 26, 7), (1, -5, 10, 5), (1, 50, 10, 5), (1, 0, 10, -5), (1, 0, 10, 0),
    (1, 0, 25, 10), (1, 0, 30, 10), (1, 0, 34, 10), (1, 0, 35, 10), (1, 0, 36, 10), (1, 7, 7, 3), (1, 0, 0, 10),
    (20, 2, 7, 2), (10, 0, 3, 1), (10, 0, 10, 1), (100, 0, 36, 10), (10, 1, 100, 3), (2, 0, 5, 2), (4, 1, 30, 3),
    (1, None, None, None), (1, None, 40, None), (1, 0, None, 100), (1, 990, None, 3), (1, None, 5, 10), (1, 3, 100, None),
    (8, 0, 1000, 37), (1, 0, 10000, 2500), (1, 0, 9999, 2500),
]


def range_events(ctx, rng, api_ph=None):
    from phonopy.phonon.thermal_properties import ThermalProperties

    cases = list(RANGE_CASES)
    for _ in range(20 if ctx.quick else 200):
        den = int(rng.choice([1, 1, 2, 10, 4]))
        cases.append((den, int(rng.integers(-20, 200)), int(rng.integers(-20, 400)), int(rng.integers(-3, 60))))
    mesh = N.make_mesh([[1.0, 2.0, 3.0]], [1])
    events = []
    for i, (den, a, b, s) in enumerate(cases):
        kw = {}
        if a is not None:
            kw["t_min"] = a / den
        if b is not None:
            kw["t_max"] = b / den
        if s is not None:
            kw["t_step"] = s / den
        route = "api" if (api_ph is not None and i % 5 == 0 and None not in (a, b, s)) else "class"
        try:
            if route == "api":
                api_ph.run_thermal_properties(**kw)
                T = np.array(api_ph.get_thermal_properties_dict()["temperatures"], dtype=float)
            else:
                tp = ThermalProperties(mesh)
                tp.set_temperature_range(**kw)
                T = np.array(tp.temperatures, dtype=float)
            ticks = T * den
            got = [int(round(float(t))) for t in ticks]
            exact = bool(np.all(np.abs(ticks - np.round(ticks)) < 1e-6))
        except Exception as ex:  # noqa: BLE001
            got, exact = [-999999], False
            kw["err"] = repr(ex)
        events.append(dict(part="range", id=i, route=route, exact=exact, got=got,
                           args=dict(den=den, gmin=a is not None, tmin=a or 0, gmax=b is not None, tmax=b or 0,
                                     gstep=s is not None, tstep=s or 0), kw={k: (v if isinstance(v, str) else float(v)) for k, v in kw.items()}))
        ctx.count(("range", den, a, b, s, route))
        ctx.traces += 1
    return events


# ---- B. projection through the API --------------------------------------------------
GUARD_CUTOFF = 0.01   # THz: the acoustic modes at Gamma are rounding noise of either sign


def _expected_from_full_mesh(freqs, eigs, weights, T):
    """Totals and projected components (documented units) of the FULL mesh from the closed forms."""
    wsum = float(np.sum(weights))
    nb = freqs.shape[1]
    tot = {Q: np.zeros(len(T)) for Q in ("F", "S", "Cv")}
    proj = {Q: np.zeros((len(T), nb)) for Q in ("F", "S", "Cv")}
    e2 = np.abs(eigs) ** 2
    for j, t in enumerate(T):
        for q in range(freqs.shape[0]):
            cond = freqs[q] > GUARD_CUTOFF
            nu = freqs[q][cond]
            if t > 0:
                vals = dict(F=N.prim("Fth", nu, t) + N.prim("ZPE", nu, t), S=N.prim("S", nu, t), Cv=N.prim("Cv", nu, t))
            else:
                vals = dict(F=N.prim("ZPE", nu, 1.0), S=0 * nu, Cv=0 * nu)
            for Q in vals:
                tot[Q][j] += weights[q] * np.sum(vals[Q])
                proj[Q][j] += weights[q] * (e2[q][:, cond] @ vals[Q])
    for Q in tot:
        tot[Q] *= N.UNIT[Q] / wsum
        proj[Q] *= N.UNIT[Q] / wsum
    return tot, proj


def guard_events(ctx):
    from phonopy import Phonopy

    from .oracle import Oracle

    S = [[2, 0, 0], [0, 2, 0], [0, 0, 2]]
    meshno = [3, 3, 2]
    ntot = int(np.prod(meshno))
    n_self = int(np.prod([2 if n % 2 == 0 else 1 for n in meshno]))
    n_trs = (ntot + n_self) // 2
    T = [0.0, 40.0, 700.0]
    events = []
    ph_last = None
    wit = {}
    for entry in ("hcp", "tric"):
        orc = Oracle(entry, [S], seed=ctx.seed, ctx=ctx)
        ph = Phonopy(orc.unitcell(), supercell_matrix=S, log_level=0)
        ph.force_constants = orc.supercell_fc(S, ph.supercell)
        ph.run_mesh(meshno, with_eigenvectors=True, is_mesh_symmetry=False, is_gamma_center=True)
        fr = np.array(ph.mesh.frequencies, dtype=float)
        ev = np.array(ph.mesh.eigenvectors)
        w = np.array(ph.mesh.weights)
        tot, proj = _expected_from_full_mesh(fr, ev, w, T)
        scaleF = abs(tot["F"]).max() + 1e-30
        for with_eig in (True, False):
            for sym in (False, True):
                ph.run_mesh(meshno, with_eigenvectors=with_eig, is_mesh_symmetry=sym, is_gamma_center=True)
                nir = len(ph.mesh.weights)
                kind = "full" if nir == ntot else ("trs" if nir == n_trs else "rot")
                for is_proj in (False, True):
                    detail = {}
                    try:
                        with np.errstate(all="ignore"):
                            ph.run_thermal_properties(temperatures=T, is_projection=is_proj, cutoff_frequency=GUARD_CUTOFF)
                            tp = ph.thermal_properties
                            _, F, Sx, Cv = tp.thermal_properties
                            worst = max(np.abs(np.array(F) - tot["F"]).max() / scaleF,
                                        np.abs(np.array(Sx) - tot["S"]).max() / (abs(tot["S"]).max() + 1e-30),
                                        np.abs(np.array(Cv) - tot["Cv"]).max() / (abs(tot["Cv"]).max() + 1e-30))
                            if is_proj:
                                _, pF, pS, pCv = tp._projected_thermal_properties
                                worst = max(worst, np.abs(np.array(pF) - proj["F"]).max() / scaleF,
                                            np.abs(np.array(pS) - proj["S"]).max() / (abs(tot["S"]).max() + 1e-30),
                                            np.abs(np.array(pCv) - proj["Cv"]).max() / (abs(tot["Cv"]).max() + 1e-30))
                                detail["projected_F_300K_reported"] = np.array(pF)[1].tolist()
                                detail["projected_F_300K_full_mesh"] = proj["F"][1].tolist()
                            outcome = "correct" if worst < 1e-8 else "wrong"
                            detail["worst_relative_deviation"] = float(worst)
                    except (RuntimeError, ValueError) as ex:
                        outcome = "refused"
                        detail["exception"] = repr(ex)
                    except Exception as ex:  # noqa: BLE001
                        outcome = "crash"
                        detail["exception"] = repr(ex)
                    e = dict(part="guard", crystal=entry, isProj=is_proj, withEig=with_eig, mesh=kind, outcome=outcome)
                    events.append(e)
                    ctx.count(("guard", entry, is_proj, with_eig, kind))
                    ctx.traces += 1
                    if outcome in ("wrong", "crash") and outcome not in wit:
                        wit[outcome] = dict(crystal="catalogue entry %s, supercell 2x2x2" % entry, mesh=meshno,
                                            run_mesh=dict(with_eigenvectors=with_eig, is_mesh_symmetry=sym, is_gamma_center=True),
                                            irreducible_points=nir, run_thermal_properties=dict(temperatures=T, is_projection=is_proj, cutoff_frequency=GUARD_CUTOFF),
                                            outcome=outcome, **detail)
        ph.run_mesh(meshno, with_eigenvectors=False, is_mesh_symmetry=True, is_gamma_center=True)
        ph_last = ph
    return events, wit, ph_last


# ---- C. write_yaml ----------------------------------------------------------------------
_NUM = r"[-+]?(?:\d+\.?\d*(?:[eE][-+]?\d+)?|nan|inf|NaN|Inf)"


def _dev(printed, value, unit=1e-9):
    d = abs(printed - value) / unit
    return int(min(d, 2 ** 30)) if np.isfinite(d) else 2 ** 30


def yaml_events(ctx, rng):
    import yaml

    from phonopy.phonon.thermal_properties import ThermalProperties

    events = []
    wit = {}
    ncase = 10 if ctx.quick else 60
    for cid in range(ncase):
        nq = int(rng.integers(1, 4))
        nb = int(rng.choice([3, 6]))
        fr = np.sort(10 ** rng.uniform(-3, 1.5, size=(nq, nb)), axis=1)
        if cid % 3 == 0:
            fr[0, 0] = -0.7
        w = rng.integers(1, 5, size=nq)
        is_proj = bool(cid % 2)
        eig = None
        if is_proj:
            z = rng.normal(size=(nq, nb, nb)) + 1j * rng.normal(size=(nq, nb, nb))
            eig = np.array([np.linalg.qr(m)[0] for m in z])
        bi = None
        if cid % 4 >= 2:
            bi = [int(b) for b in rng.permutation(nb)[: int(rng.integers(1, nb + 1))]]
        cutoff = None if cid % 5 else float(fr[0, 1] * 1.5)
        mesh = N.make_mesh(fr, w, eig)
        T = [0.0, 0.05, 1.0] + sorted(float(t) for t in 10 ** rng.uniform(0.5, 4, size=4))
        e = dict(part="yaml", id=cid, isProj=is_proj, ntemps=len(T), parses=False, nonfinite=True, rows=0, prows=0, devT=0, devF=0,
                 devS=0, devCv=0, devE=0, devZpe=0, devCutoff=0, numModesOK=False, numIntegratedOK=False, bandIndexOK=False,
                 natomOK=False, devProj=0, devProjSum=0)
        path = None
        try:
            with np.errstate(all="ignore"):
                tp = ThermalProperties(mesh, cutoff_frequency=cutoff, band_indices=bi, is_projection=is_proj)
                tp.temperatures = T
                tp.run()
                fd, path = tempfile.mkstemp(suffix=".yaml")
                os.close(fd)
                tp.write_yaml(filename=path)
            text = open(path).read()
            e["nonfinite"] = bool(re.search(r"(?<![A-Za-z_])(nan|inf)(?![A-Za-z_])", text, re.I))
            doc = yaml.safe_load(text)
            e["parses"] = isinstance(doc, dict) and "thermal_properties" in doc
            if e["parses"]:
                tt, F, Sx, Cv = (np.array(x, dtype=float) for x in tp.thermal_properties)
                rows = doc["thermal_properties"]
                e["rows"] = len(rows)
                n = min(len(rows), len(tt))
                g = lambda k: np.array([float(r[k]) for r in rows[:n]])  # noqa: E731
                e["devT"] = max(_dev(a, b) for a, b in zip(g("temperature"), tt[:n]))
                e["devF"] = max(_dev(a, b) for a, b in zip(g("free_energy"), F[:n]))
                e["devS"] = max(_dev(a, b) for a, b in zip(g("entropy"), Sx[:n]))
                e["devCv"] = max(_dev(a, b) for a, b in zip(g("heat_capacity"), Cv[:n]))
                e["devE"] = max(_dev(a, b) for a, b in zip(g("energy"), (F + Sx * tt / 1000)[:n]))
                e["devZpe"] = _dev(float(doc["zero_point_energy"]), tp.zero_point_energy)
                e["devCutoff"] = _dev(float(doc["cutoff_frequency"]), 0.0 if cutoff is None else cutoff)
                e["numModesOK"] = int(doc["num_modes"]) == int(tp.number_of_modes)
                e["numIntegratedOK"] = int(doc["num_integrated_modes"]) == int(tp.number_of_integrated_modes)
                e["bandIndexOK"] = (("band_index" not in doc) if bi is None else (list(doc.get("band_index", [])) == [b + 1 for b in bi]))
                e["natomOK"] = int(doc["natom"]) == nb // 3
                if is_proj:
                    prow = doc.get("projected_thermal_properties", [])
                    e["prows"] = len(prow)
                    _, pF, pS, pCv = tp._projected_thermal_properties
                    dv, ds = 0, 0
                    for j, r in enumerate(prow[:n]):
                        for key, arr, tot in (("free_energy", pF, F), ("entropy", pS, Sx), ("heat_capacity", pCv, Cv)):
                            dv = max(dv, max(_dev(float(a), float(b)) for a, b in zip(r[key], arr[j])))
                            ds = max(ds, _dev(float(np.sum([float(a) for a in r[key]])), float(tot[j])))
                    e["devProj"], e["devProjSum"] = dv, ds
        except Exception as ex:  # noqa: BLE001
            e["err"] = repr(ex)
        finally:
            if path and os.path.exists(path):
                os.remove(path)
        bad = (not e["parses"]) or e["nonfinite"] or not (e["natomOK"] and e["bandIndexOK"] and e["numModesOK"] and e["numIntegratedOK"])
        if bad and "yaml" not in wit:
            wit["yaml"] = dict(frequencies_THz=fr.tolist(), weights=w.tolist(), band_indices=bi, cutoff_frequency=cutoff,
                               is_projection=is_proj, temperatures=T, event=dict(e))
        events.append(e)
        ctx.count(("yaml", cid))
        ctx.traces += 1
    return events, wit
