"""C10: q-count ladder for spec/ThermalCoverage.tla - the sums run over ALL q-points of the mesh.

Events recorded from the real code for meshes of 1 .. several thousand q-points (one band, non-uniform weights):
per-q-point decoded weights on the compiled path, level coefficients of contiguous quarters / q mod 4 on both paths,
closed-form comparison on random spectra (both paths) and on a dense 11x11x11 mesh through the API."""
from __future__ import annotations

import json

import numpy as np

from . import c10_num as N
from . import c10_trace as TR
from . import tlc as tlcmod

LADDER_QUICK = [7, 1025, 2500]
LADDER_FULL = [1, 2, 7, 1023, 1024, 1025, 1500, 2048, 2500, 4097]
T_DECODE = N.DECODE_T[::2]
NU = {L: N.nu_of_level_decode(L) for L in range(1, N.NLEV + 1)}


def _decode_levels(o, wsum):
    T = np.asarray(o["T"], dtype=float)
    out = {}
    exact = True
    for Q in ("F", "S", "Cv"):
        d = N.decode_series(T, o[Q], Q, False, wsum)
        out[Q] = [int(c) for c in d.get("coef", [0] * N.NLEV)]
        exact = exact and bool(d["exact"])
    return out, exact


def perq_event(nq, w, eid):
    """Weight with which every single q-point enters the compiled sum."""
    wsum = int(np.sum(w))
    qw = [0] * nq
    exact = True
    fr = np.full((nq, 1), NU[1])
    for start in range(0, nq, 3):
        marked = list(range(start, min(start + 3, nq)))
        fr[:, 0] = NU[1]
        for k, q in enumerate(marked):
            fr[q, 0] = NU[2 + k]
        o = N.run_real(N.make_mesh(fr, w), T_DECODE, "C")
        if o["status"] != "ok":
            return dict(kind="perq", id=eid, w=[int(x) for x in w], qw=[-1] * nq, exact=False), o.get("err")
        d = N.decode_series(o["T"], o["Cv"], "Cv", False, wsum)
        ds = N.decode_series(o["T"], o["S"], "S", False, wsum)
        exact = exact and bool(d["exact"]) and bool(ds["exact"]) and d.get("coef") == ds.get("coef")
        for k, q in enumerate(marked):
            qw[q] = int(d["coef"][1 + k]) if d.get("coef") else -1
    return dict(kind="perq", id=eid, w=[int(x) for x in w], qw=qw, exact=bool(exact)), None


def seg_event(nq, w, pattern, eid):
    if pattern == "quarters":
        levq = [min(4, 1 + (4 * q) // nq) for q in range(nq)]
    else:
        levq = [1 + (q % 4) for q in range(nq)]
    fr = np.array([[NU[L]] for L in levq])
    wsum = int(np.sum(w))
    e = dict(kind="seg", id=eid, pattern=pattern, w=[int(x) for x in w], levq=levq)
    for lang, key in (("C", "c"), ("Py", "py")):
        o = N.run_real(N.make_mesh(fr, w), T_DECODE, lang)
        if o["status"] != "ok":
            e[key] = dict(exact=False, F=[0] * 4, S=[0] * 4, Cv=[0] * 4, nmodes=-1, nint=-1)
            continue
        coef, exact = _decode_levels(o, wsum)
        e[key] = dict(exact=exact, F=coef["F"], S=coef["S"], Cv=coef["Cv"], nmodes=int(o["nmodes"]), nint=int(o["nint"]))
    return e


SUM_T = [0.0, 1.0, 30.0, 300.0, 1.0e4]


def _expected(freqs, req, div, T, cutoff=0.0):
    """Interpretation of the required per-q weights: totals (documented units) and natural-scale magnitudes."""
    out = {}
    req = np.asarray(req, dtype=float)
    for Q, kinds in (("F", ("Fth", "ZPE")), ("S", ("S",)), ("Cv", ("Cv",))):
        val = np.zeros(len(T))
        mag = np.zeros(len(T))
        for j, t in enumerate(T):
            for kind in kinds:
                if t <= 0 and kind != "ZPE":
                    continue
                p = np.where(freqs > cutoff, N.prim(kind, np.where(freqs > cutoff, freqs, 1.0), t if t > 0 else 1.0), 0.0)
                val[j] += float(np.sum(req[:, None] * p))
                mag[j] += float(np.sum(req[:, None] * np.where(freqs > cutoff, np.maximum(np.abs(p), TR.natural_scale(kind, t)), 0.0)))
        out[Q] = (val * N.UNIT[Q] / div, mag * N.UNIT[Q] / div)
    return out


def _dev(o, exp):
    worst = 0.0
    fin = True
    for Q in ("F", "S", "Cv"):
        got = np.asarray(o[Q], dtype=float)
        val, mag = exp[Q]
        if not np.all(np.isfinite(got)):
            fin = False
            continue
        with np.errstate(all="ignore"):
            r = np.abs(got - val) / np.where(mag > 0, mag, 1.0)
        worst = max(worst, float(np.max(r)))
    return int(min(worst / 1e-12, 2 ** 30)), fin


def phase_ladder(ctx, once_module, violated_names, workers=4):
    rng = np.random.default_rng(ctx.seed + 97)
    ladder = LADDER_QUICK if ctx.quick else LADDER_FULL
    events = []
    sums = {}
    eid = 0
    errs = []
    for nq in ladder:
        w = rng.integers(1, 5, size=nq)
        if not ctx.quick or nq <= 2500:
            eid += 1
            e, err = perq_event(nq, w, eid)
            if err:
                errs.append(err)
            events.append(e)
            ctx.count(("ladder-perq", nq))
            ctx.traces += (nq + 2) // 3
        for pattern in ("quarters", "mod4"):
            eid += 1
            events.append(seg_event(nq, w, pattern, eid))
            ctx.count(("ladder-seg", nq, pattern))
            ctx.traces += 2
        # closed forms on a random spectrum (all x <= 0.01 at 1e4 K: nu <= 2 THz), both code paths
        eid += 1
        fr = 10 ** rng.uniform(-1.3, 0.3, size=(nq, 2))
        runs = {lang: N.run_real(N.make_mesh(fr, w), SUM_T, lang) for lang in ("C", "Py")}
        sums[eid] = dict(freqs=fr, runs=runs, cutoff=0.0, nb=2, what="random spectrum, %d q-points, 2 bands" % nq)
        events.append(dict(kind="sum", id=eid, w=[int(x) for x in w], pending=True, hasPy=True, finC=True, finPy=True, devC=-1, devPy=-1, devDP=-1))
        ctx.count(("ladder-sum", nq))
        ctx.traces += 2
    # dense mesh through the API: 11 x 11 x 11 without mesh symmetry on the one-atom simple cubic spring crystal
    from phonopy import Phonopy

    from .oracle import Oracle

    S = [[2, 0, 0], [0, 2, 0], [0, 0, 2]]
    orc = Oracle("sc", [S], seed=ctx.seed, ctx=ctx)
    ph = Phonopy(orc.unitcell(), supercell_matrix=S, log_level=0)
    ph.force_constants = orc.supercell_fc(S, ph.supercell)
    ph.run_mesh([11, 11, 11], is_mesh_symmetry=False, is_gamma_center=True)
    cutoff = 0.01
    try:
        with np.errstate(all="ignore"):
            ph.run_thermal_properties(temperatures=SUM_T, cutoff_frequency=cutoff)
            d = ph.get_thermal_properties_dict()
            o = dict(status="ok", T=d["temperatures"], F=d["free_energy"], S=d["entropy"], Cv=d["heat_capacity"])
    except Exception as ex:  # noqa: BLE001
        o = dict(status="error", err=repr(ex))
    eid += 1
    sums[eid] = dict(freqs=np.array(ph.mesh.frequencies, dtype=float), runs={"C": o}, cutoff=cutoff, nb=3,
                     what="Phonopy.run_thermal_properties, catalogue entry sc, mesh 11x11x11, is_mesh_symmetry=False (%d q-points)" % len(ph.mesh.weights))
    events.append(dict(kind="sum", id=eid, w=[int(x) for x in ph.mesh.weights], pending=True, hasPy=False, finC=True, finPy=True,
                       devC=-1, devPy=-1, devDP=-1))
    ctx.count(("ladder-api", len(ph.mesh.weights)))
    ctx.traces += 1

    invs = ["InvEveryQPointOnce", "ImplCoversEveryQPoint", "ConformsSeen", "ImplSegmentSumsC", "ImplSegmentSumsPy",
            "ImplLadderSameBothLanguages", "ImplWeightedSumsC", "ImplWeightedSumsPy", "ImplLadderDulongPetit"]
    judge = dict(init="Init", next="Next", vars="vars", cond='pc = "done"')
    cfg = ("INIT MCInit_\nNEXT MCNext_\nCONSTANTS\n Events <- MCEvents\nCHECK_DEADLOCK FALSE\n" + "".join("INVARIANT O_%s\n" % v for v in invs))
    body = "MCEvents == LET J == JsonDeserialize(\"events.json\") IN {J[i] : i \\in DOMAIN J}\n"
    name = "MC_ThermalCoverage"
    # run 1: everything recorded so far; the required weights (req, div) of the "sum" events are read from the dump
    pend = [dict(e) for e in events]
    for e in pend:
        if e["kind"] == "sum":
            e["kind"] = "sumreq"
    vac1 = ("ASSUME \\E e \\in MCEvents : e.kind = \"perq\" /\\ Len(e.w) > 1024\n"
            "ASSUME \\E e \\in MCEvents : e.kind = \"seg\" /\\ Len(e.w) > 1024 /\\ \\E q \\in 1..Len(e.w) : e.w[q] # e.w[1]\n")
    res = ctx.tlc(name, cfg_text=cfg, extra_files={name + ".tla": once_module(name, "ThermalCoverage, Json", body + vac1, invs, judge=judge),
                                                   "events.json": json.dumps(pend)},
                  requirement=False, extra_args=("-continue",), workers=workers, dump=True, keep=True, coverage=False)
    if res.kind == "assumption":
        tlcmod.cleanup(res)
        raise tlcmod.MachineryError("ThermalCoverage: vacuity assumption failed: %s" % res.violated)
    names = set(violated_names(res))
    reqs = {}
    for st in TR.done_states(res.dump_path, want=("ev", "req", "div")):
        if st["ev"]["kind"] == "sumreq":
            reqs[st["ev"]["id"]] = (st["req"], st["div"])
    tlcmod.cleanup(res)
    # run 2: the closed-form comparisons against the required weights TLC stated
    sum_events = []
    wit = {}
    for e in events:
        if e["kind"] != "sum":
            continue
        if e["id"] not in reqs:
            raise tlcmod.MachineryError("no required weights for ladder event %d in the TLC dump" % e["id"])
        req, div = reqs[e["id"]]
        info = sums[e["id"]]
        exp = _expected(info["freqs"], req, div, SUM_T, cutoff=info["cutoff"])
        e = dict(e, pending=False)
        for lang, kd, kf in (("C", "devC", "finC"), ("Py", "devPy", "finPy")):
            o = info["runs"].get(lang)
            if o is None:
                continue
            if o["status"] != "ok":
                e[kd], e[kf] = 2 ** 30, False
                errs.append(o.get("err"))
                continue
            e[kd], e[kf] = _dev(o, exp)
            if e[kd] > 100 and "sum" not in wit:
                wit["sum"] = dict(what=info["what"], lang=lang, temperatures=SUM_T, reported=dict(F=np.asarray(o["F"]).tolist(),
                                  S=np.asarray(o["S"]).tolist(), Cv=np.asarray(o["Cv"]).tolist()),
                                  required=dict(F=exp["F"][0].tolist(), S=exp["S"][0].tolist(), Cv=exp["Cv"][0].tolist()))
        oc = info["runs"]["C"]
        fr = info["freqs"]
        if oc["status"] == "ok" and info["cutoff"] == 0.0 and np.max(N.x_of(fr, SUM_T[-1])) <= 0.01:
            scale = info["nb"] * N.KB * N.UNIT["Cv"]          # N k_B with N = bands per q-point (all contribute)
            e["devDP"] = int(min(abs(float(np.asarray(oc["Cv"])[-1]) / scale - 1.0) / 1e-9, 2 ** 30))
        sum_events.append(e)
    vac = ("ASSUME \\E e \\in MCEvents : e.kind = \"sum\" /\\ Len(e.w) > 1024\n")
    res = ctx.tlc(name, cfg_text=cfg, extra_files={name + ".tla": once_module(name, "ThermalCoverage, Json", body + vac, invs, judge=judge),
                                                   "events.json": json.dumps(sum_events)},
                  requirement=False, extra_args=("-continue",), workers=2)
    if res.kind == "assumption":
        raise tlcmod.MachineryError("ThermalCoverage: vacuity assumption failed: %s" % res.violated)
    names |= set(violated_names(res))
    ctx.extra["ladder_q_counts"] = ladder
    ctx.extra["ladder_events"] = dict(perq=sum(1 for e in events if e["kind"] == "perq"), seg=sum(1 for e in events if e["kind"] == "seg"),
                                      sum=len(sum_events))
    ctx.extra["ladder_worst_sum_deviation_1e-12"] = max([max(e["devC"], e["devPy"]) for e in sum_events] + [0])
    ctx.extra["ladder_violated"] = sorted(names)
    if errs:
        ctx.extra["ladder_exceptions"] = errs[:3]
    # witnesses for the report
    for e in events:
        if e["kind"] == "perq" and e["qw"] != e["w"] and "perq" not in wit:
            bad = [q for q in range(len(e["w"])) if e["qw"][q] != e["w"][q]]
            wit["perq"] = dict(q_points=len(e["w"]), first_q_with_wrong_weight=bad[0], number_wrong=len(bad),
                               mesh_weight=e["w"][bad[0]], weight_in_compiled_sum=e["qw"][bad[0]],
                               realisation="one band; q-point q at %g THz, all others at %g THz; 8 temperatures 2 K .. 3000 K" % (NU[2], NU[1]))
        if e["kind"] == "seg" and (e["c"] != e["py"] or not e["c"]["exact"]) and "seg" not in wit:
            wit["seg"] = dict(q_points=len(e["w"]), pattern=e["pattern"], compiled=e["c"], python=e["py"])
    for n in sorted(names):
        if n == "ConformsSeen":
            continue
        key = "perq" if "EveryQ" in n else ("seg" if ("Segment" in n or "SameBoth" in n) else "sum")
        ctx.violation(("tlc:ThermalCoverage:" if n.startswith("Inv") else "ladder:") + n,
                      "C10 sums over all q-points of the mesh: %s fails on values recorded from the real code" % n,
                      dict(invariant=n, witness=wit.get(key)))
    if "ConformsSeen" in names and not any(n.startswith("Impl") for n in names):
        ctx.extra["SPEC-DRIFT-LADDER"] = "ConformsSeen"
