"""C16 - older layouts of phonopy.yaml (YamlCompat.tla): the repository's read-only fixtures and
re-laid-out files of the C16 world, read independently (PyYAML) and through phonopy."""
from __future__ import annotations

import contextlib
import glob
import io
import lzma
import os
import shutil
import tempfile

import numpy as np
import yaml as pyyaml

from harness import bootstrap  # noqa: F401
from harness import c16_world as W

_LOADER = getattr(pyyaml, "CSafeLoader", pyyaml.SafeLoader)
_DUMPER = getattr(pyyaml, "CSafeDumper", pyyaml.SafeDumper)


def read_text(path):
    with open(path, "rb") as f:
        raw = f.read()
    if raw[:6] == b"\xfd7zXZ\x00":
        raw = lzma.decompress(raw)
    return raw.decode()


def fixtures(repo):
    out = []
    for p in sorted(glob.glob(os.path.join(repo, "test", "*.yaml*")) + glob.glob(os.path.join(repo, "test", "*", "*.yaml*"))):
        if not (p.endswith(".yaml") or p.endswith(".yaml.xz")):
            continue
        try:
            y = pyyaml.load(read_text(p), Loader=_LOADER)
        except Exception:
            continue
        if isinstance(y, dict) and "phonopy" in y and "unit_cell" in y and "supercell_matrix" in y:
            out.append(p)
    return out


# ---- independent reading -------------------------------------------------------------------
def _cell(d):
    key = "points" if "points" in d else "atoms"
    pos = [a.get("coordinates", a.get("position")) for a in d[key]]
    return dict(lattice=np.array(d["lattice"], dtype=float), positions=np.array(pos, dtype=float),
                symbols=[a.get("extended_symbol", a["symbol"]) for a in d[key]],
                masses=np.array([a["mass"] for a in d[key]], dtype=float) if all("mass" in a for a in d[key]) else None,
                key=key)


def independent(y):
    """-> (layout, content, numbers) of a phonopy.yaml document, by its documented layouts"""
    lay = dict(atoms="points", nacAt="nested", dsAs="cur", natom="supercell" if "supercell" in y else ("key" if "natom" in y else "no"))
    num = {}
    for k in ("unit_cell", "primitive_cell", "supercell"):
        if k in y:
            num[k] = _cell(y[k])
            if num[k]["key"] == "atoms":
                lay["atoms"] = "atoms"
    ct = dict(cells="all" if all(k in y for k in ("unit_cell", "primitive_cell", "supercell")) else "unit")
    if ct["cells"] != "all":
        lay["natom"] = "key" if "natom" in y else "no"
    num["smat"] = np.array(y["supercell_matrix"]) if "supercell_matrix" in y else None
    num["pmat"] = np.array(y["primitive_matrix"], dtype=float) if "primitive_matrix" in y else None
    # NAC
    nac = dict(present=False, factor=False, method="none")
    src = None
    if "nac" in y:
        src = y["nac"]
    elif "born_effective_charge" in y or "dielectric_constant" in y:
        src = y
        lay["nacAt"] = "top"
    if src is not None and "born_effective_charge" in src and "dielectric_constant" in src:
        nac["present"] = True
        num["born"] = np.array(src["born_effective_charge"], dtype=float)
        num["eps"] = np.array(src["dielectric_constant"], dtype=float)
        if src is y:
            f = (y.get("phonopy") or {}).get("nac_unit_conversion_factor")
        else:
            f = src.get("unit_conversion_factor")
            if "method" in src:
                nac["method"] = str(src["method"]).lower()
        if f is not None:
            nac["factor"] = True
            num["nacfactor"] = float(f)
    ct["nac"] = nac
    # dataset
    ds = dict(type=0, forces=False, energies=False)
    if "displacements" in y:
        d = y["displacements"]
        if isinstance(d[0], dict):
            ds = dict(type=1, forces=all("forces" in x for x in d), energies=all("supercell_energy" in x for x in d))
            num["atoms"] = [x["atom"] - 1 for x in d]
            num["disp"] = np.array([x["displacement"] for x in d], dtype=float)
            if ds["forces"]:
                num["forces"] = np.array([x["forces"] for x in d], dtype=float)
            if ds["energies"]:
                num["energies"] = np.array([x["supercell_energy"] for x in d], dtype=float)
        else:
            lay["dsAs"] = "v223"
            ds = dict(type=2, forces="force" in d[0][0], energies="supercell_energies" in y)
            num["disp"] = np.array([[a["displacement"] for a in x] for x in d], dtype=float)
            if ds["forces"]:
                num["forces"] = np.array([[a["force"] for a in x] for x in d], dtype=float)
            if ds["energies"]:
                num["energies"] = np.array(y["supercell_energies"], dtype=float)
    elif "dataset" in y:
        dd = y["dataset"]
        ds = dict(type=2, forces="forces" in dd, energies="supercell_energies" in dd)
        num["disp"] = np.array(dd["displacements"], dtype=float)
        if ds["forces"]:
            num["forces"] = np.array(dd["forces"], dtype=float)
        if ds["energies"]:
            num["energies"] = np.array(dd["supercell_energies"], dtype=float)
    ct["ds"] = ds
    if "force_constants" in y:
        sh = tuple(y["force_constants"]["shape"]) + (3, 3)
        num["fc"] = np.array(y["force_constants"]["elements"], dtype=float).reshape(sh)
    return lay, ct, num


# ---- through phonopy -----------------------------------------------------------------------
def _worst(*cls):
    return int(max(cls)) if cls else 0


def _cmp(a, b, dec=17):
    if a is None and b is None:
        return 0
    if a is None or b is None:
        return 9
    return W.err_class(np.asarray(a, dtype=float), np.asarray(b, dtype=float), dec)


def observe(path, num, workdir):
    """PhonopyYaml.read + phonopy.load of the file; error classes against the independent numbers; resave."""
    import phonopy
    from phonopy.interface.phonopy_yaml import PhonopyYaml
    cwd = os.getcwd()
    os.chdir(workdir)
    try:
        try:
            with contextlib.redirect_stdout(io.StringIO()):
                data = PhonopyYaml().read(path)
                ph = phonopy.load(path, produce_fc=False, symmetrize_fc=False)
        except Exception as e:  # noqa: BLE001
            return dict(status="raised", err="%s: %s" % (type(e).__name__, str(e)[:80]),
                        g=dict(nac=dict(present=False, factor=False, method="none"), ds=dict(type=0, forces=False, energies=False)),
                        q=dict(cells=0, ds=0, nac=0, fc=0), resave=0)
        g = dict(nac=dict(present=data.nac_params is not None,
                          factor=bool(data.nac_params is not None and "factor" in data.nac_params),
                          method=str((data.nac_params or {}).get("method", "none"))),
                 ds=W.ds_kind(data.dataset))
        q = {}
        cc = []
        for key, cell in (("unit_cell", data.unitcell), ("primitive_cell", data.primitive), ("supercell", data.supercell)):
            if key in num:
                n = num[key]
                cc += [_cmp(n["lattice"], cell.cell), _cmp(n["positions"], cell.scaled_positions),
                       0 if list(n["symbols"]) == list(cell.symbols) else 9]
                if n["masses"] is not None:
                    cc.append(_cmp(n["masses"], cell.masses))
        if num.get("smat") is not None:
            cc.append(0 if np.array_equal(num["smat"], np.array(data.supercell_matrix)) else 9)
        if num.get("pmat") is not None:
            cc.append(_cmp(num["pmat"], data.primitive_matrix))
        # the object phonopy.load builds lives on the same unit cell
        cc.append(_cmp(num["unit_cell"]["lattice"], ph.unitcell.cell))
        q["cells"] = _worst(*cc)
        d, f, e = W.disp_forces(data.dataset)
        dq = []
        if "disp" in num:
            if "atoms" in num:  # type 1: displacement vectors of the displaced atoms
                dd = np.zeros_like(d)
                for i, (a, x) in enumerate(zip(num["atoms"], num["disp"])):
                    dd[i, a] = x
                dq.append(_cmp(dd, d))
            else:
                dq.append(_cmp(num["disp"], d))
        if "forces" in num:
            dq.append(_cmp(num["forces"], f))
        if "energies" in num:
            dq.append(_cmp(num["energies"], e))
        q["ds"] = _worst(*dq)
        nq = []
        if "born" in num:
            nq += [_cmp(num["born"], data.nac_params["born"]), _cmp(num["eps"], data.nac_params["dielectric"])]
            if "nacfactor" in num:
                nq.append(_cmp(num["nacfactor"], data.nac_params.get("factor")))
        q["nac"] = _worst(*nq)
        q["fc"] = _cmp(num.get("fc"), data.force_constants) if "fc" in num else 0
        # saved by the current code and loaded again: the same calculation (to the written precision)
        try:
            with contextlib.redirect_stdout(io.StringIO()):
                fn = ph.save("resaved.yaml", settings={"force_constants": ph.force_constants is not None})
                ph2 = phonopy.load(fn, produce_fc=False, symmetrize_fc=False, is_compact_fc=(ph.force_constants is None or ph.force_constants.shape[0] != ph.force_constants.shape[1]))
            rs = [W.cell_err(ph.unitcell, ph2.unitcell)[k] for k in ("lat", "pos", "mass")]
            rs.append(0 if list(ph.unitcell.symbols) == list(ph2.unitcell.symbols) else 9)
            d1, f1, e1 = W.disp_forces(ph.dataset)
            d2, f2, e2 = W.disp_forces(ph2.dataset)
            rs += [_cmp(d1, d2, 16), _cmp(f1, f2, 16), _cmp(e1, e2, 8)]
            rs.append(0 if W.ds_kind(ph.dataset) == W.ds_kind(ph2.dataset) else 9)
            if ph.nac_params is not None or ph2.nac_params is not None:
                if ph.nac_params is None or ph2.nac_params is None:
                    rs.append(9)
                else:
                    rs += [_cmp(ph.nac_params["born"], ph2.nac_params["born"], 15),
                           _cmp(ph.nac_params["dielectric"], ph2.nac_params["dielectric"], 15),
                           _cmp(ph.nac_params.get("factor"), ph2.nac_params.get("factor"), 6),
                           0 if ph.nac_params.get("method") == ph2.nac_params.get("method") else 9]
            rs.append(_cmp(ph.force_constants, ph2.force_constants, 15))
            rs.append(0 if ph.calculator == ph2.calculator else 9)
            resave = _worst(*rs)
        except Exception as e:  # noqa: BLE001
            resave = 9
        return dict(status="ok", err="none", g=g, q=q, resave=resave)
    finally:
        os.chdir(cwd)


# ---- re-laying-out a current file ------------------------------------------------------------
def relayout(y, lay):
    """the document y (current layout) in the older layout `lay`; returns the new document"""
    import copy
    z = copy.deepcopy(y)
    if lay["atoms"] == "atoms":
        for k in ("unit_cell", "primitive_cell", "supercell"):
            if k in z:
                pts = z[k].pop("points")
                z[k]["atoms"] = [dict(symbol=a["symbol"], position=a["coordinates"], mass=a["mass"]) for a in pts]
    if lay["nacAt"] == "top" and "nac" in z:
        n = z.pop("nac")
        for k in ("born_effective_charge", "dielectric_constant"):
            if k in n:
                z[k] = n[k]
        if "unit_conversion_factor" in n:
            z["phonopy"]["nac_unit_conversion_factor"] = n["unit_conversion_factor"]
    if lay["dsAs"] == "v223" and "dataset" in z:
        dd = z.pop("dataset")
        rows = []
        for i, dset in enumerate(dd["displacements"]):
            row = []
            for j, d in enumerate(dset):
                item = dict(displacement=d)
                if "forces" in dd:
                    item["force"] = dd["forces"][i][j]
                row.append(item)
            rows.append(row)
        z["displacements"] = rows
        if "supercell_energies" in dd:
            z["supercell_energies"] = dd["supercell_energies"]
    if lay["natom"] in ("key", "no"):
        n = len(z["supercell"]["points"] if "points" in z.get("supercell", {}) else z.get("supercell", {}).get("atoms", []))
        for k in ("supercell", "primitive_cell"):
            z.pop(k, None)
        if lay["natom"] == "key":
            z["natom"] = n
    return z


def dump(z, path):
    with open(path, "w") as f:
        pyyaml.dump(z, f, Dumper=_DUMPER, default_flow_style=None, sort_keys=False)


def fixture_event(path, workdir):
    y = pyyaml.load(read_text(path), Loader=_LOADER)
    lay, ct, num = independent(y)
    obs = observe(path, num, workdir)
    return dict(kindOf="fixture", name=os.path.relpath(path, bootstrap.REPO), ly=lay, ct=ct, obs=obs)


def legacy_events(rng, n, workdir):
    """calculations of the C16 world saved by the current code, re-laid-out in every older layout that can express them"""
    events = []
    k = 0
    combos = [dict(atoms=a, nacAt=b, dsAs=c, natom=d) for a in ("points", "atoms") for b in ("nested", "top")
              for c in ("cur", "v223") for d in ("supercell", "key", "no")]
    for it in range(n + 1):
        name = ["nacl", "tetab", "tric", "p4"][it % 4]
        t = int(rng.integers(0, 3))
        forces = bool(t != 0 and rng.random() < 0.6)
        crafted = it == n   # the one layout that cannot be loaded: type 1 without forces and no atom count anywhere
        if crafted:
            t, forces = 1, False
        kind = ["none", "plain", "wang", "gonze"][int(rng.integers(4))]
        cellrec = dict(name=name, ext=False, mag="none", masses=["std", "c6"][int(rng.integers(2))], generic=bool(rng.random() < 0.3))
        cellrec.update(W.cell_attrs(name))
        cfg = dict(obj=dict(cell=cellrec, calc="none", ds=dict(type=t, forces=forces, energies=bool(t != 0 and rng.random() < 0.5)),
                            fc="none", nac=dict(kind=kind, factor=bool(kind != "none" and rng.random() < 0.6)), np=dict(W.NP_OBJ0)),
                   st=dict(fs="unset", disp="unset", fc="unset", born="unset", eps="unset"), comp="F",
                   args=dict(), env=dict(FS=0, FC="none", H5="none", BORN=False))
        with W.World(cfg, int(rng.integers(1 << 30))) as w:
            ph = w.build()
            fn = ph.save("cur.yaml")
            y = pyyaml.load(read_text(fn), Loader=_LOADER)
        lay0, ct0, _ = independent(y)
        ok = [c for c in combos if not (c["dsAs"] == "v223" and ct0["ds"]["type"] != 2)]
        picks = [ok[int(rng.integers(len(ok)))] for _ in range(2)]
        if crafted:
            picks = [dict(atoms="points", nacAt="nested", dsAs="cur", natom="no")]
        for lay in picks:
            z = relayout(y, lay)
            path = os.path.join(workdir, "legacy_%d.yaml" % k)
            k += 1
            dump(z, path)
            lay2, ct2, num2 = independent(pyyaml.load(read_text(path), Loader=_LOADER))
            obs = observe(path, num2, workdir)
            os.remove(path)
            events.append(dict(kindOf="legacy", name="%s/%s" % (name, "-".join(lay[k2] for k2 in ("atoms", "nacAt", "dsAs", "natom"))),
                               ly=lay2, ct=ct2, obs=obs, asked=lay))
    return events
